"""Driver library of the lumina TLA+ verification machinery (see /verif/DESIGN.md section 2).

A check module (checks/<name>.py) exposes `run(ck)` where `ck` is a `Check`.  It
model-checks the specification with TLC, lets TLC generate cases / behaviours which the Rust
harness replays into the real code (spec -> impl), records traces from the real code which TLC
validates against the trace specification (impl -> spec), and reports observations that fall
outside the property through `ck.violation(..)`.

Exit codes of bin/check: 0 held (maybe KNOWN-FINDING lines), 1 VIOLATION line(s), 2 tool error.
"""
import json
import os
import re
import shutil
import subprocess
import sys
import time

VERIF = os.path.dirname(os.path.dirname(os.path.abspath(__file__)))
SPEC = os.path.join(VERIF, "spec")
HARNESS = os.environ.get("VERIF_HARNESS") or os.path.join(VERIF, "harness")  # override: scratch copy for seed tests
# VERIF_OUT redirects work/, evidence/ and replays/ (seed tests against a scratch tree must not
# overwrite the evidence of the registered runs)
OUT = os.environ.get("VERIF_OUT") or VERIF
TLA_CP = "/opt/veriftools/tla/tla2tools.jar:/opt/veriftools/tla/CommunityModules-deps.jar"


class ToolError(Exception):
    pass


def log(msg):
    print(msg, flush=True)


def load_props():
    out = {}
    with open(os.path.join(VERIF, "properties.jsonl")) as f:
        for line in f:
            d = json.loads(line)
            out[d["id"]] = d
    return out


def load_known():
    import glob
    out = []
    for p in [os.path.join(VERIF, "known_findings.json")] + sorted(glob.glob(os.path.join(VERIF, "known_findings.d", "*.json"))):
        if os.path.exists(p):
            out += json.load(open(p))["findings"]
    return out


def _subset(match, obj):
    """match (dict) is contained in obj (dict); lists in match mean 'any of'."""
    if not isinstance(obj, dict):
        return False
    for k, v in match.items():
        if k not in obj:
            return False
        o = obj[k]
        if isinstance(v, dict):
            if not _subset(v, o):
                return False
        elif isinstance(v, list) and not isinstance(o, list):
            if o not in v:
                return False
        elif o != v:
            return False
    return True


class Check:
    def __init__(self, prop, tier, seed, replay=None):
        self.prop = prop
        self.tier = tier
        self.seed = seed
        self.replay = replay
        self.t0 = time.time()
        self.work = os.path.join(OUT, "work", prop)
        shutil.rmtree(self.work, ignore_errors=True)
        os.makedirs(self.work, exist_ok=True)
        os.makedirs(os.path.join(OUT, "replays"), exist_ok=True)
        os.makedirs(os.path.join(OUT, "evidence"), exist_ok=True)
        self.cov = {
            "states": 0,
            "transitions": 0,
            "traces_validated_against_impl": 0,
            "samples": [],
            "evaluations": 0,
            "distinct_nontrivial": 0,
            "rule": "",
            "tlc_runs": [],
            "harness_runs": [],
            "drift": 0,
            "known_findings_hit": [],
            "coverage_gaps": [],
        }
        self.assumptions = []
        self.violations = []  # list of (class-dict, detail, replay-payload)
        self.known_hits = []
        self.level = "model_checking"
        self.quick = tier == "quick"
        self.workers_mc = int(os.environ.get("VERIF_TLC_WORKERS", "6" if self.quick else "12"))

    # ------------------------------------------------------------------ building
    def build(self, crate):
        t = time.time()
        env = dict(os.environ, CARGO_NET_OFFLINE="true")
        r = subprocess.run(
            ["cargo", "build", "--offline", "-p", crate],
            cwd=HARNESS, env=env, stdout=subprocess.PIPE, stderr=subprocess.STDOUT, text=True,
        )
        if r.returncode != 0:
            log(r.stdout[-6000:])
            raise ToolError(f"cargo build -p {crate} failed")
        log(f"[build] {crate} ok in {time.time()-t:.1f}s")
        tdir = os.environ.get("CARGO_TARGET_DIR") or os.path.join(HARNESS, "target")
        return os.path.join(tdir, "debug", crate)

    # ------------------------------------------------------------------ TLC
    def cfg_with(self, base_cfg, overrides=None, name=None):
        """Copy spec/<base_cfg> into the work dir with `CONSTANT X = v` overridden."""
        src = open(os.path.join(SPEC, base_cfg)).read()
        for k, v in (overrides or {}).items():
            src, n = re.subn(rf"(?m)^(\s*(?:CONSTANTS?\s+)?{re.escape(k)}\s*=\s*).*$", rf"\g<1>{v}", src)
            if n == 0:
                raise ToolError(f"constant {k} not found in {base_cfg}")
        out = os.path.join(self.work, name or base_cfg)
        open(out, "w").write(src)
        return out

    def _tlc(self, module, cfg, tag, workers=1, extra=None, env=None, timeout=3600, java_opts=None, heap="8g"):
        meta = os.path.join(self.work, "meta_" + tag)
        shutil.rmtree(meta, ignore_errors=True)
        cmd = ["java", "-XX:+UseParallelGC", f"-Xmx{heap}"] + (java_opts or []) + [
            "-cp", TLA_CP, "tlc2.TLC", "-workers", str(workers), "-metadir", meta, "-cleanup",
            "-noGenerateSpecTE", "-config", cfg,
        ] + (extra or []) + [os.path.join(SPEC, module + ".tla")]
        e = dict(os.environ)
        e.pop("JAVA_TOOL_OPTIONS", None)
        if env:
            e.update(env)
        out_path = os.path.join(self.work, tag + ".out")
        t = time.time()
        with open(out_path, "w") as fo:
            try:
                r = subprocess.run(cmd, cwd=SPEC, env=e, stdout=fo, stderr=subprocess.STDOUT, timeout=timeout)
                rc = r.returncode
            except subprocess.TimeoutExpired:
                rc = -9
        shutil.rmtree(meta, ignore_errors=True)
        return rc, out_path, time.time() - t

    @staticmethod
    def _parse_stats(text):
        m = re.search(r"(\d+) states generated, (\d+) distinct states found", text)
        gen, dist = (int(m.group(1)), int(m.group(2))) if m else (0, 0)
        return gen, dist

    @staticmethod
    def _parse_coverage(text):
        """Top-level action coverage lines: `<Name line .. of module M>: distinct:generated`.
        Sub-actions of a disjunctive Next are reported by TLC as `<Next line .. (l1 c1 l2 c2)>`;
        the operator names appearing at that source location are credited too."""
        cov = {}
        srcs = {}
        for m in re.finditer(r"(?m)^<(\w+) line \d+, col \d+ to line \d+, col \d+ of module (\w+)(?: \((\d+) (\d+) (\d+) (\d+)\))?>: (\d+):(\d+)", text):
            name, module, l1, c1, l2, c2, _dist, gen = m.groups()
            gen = int(gen)
            cov[name] = cov.get(name, 0) + gen
            if l1:
                if module not in srcs:
                    try:
                        srcs[module] = open(os.path.join(SPEC, module + ".tla")).read().splitlines()
                    except OSError:
                        srcs[module] = []
                lines = srcs[module][int(l1) - 1:int(l2)]
                if lines:
                    if len(lines) == 1:
                        seg = lines[0][int(c1) - 1:int(c2)]
                    else:
                        seg = lines[0][int(c1) - 1:] + " " + " ".join(lines[1:-1]) + " " + lines[-1][:int(c2)]
                    for w in set(re.findall(r"\b[A-Z]\w*\b", seg)):
                        if w != name:
                            cov[w] = cov.get(w, 0) + gen
        return cov

    def tlc_mc(self, module, cfg, tag=None, workers=None, timeout=3600, required_actions=None,
               simulate=None, expect_violation=None, heap="8g"):
        """Model-check MC module.  A violated invariant *inside the specification* is a SPEC-ERROR
        (tool error), unless `expect_violation` names the invariant expected to fail (as-is
        deviation runs); returns dict(states, transitions, coverage, violated)."""
        tag = tag or ("mc_" + module)
        extra = ["-coverage", "1"]
        if simulate:
            extra = ["-simulate", f"num={simulate[0]}", "-depth", str(simulate[1]), "-seed", str(self.seed)]
        rc, out_path, dt = self._tlc(module, cfg, tag, workers=workers or self.workers_mc, extra=extra,
                                     timeout=timeout, heap=heap)
        text = open(out_path).read()
        gen, dist = self._parse_stats(text)
        cov = self._parse_coverage(text)
        violated = None
        m = re.search(r"Invariant (\w+) is violated", text) or re.search(r"Temporal properties were violated", text) \
            or re.search(r"Action property (\w+) is violated", text)
        if m:
            violated = m.group(1) if m.groups() else "temporal"
        run = {"module": module, "cfg": os.path.basename(cfg), "states_generated": gen, "distinct_states": dist,
               "wall_s": round(dt, 1), "rc": rc, "violated": violated, "mode": "simulate" if simulate else "bfs"}
        if cov:
            run["action_coverage"] = cov
        self.cov["tlc_runs"].append(run)
        log(f"[tlc-mc] {module} {os.path.basename(cfg)}: {dist} distinct / {gen} generated, rc={rc}, {dt:.1f}s"
            + (f", violated={violated}" if violated else ""))
        if rc == -9:
            if simulate:
                return run  # simulation under timeout is fine
            raise ToolError(f"TLC timeout on {module}")
        if expect_violation:
            # a wrong design may break several invariants; with several TLC workers the one reported first varies,
            # so a tuple / list of acceptable names may be given
            accepted = (expect_violation,) if isinstance(expect_violation, str) else tuple(expect_violation)
            if violated not in accepted:
                log(f"NOTE: expected as-is counterexample of {'/'.join(accepted)} no longer reproduces in the model")
            run["expected_violation_reproduced"] = violated in accepted
            return run
        if violated or rc not in (0,):
            tail = "\n".join(text.splitlines()[-40:])
            log(tail)
            raise ToolError(f"SPEC-ERROR: TLC rc={rc} violated={violated} in {module} (the specification itself fails)")
        self.cov["states"] += dist
        self.cov["transitions"] += gen
        for a in required_actions or []:
            if cov.get(a, 0) == 0:
                raise ToolError(f"vacuity: action {a} never taken in {module}")
        return run

    def tlc_gen(self, module, cfg, out_name, tag=None, timeout=3600, simulate=None, heap="8g", count_stats=True,
                dedupe=False):
        """Run a Gen_ module (-workers 1), collect the JSON lines it prints into work/<out_name>."""
        tag = tag or ("gen_" + module)
        extra = []
        if simulate:
            extra = ["-simulate", f"num={simulate[0]}", "-depth", str(simulate[1]), "-seed", str(self.seed)]
        rc, out_path, dt = self._tlc(module, cfg, tag, workers=1, extra=extra, timeout=timeout, heap=heap)
        out = os.path.join(self.work, out_name)
        n = 0
        seen = set()
        with open(out_path) as fi, open(out, "w") as fo:
            for line in fi:
                if line.startswith('"{'):
                    if dedupe:
                        if line in seen:
                            continue
                        seen.add(line)
                    fo.write(line)
                    n += 1
        text = open(out_path).read()
        gen, dist = self._parse_stats(text)
        self.cov["tlc_runs"].append({"module": module, "cfg": os.path.basename(cfg), "states_generated": gen,
                                     "distinct_states": dist, "emitted": n, "wall_s": round(dt, 1), "rc": rc})
        log(f"[tlc-gen] {module}: {n} cases emitted ({dist} distinct states / {gen} generated), rc={rc}, {dt:.1f}s")
        if rc == -9 and simulate:
            pass
        elif rc != 0:
            log("\n".join(text.splitlines()[-30:]))
            raise ToolError(f"TLC generation failed for {module} rc={rc}")
        if n == 0:
            raise ToolError(f"vacuity: {module} emitted no cases")
        if count_stats:
            self.cov["states"] += dist
            self.cov["transitions"] += gen
        os.remove(out_path)
        return out, n

    def tlc_trace(self, module, cfg, trace_path, tag=None, timeout=1800, heap="4g"):
        """Validate one ndjson trace.  Returns (accepted, reject) where reject = dict(at, event)."""
        tag = tag or ("trace_" + module)
        rc, out_path, dt = self._tlc(
            module, cfg, tag, workers=1, timeout=timeout, heap=heap,
            env={"TRACE": trace_path},
            java_opts=["-Xss1g", "-Dtlc2.tool.queue.IStateQueue=StateDeque"],
        )
        text = open(out_path).read()
        gen, dist = self._parse_stats(text)
        self.cov["tlc_runs"].append({"module": module, "trace": os.path.basename(trace_path), "states_generated": gen,
                                     "distinct_states": dist, "wall_s": round(dt, 1), "rc": rc})
        if rc == 0 and "Postcondition" not in text:
            self.cov["states"] += dist
            self.cov["transitions"] += gen
            return True, None
        m = re.search(r'<<"REJECT-AT", (\d+)>>\s*\n("(?:[^"\\]|\\.)*")', text)
        if m:
            at = int(m.group(1))
            try:
                ev = json.loads(json.loads(m.group(2)))
            except Exception:
                ev = m.group(2)
            inv = re.search(r"Invariant (\w+) is violated", text)
            return False, {"at": at, "event": ev, "invariant": inv.group(1) if inv else None}
        inv = re.search(r"Invariant (\w+) is violated", text)
        if inv:
            # invariant violated on the trace: locate the position from the state count
            return False, {"at": dist, "event": None, "invariant": inv.group(1)}
        log("\n".join(text.splitlines()[-40:]))
        raise ToolError(f"trace validation of {trace_path} failed without a verdict (rc={rc})")

    def validate_trace_runs(self, module, cfg, trace_path, on_reject, reset_name="reset", max_rejects=25):
        """Validate a concatenation of runs (separated by `reset` events).  On a rejection the
        offending run is cut out and validation continues with the remaining runs so that one
        finding does not hide the rest.  Returns number of runs accepted."""
        lines = open(trace_path).read().splitlines()
        runs, cur = [], []
        for ln in lines:
            if f'"name":"{reset_name}"' in ln.replace(" ", "") and cur:
                runs.append(cur)
                cur = []
            cur.append(ln)
        if cur:
            runs.append(cur)
        accepted = 0
        pending = runs
        rejects = 0
        part = 0
        while pending:
            part += 1
            p = os.path.join(self.work, f"{os.path.basename(trace_path)}.part{part}")
            with open(p, "w") as f:
                for r in pending:
                    f.write("\n".join(r) + "\n")
            ok, rej = self.tlc_trace(module, cfg, p, tag=f"trace_{module}_{part}")
            if ok:
                accepted += len(pending)
                os.remove(p)
                break
            # find the run containing event number rej.at (1-based over the concatenation)
            at = rej["at"]
            k, acc = 0, 0
            while k < len(pending) and acc + len(pending[k]) < at:
                acc += len(pending[k])
                k += 1
            k = min(k, len(pending) - 1)
            bad_run = pending[k]
            idx = at - acc  # 1-based index inside the run
            on_reject(rej, bad_run, idx)
            accepted += k
            pending = pending[k + 1:]
            rejects += 1
            if rejects >= max_rejects:
                log(f"[trace] stopping after {rejects} rejected runs")
                break
        self.cov["traces_validated_against_impl"] += accepted
        return accepted

    # ------------------------------------------------------------------ harness
    def harness(self, binary, args, tag, timeout=3600, env=None):
        summary = os.path.join(self.work, tag + ".summary.json")
        e = dict(os.environ)
        if env:
            e.update(env)
        e["VERIF_CURRENT"] = summary + ".current"
        t = time.time()
        try:
            r = subprocess.run([binary] + [str(a) for a in args] + ["--summary", summary], cwd=VERIF, env=e,
                               stdout=subprocess.PIPE, stderr=subprocess.PIPE, text=True, timeout=timeout)
        except subprocess.TimeoutExpired:
            raise ToolError(f"harness {tag} timed out")
        dt = time.time() - t
        cur = summary + ".current"
        if r.returncode < 0 and os.path.exists(cur):
            # the process died on a signal (abort on allocation failure, stack overflow) while running
            # the recorded case: that is an observation about the code under test, not a tool error
            case = json.load(open(cur))
            log(f"[harness] {tag}: killed by signal {-r.returncode} while running {json.dumps(case)[:200]}")
            return {"model": tag, "props": {self.prop: {"evaluations": 1, "distinct_nontrivial": 0, "violations": 1,
                                                           "drift": 0, "samples": [case]}},
                    "violations": [{"property": self.prop, "case": case,
                                    "why": f"process killed by signal {-r.returncode} while running this case: "
                                           + r.stderr[-300:],
                                    "class": {"kind": "abort", "signal": -r.returncode}}],
                    "drift": [], "extra": {}}
        if r.returncode != 0 or not os.path.exists(summary):
            log(r.stdout[-3000:])
            log(r.stderr[-3000:])
            raise ToolError(f"harness {tag} failed rc={r.returncode}")
        s = json.load(open(summary))
        log(f"[harness] {tag}: " + ", ".join(
            f"{k}: {v['evaluations']} cases/{v['violations']} viol" for k, v in s["props"].items()) + f" {dt:.1f}s")
        self.cov["harness_runs"].append({"tag": tag, "wall_s": round(dt, 1),
                                         "props": {k: {a: b for a, b in v.items() if a != "samples"}
                                                   for k, v in s["props"].items()},
                                         "extra": s.get("extra", {})})
        return s

    def absorb(self, summary, classify=None):
        """Take this property's counts, samples, violations and drift from a harness summary.
        `classify(v) -> dict` gives the finding class of a violation (for known_findings)."""
        p = summary["props"].get(self.prop)
        if not p:
            return
        self.cov["evaluations"] += p["evaluations"]
        self.cov["distinct_nontrivial"] += p["distinct_nontrivial"]
        self.cov["drift"] += p.get("drift", 0)
        for s in p["samples"]:
            if len(self.cov["samples"]) < 8:
                self.cov["samples"].append(s)
        for v in summary["violations"]:
            if v.get("property") != self.prop:
                continue
            cls = classify(v) if classify else v.get("class", {})
            self.violation(cls, v.get("why", ""), v)
        for d in summary.get("drift", []):
            if d.get("property") == self.prop:
                log(f"DRIFT property={self.prop} {json.dumps(d)[:300]}")

    # ------------------------------------------------------------------ verdicts
    def violation(self, cls, why, payload):
        for k in load_known():
            if k.get("status") == "known" and k["property"] == self.prop and _subset(k["match"], cls):
                self.known_hits.append((k, why))
                return
        self.violations.append((cls, why, payload))

    def finish(self):
        wall = time.time() - self.t0
        cov = self.cov
        seen = set()
        for k, why in self.known_hits:
            key = json.dumps(k["match"], sort_keys=True)
            if key in seen:
                continue
            seen.add(key)
            log(f"KNOWN-FINDING: property={self.prop} {k['what']}")
            cov["known_findings_hit"].append({"match": k["match"], "what": k["what"]})
        cov["known_finding_observations"] = len(self.known_hits)
        if not cov["samples"]:
            cov["samples"] = [{"note": "no per-case sample recorded"}]
        ev = {
            "property_id": self.prop,
            "tier": self.tier,
            "seed": self.seed,
            "level": self.level,
            "coverage": cov,
            "assumptions": self.assumptions,
            "wall_s": round(wall, 1),
            "violations": len(self.violations),
        }
        rc = 0
        if self.violations:
            rc = 1
            # group by class, one replay file per class
            groups = {}
            for cls, why, payload in self.violations:
                groups.setdefault(json.dumps(cls, sort_keys=True), []).append((why, payload))
            for i, (cls, items) in enumerate(sorted(groups.items())):
                path = os.path.join(OUT, "replays", f"{self.prop}-{i}.json")
                json.dump({"property": self.prop, "class": json.loads(cls), "count": len(items),
                           "tier": self.tier, "seed": self.seed,
                           "items": [{"why": w, "case": p} for w, p in items[:20]]}, open(path, "w"), indent=1)
                log(f"VIOLATION property={self.prop} replay={path}")
                log(f"  class={cls} count={len(items)} first: {items[0][0][:400]}")
        if not self.replay:  # a replay run re-examines recorded cases only; it is not evidence
            json.dump(ev, open(os.path.join(OUT, "evidence", f"{self.prop}.json"), "w"), indent=1)
        log(f"[done] {self.prop} tier={self.tier} violations={len(self.violations)} "
            f"known={len(self.known_hits)} wall={wall:.1f}s")
        return rc
