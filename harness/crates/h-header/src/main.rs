//! Conformance harness binding celestia-types header validation / verification (C01, C02, C03)
//! to spec/HeaderVerify.tla (see /verif/CONVENTIONS.md).
//!   h-header replay <commit|validate|chain> <cases.ndjson> --summary <out.json> [--seed S]

use h_common::{tool_error, Args};

mod chain;
mod commit;
mod conc;
mod validate;

fn main() {
    let args = Args::from_env();
    let mode = args.pos(0).to_string();
    let model = args.pos(1).to_string();
    h_common::quiet_panics();
    match (mode.as_str(), model.as_str()) {
        ("replay", "commit") => commit::replay(&args),
        ("replay", "validate") => validate::replay(&args),
        ("replay", "chain") => chain::replay(&args),
        _ => tool_error(&format!("unknown mode/model {mode}/{model}")),
    }
}
