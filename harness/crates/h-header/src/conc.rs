//! Concretisation of the symbolic terms of spec/HeaderVerify.tla with real ed25519 keys and
//! real tendermint / celestia types.
//!
//! key k > 0      -> the k-th ed25519 key of a deterministic pool, the pool being ordered by
//!                   account address (so that "keys ascending" = "addresses ascending", the
//!                   order `validator::Set::new` sorts equal powers by);
//! address a      -> account id of key a (Addr(k) = k in the spec);
//! chain c        -> chain id "hv-chain-<c>";
//! block id b     -> sha256-sized hash filled from b (0 = nil);
//! time t         -> base + t seconds;
//! signature      -> ed25519 signature by `key` over the canonical precommit vote built from the
//!                   fields of the symbolic signature (key 0: 64 garbage bytes, key -1: None).

use std::cell::RefCell;
use std::collections::HashMap;

use celestia_types::hash::Hash;
use ed25519_consensus::SigningKey;
use serde_json::Value;
use tendermint::block::{parts, Commit, CommitSig, Height, Id as BlockId, Round};
use tendermint::public_key::PublicKey;
use tendermint::validator::{Info, Set};
use tendermint::{account, chain, vote, Signature, Time, Vote};

pub const POOL: usize = 160;

pub struct Keys {
    keys: Vec<SigningKey>,
    pubs: Vec<PublicKey>,
    addrs: Vec<account::Id>,
    cache: RefCell<HashMap<(i64, Vec<u8>), Signature>>,
    pub signed: RefCell<u64>,
}

impl Keys {
    pub fn new(seed: u64) -> Keys {
        let mut v: Vec<(account::Id, SigningKey, PublicKey)> = (0..POOL as u64)
            .map(|i| {
                let mut b = [0u8; 32];
                b[..8].copy_from_slice(&seed.to_le_bytes());
                b[8..16].copy_from_slice(&i.to_le_bytes());
                b[16] = 0xA7;
                let sk = SigningKey::from(b);
                let pk = PublicKey::from_raw_ed25519(&sk.verification_key().to_bytes()).unwrap();
                (account::Id::from(pk), sk, pk)
            })
            .collect();
        v.sort_by_key(|x| x.0);
        Keys {
            addrs: v.iter().map(|x| x.0).collect(),
            pubs: v.iter().map(|x| x.2).collect(),
            keys: v.into_iter().map(|x| x.1).collect(),
            cache: RefCell::new(HashMap::new()),
            signed: RefCell::new(0),
        }
    }

    fn idx(k: i64) -> usize {
        assert!(k > 0 && (k as usize) <= POOL, "key id {k} outside the pool");
        (k - 1) as usize
    }
    pub fn public(&self, k: i64) -> PublicKey {
        self.pubs[Self::idx(k)]
    }
    /// Addr(k); 0 is the all-zero address (never the address of a key)
    pub fn addr(&self, k: i64) -> account::Id {
        if k == 0 { account::Id::new([0; 20]) } else { self.addrs[Self::idx(k)] }
    }
    pub fn sign(&self, k: i64, msg: &[u8]) -> Signature {
        let key = (k, msg.to_vec());
        if let Some(s) = self.cache.borrow().get(&key) {
            return s.clone();
        }
        *self.signed.borrow_mut() += 1;
        let s = Signature::new(self.keys[Self::idx(k)].sign(msg).to_bytes()).unwrap().unwrap();
        self.cache.borrow_mut().insert(key, s.clone());
        s
    }
    pub fn info(&self, k: i64, power: u64) -> Info {
        Info::new(self.public(k), vote::Power::try_from(power).expect("power"))
    }
}

pub fn chain_id(c: i64) -> chain::Id {
    format!("hv-chain-{c}").try_into().unwrap()
}

pub fn hash_of(tag: u8, b: i64) -> Hash {
    let mut x = [tag; 32];
    x[..8].copy_from_slice(&b.to_be_bytes());
    Hash::Sha256(x)
}

/// symbolic block id label -> concrete block id (0 = nil vote)
pub fn block_id(b: i64) -> Option<BlockId> {
    if b == 0 {
        return None;
    }
    Some(BlockId { hash: hash_of(0xB1, b), part_set_header: parts::Header::new(1, hash_of(0xB2, b)).unwrap() })
}

pub const TIME_BASE: i64 = 1_700_000_000;
pub fn time_at(t: i64) -> Time {
    Time::from_unix_timestamp(TIME_BASE + t, 0).unwrap()
}

pub fn i(v: &Value, k: &str) -> i64 {
    v.get(k).and_then(|x| x.as_i64()).unwrap_or_else(|| h_common::tool_error(&format!("field {k} missing in {v}")))
}
pub fn s<'a>(v: &'a Value, k: &str) -> &'a str {
    v.get(k).and_then(|x| x.as_str()).unwrap_or_else(|| h_common::tool_error(&format!("field {k} missing in {v}")))
}
pub fn arr<'a>(v: &'a Value, k: &str) -> &'a Vec<Value> {
    v.get(k).and_then(|x| x.as_array()).unwrap_or_else(|| h_common::tool_error(&format!("array {k} missing in {v}")))
}

/// Bytes a validator signs for a precommit with the given (symbolic) fields. `bid`: resolver of
/// block id labels (differs between the models).
pub fn vote_bytes(
    chain: &chain::Id,
    h: u64,
    round: u32,
    bid: Option<BlockId>,
    ts: Time,
    addr: account::Id,
    index: usize,
) -> Vec<u8> {
    let v = Vote {
        vote_type: vote::Type::Precommit,
        height: Height::try_from(h).unwrap(),
        round: Round::try_from(round).unwrap(),
        block_id: bid,
        timestamp: Some(ts),
        validator_address: addr,
        validator_index: (index as u32).try_into().unwrap(),
        signature: None,
        extension: Vec::new(),
        extension_signature: None,
    };
    v.into_signable_vec(chain.clone())
}

pub fn garbage_sig() -> Signature {
    Signature::new([0x5a_u8; 64]).unwrap().unwrap()
}

/// A validator set in exactly the given order (the fields of `Set` are public; decoding and
/// `Set::new` would sort by (power desc, address asc)). Powers are multiplied by `scale`.
pub fn set_in_order(keys: &Keys, vals: &[Value], scale: u64) -> Set {
    let infos: Vec<Info> = vals.iter().map(|v| keys.info(i(v, "key"), i(v, "power") as u64 * scale)).collect();
    let total: u64 = infos.iter().map(|x| x.power()).sum();
    Set { proposer: infos.first().cloned(), validators: infos, total_voting_power: vote::Power::try_from(total).unwrap() }
}

/// Concretise a symbolic commit `{h, round, bid, sigs:[{flag, addr, ts, sig:{key,chain,h,round,bid,ts}}]}`.
pub fn commit_of(keys: &Keys, c: &Value, bid: &dyn Fn(i64) -> Option<BlockId>) -> Commit {
    let sigs = arr(c, "sigs")
        .iter()
        .enumerate()
        .map(|(idx, e)| {
            let flag = s(e, "flag");
            if flag == "absent" {
                return CommitSig::BlockIdFlagAbsent;
            }
            let addr = keys.addr(i(e, "addr"));
            let ts = time_at(i(e, "ts"));
            let sg = &e["sig"];
            let k = i(sg, "key");
            let signature = if k < 0 {
                None
            } else if k == 0 {
                Some(garbage_sig())
            } else {
                let bytes = vote_bytes(
                    &chain_id(i(sg, "chain")),
                    i(sg, "h") as u64,
                    i(sg, "round") as u32,
                    bid(i(sg, "bid")),
                    time_at(i(sg, "ts")),
                    addr,
                    idx,
                );
                Some(keys.sign(k, &bytes))
            };
            match flag {
                "nil" => CommitSig::BlockIdFlagNil { validator_address: addr, timestamp: ts, signature },
                "commit" => CommitSig::BlockIdFlagCommit { validator_address: addr, timestamp: ts, signature },
                _ => h_common::tool_error(&format!("flag {flag}")),
            }
        })
        .collect();
    Commit {
        height: Height::try_from(i(c, "h") as u64).unwrap(),
        round: Round::try_from(i(c, "round") as u32).unwrap(),
        block_id: bid(i(c, "bid")).expect("commit block id label must not be 0"),
        signatures: sigs,
    }
}

/// Reports violations to the summary, keeping a bounded number of payloads *per class* so that a
/// frequent (e.g. known) class can never crowd a rare one out of the summary's global cap.
pub struct Sink {
    per_class: HashMap<String, u64>,
    pub cap: u64,
}

impl Sink {
    pub fn new() -> Sink {
        Sink { per_class: HashMap::new(), cap: 4 }
    }
    pub fn violation(&mut self, sum: &mut h_common::Summary, prop: &str, v: Value) {
        let key = v.get("class").map(|c| c.to_string()).unwrap_or_default();
        let n = self.per_class.entry(key).or_insert(0);
        *n += 1;
        if *n <= self.cap {
            sum.violation(prop, v);
        }
    }
    pub fn finish(&self, sum: &mut h_common::Summary) {
        let m: serde_json::Map<String, Value> = self.per_class.iter().map(|(k, v)| (k.clone(), serde_json::json!(v))).collect();
        sum.set("violations_by_class", Value::Object(m));
    }
}
