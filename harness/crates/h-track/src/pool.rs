//! C40: shrex `PoolTracker` through `lumina_node::verif::trackers::VPoolTracker`.
//!
//! The tracker reads headers from a `GatedStore`: a view of a fully populated `InMemoryStore` whose
//! head is the base header and in which height h "arrives" (wait_height(h) completes) only when the
//! harness releases it - the arrival order of headers is therefore the harness' choice, as the model's
//! `Arrive(h)`.  Time is tokio's paused clock; `advance` moves it by 121 s (validation timeout 120 s).
//!
//! replay pooltracker <cases>: cases of Gen_PoolTracker (path + last step with expectation, or whole
//!     simulated behaviours); record pooltracker: seeded histories, every step logged.

use std::collections::{BTreeSet, HashSet};
use std::fmt::Display;
use std::sync::{Arc, Mutex};
use std::time::Duration;

use async_trait::async_trait;
use celestia_types::hash::Hash;
use celestia_types::test_utils::ExtendedHeaderGenerator;
use celestia_types::ExtendedHeader;
use cid::Cid;
use h_common::{catch, read_cases, Args, Summary, TraceWriter};
use libp2p::identity::Keypair;
use libp2p::PeerId;
use lumina_node::block_ranges::BlockRanges;
use lumina_node::store::{InMemoryStore, SamplingMetadata, Store, StoreError, VerifiedExtendedHeaders};
use lumina_node::verif::trackers::{VPoolPoll, VPoolQuery, VPoolTracker};
use serde_json::{json, Value};
use tokio::sync::Notify;

const PROP: &str = "C40";
const BASE: u64 = 25;
/// the model's `None` (no subjective head yet)
const NONE: i64 = -1000;

#[derive(Debug)]
pub struct GatedStore {
    inner: Arc<InMemoryStore>,
    released: Mutex<HashSet<u64>>,
    notify: Notify,
}

impl GatedStore {
    fn new(inner: Arc<InMemoryStore>) -> Self {
        GatedStore { inner, released: Mutex::new(HashSet::new()), notify: Notify::new() }
    }
    fn release(&self, height: u64) {
        self.released.lock().unwrap().insert(height);
        self.notify.notify_waiters();
    }
}

type SResult<T> = std::result::Result<T, StoreError>;

#[async_trait]
impl Store for GatedStore {
    async fn get_head(&self) -> SResult<ExtendedHeader> {
        self.inner.get_by_height(BASE).await
    }
    async fn get_by_hash(&self, hash: &Hash) -> SResult<ExtendedHeader> {
        self.inner.get_by_hash(hash).await
    }
    async fn get_by_height(&self, height: u64) -> SResult<ExtendedHeader> {
        self.inner.get_by_height(height).await
    }
    async fn wait_new_head(&self) -> u64 {
        std::future::pending().await
    }
    async fn wait_height(&self, height: u64) -> SResult<()> {
        loop {
            let n = self.notify.notified();
            if height <= BASE || self.released.lock().unwrap().contains(&height) {
                return self.inner.wait_height(height).await;
            }
            n.await;
        }
    }
    async fn head_height(&self) -> SResult<u64> {
        Ok(BASE)
    }
    async fn has(&self, hash: &Hash) -> bool {
        self.inner.has(hash).await
    }
    async fn has_at(&self, height: u64) -> bool {
        self.inner.has_at(height).await
    }
    async fn update_sampling_metadata(&self, height: u64, cids: Vec<Cid>) -> SResult<()> {
        self.inner.update_sampling_metadata(height, cids).await
    }
    async fn get_sampling_metadata(&self, height: u64) -> SResult<Option<SamplingMetadata>> {
        self.inner.get_sampling_metadata(height).await
    }
    async fn mark_as_sampled(&self, height: u64) -> SResult<()> {
        self.inner.mark_as_sampled(height).await
    }
    async fn insert<R>(&self, headers: R) -> SResult<()>
    where
        R: TryInto<VerifiedExtendedHeaders> + Send,
        <R as TryInto<VerifiedExtendedHeaders>>::Error: Display,
    {
        self.inner.insert(headers).await
    }
    async fn get_stored_header_ranges(&self) -> SResult<BlockRanges> {
        self.inner.get_stored_header_ranges().await
    }
    async fn get_sampled_ranges(&self) -> SResult<BlockRanges> {
        self.inner.get_sampled_ranges().await
    }
    async fn get_pruned_ranges(&self) -> SResult<BlockRanges> {
        self.inner.get_pruned_ranges().await
    }
    async fn remove_height(&self, height: u64) -> SResult<()> {
        self.inner.remove_height(height).await
    }
    async fn get_identity(&self) -> SResult<Keypair> {
        self.inner.get_identity().await
    }
    async fn close(self) -> SResult<()> {
        Ok(())
    }
}

/// Headers 1..=BASE+maxh in one shared store, their data hashes, peer ids.
struct Fixture {
    store: Arc<InMemoryStore>,
    hashes: Vec<Hash>, // index = real height
    peers: Vec<PeerId>,
    maxh: u64,
}

impl Fixture {
    async fn new(maxh: u64, npeers: usize) -> Fixture {
        let mut g = ExtendedHeaderGenerator::new();
        let headers = g.next_many(BASE + maxh);
        let mut hashes = vec![Hash::None];
        for h in &headers {
            hashes.push(h.header.data_hash.expect("generated headers carry a data hash"));
        }
        let distinct: HashSet<_> = hashes[1..].iter().collect();
        assert_eq!(distinct.len(), headers.len(), "data hashes must differ across heights");
        let store = InMemoryStore::new();
        store.insert(unsafe { VerifiedExtendedHeaders::new_unchecked(headers) }).await.unwrap();
        Fixture { store: Arc::new(store), hashes, peers: (0..npeers).map(|_| PeerId::random()).collect(), maxh }
    }
    /// data hash of model height x (relative to the base, may be negative); 0 = a hash no header has
    fn hash(&self, x: i64) -> Hash {
        if x == 0 {
            Hash::Sha256([0xEE; 32])
        } else {
            self.hashes[(BASE as i64 + x) as usize]
        }
    }
    fn pidx(&self, p: &PeerId) -> u64 {
        self.peers.iter().position(|q| q == p).map(|i| i as u64 + 1).unwrap_or(0)
    }
}

struct World<'a> {
    fx: &'a Fixture,
    gate: Arc<GatedStore>,
    t: VPoolTracker<GatedStore>,
    /// right-hash announcements made so far (peer, model height) - a fact of the run, not a verdict
    announced_right: HashSet<(u64, i64)>,
}

impl<'a> World<'a> {
    fn new(fx: &'a Fixture) -> World<'a> {
        let gate = Arc::new(GatedStore::new(fx.store.clone()));
        World { fx, t: VPoolTracker::new(gate.clone()), gate, announced_right: HashSet::new() }
    }

    /// Apply one operation ([a, p, x, h]); the result in the spec's encoding.
    async fn apply(&mut self, a: &str, p: u64, x: i64, h: i64) -> Value {
        match a {
            "announce" => {
                if x == h {
                    self.announced_right.insert((p, h));
                }
                self.t.add_peer_for_hash(self.fx.peers[p as usize - 1], self.fx.hash(x), (BASE as i64 + h) as u64);
                json!(["none"])
            }
            "remove_peer" => {
                self.t.remove_peer(&self.fx.peers[p as usize - 1]);
                json!(["none"])
            }
            "arrive" => {
                self.gate.release((BASE as i64 + h) as u64);
                json!(["none"])
            }
            "advance" => {
                tokio::time::advance(Duration::from_secs(121)).await;
                json!(["none"])
            }
            "poll" => self.poll(),
            other => h_common::tool_error(&format!("unknown op {other}")),
        }
    }

    fn poll(&mut self) -> Value {
        let set = |v: Vec<PeerId>| -> Vec<u64> { v.iter().map(|p| self.fx.pidx(p)).collect::<BTreeSet<_>>().into_iter().collect() };
        match self.t.poll_once() {
            VPoolPoll::Pending => json!(["pending"]),
            VPoolPoll::Progress => json!(["progress"]),
            VPoolPoll::AddPeers(v) => json!(["add", set(v)]),
            VPoolPoll::BlockPeers(v) => json!(["block", set(v)]),
            VPoolPoll::Other => json!(["other"]),
        }
    }

    fn query(&self, h: i64) -> Value {
        match catch(|| self.t.get_pool((BASE as i64 + h) as u64)) {
            Err(msg) => json!(["panic", msg]),
            Ok(VPoolQuery::Peers(v)) => json!(["peers", v.iter().map(|p| self.fx.pidx(p)).collect::<Vec<_>>()]),
            Ok(VPoolQuery::CandidatesNotValidated) => json!(["not-validated"]),
            Ok(VPoolQuery::HeightTooOld) => json!(["too-old"]),
            Ok(VPoolQuery::HeightNotTracked) => json!(["not-tracked"]),
        }
    }

    fn head(&self) -> i64 {
        self.t.subjective_head().map(|h| h as i64 - BASE as i64).unwrap_or(NONE)
    }
}

fn op_of(v: &Value) -> (String, u64, i64, i64) {
    let a = v.as_array().unwrap();
    (a[0].as_str().unwrap().to_string(), a[1].as_u64().unwrap(), a[2].as_i64().unwrap(), a[3].as_i64().unwrap())
}

fn as_set(v: &Value) -> BTreeSet<u64> {
    v.as_array().map(|a| a.iter().filter_map(|x| x.as_u64()).collect()).unwrap_or_default()
}

/// Same result up to the order inside event peer sets.
fn res_eq(real: &Value, model: &Value) -> bool {
    real[0] == model[0] && as_set(&real[1]) == as_set(&model[1])
}

struct Judged {
    violation: Option<(String, String)>,
    drift: Option<String>,
}

/// Compare the observation after a step with the model's expectation and judge it by the statement.
/// `drained_blocks`: peers found in BlockPeers events when the harness drained the tracker after the step.
fn judge(w: &World, heights: &[i64], exp: &Value, real_res: &Value, real_q: &[(i64, Value)], real_hd: i64, drained_blocks: Option<&BTreeSet<u64>>) -> Judged {
    // no panic
    if let Some((h, q)) = real_q.iter().find(|(_, q)| q[0] == "panic") {
        return Judged { violation: Some(("panic".into(), format!("get_pool(base{h:+}) panicked: {}", q[1]))), drift: None };
    }
    // (1) offered only if announced the stored header's data hash
    for (h, q) in real_q {
        if q[0] == "peers" {
            for p in as_set(&q[1]) {
                if !w.announced_right.contains(&(p, *h)) {
                    return Judged { violation: Some(("offered-unannounced".into(),
                        format!("get_pool(base{h:+}) offers peer {p} which never announced the data hash of that height"))), drift: None };
                }
            }
        }
    }
    // (3) pools more than ten below the newest validated height are dropped
    for (h, q) in real_q {
        if real_hd != NONE && *h < real_hd - 10 && (q[0] == "peers" || q[0] == "not-validated") {
            return Judged { violation: Some(("old-pool-kept".into(), format!("pool of base{h:+} still exists with subjective head base{real_hd:+}"))), drift: None };
        }
    }
    // (2) who must be blocked (model: owe) is blocked
    if let Some(blocks) = drained_blocks {
        let owe = as_set(&exp["owe"]);
        let mut got = blocks.clone();
        if real_res[0] == "block" {
            got.extend(as_set(&real_res[1]));
        }
        if !owe.is_subset(&got) {
            let why = exp["why"].as_str().unwrap_or("").to_string();
            return Judged { violation: Some((format!("not-blocked:{why}"),
                format!("peers {:?} must be blocked ({why}) but the tracker emitted BlockPeers only for {:?}", owe, got))), drift: None };
        }
    }
    let mut diffs = Vec::new();
    if !res_eq(real_res, &exp["res"]) {
        diffs.push(format!("result {real_res} vs model {}", exp["res"]));
    }
    if real_hd != exp["hd"].as_i64().unwrap() {
        diffs.push(format!("head {real_hd} vs model {}", exp["hd"]));
    }
    for h in heights {
        let m = &exp["q"][h.to_string()];
        let r = &real_q.iter().find(|(k, _)| k == h).unwrap().1;
        if r != m {
            diffs.push(format!("get_pool(base{h:+}) {r} vs model {m}"));
        }
    }
    Judged { violation: None, drift: (!diffs.is_empty()).then(|| diffs.join("; ")) }
}

fn heights_of(exp: &Value) -> Vec<i64> {
    let mut v: Vec<i64> = exp["q"].as_object().unwrap().keys().map(|k| k.parse().unwrap()).collect();
    v.sort();
    v
}

/// Drain the tracker: poll until Pending, returning the peers of all BlockPeers events.
fn drain(w: &mut World) -> BTreeSet<u64> {
    let mut blocks = BTreeSet::new();
    for _ in 0..64 {
        let r = w.poll();
        if r[0] == "pending" {
            break;
        }
        if r[0] == "block" {
            blocks.extend(as_set(&r[1]));
        }
    }
    blocks
}

fn class_of(kind: &str, act: &str) -> Value {
    json!({"kind": kind, "op": act})
}

pub fn replay(args: &Args) -> Summary {
    let mut s = Summary::new("pooltracker");
    let cases = read_cases(args.pos(2));
    let rt = tokio::runtime::Builder::new_current_thread().enable_time().start_paused(true).build().unwrap();
    let maxh = args.opt_u64("maxh", 24);
    let fx = rt.block_on(Fixture::new(maxh, 8));
    let _ = fx.maxh;
    // simulated behaviours: consecutive lines without "path", a line with first=true starts a new one
    let mut sim: Option<World> = None;
    let mut sim_dead = false;
    for case in &cases {
        let heights = heights_of(case);
        let (a, p, x, h) = op_of(&case["act"]);
        if case.get("path").is_some() {
            let out = rt.block_on(async {
                let mut w = World::new(&fx);
                for st in case["path"].as_array().unwrap() {
                    let (a, p, x, h) = op_of(st);
                    w.apply(&a, p, x, h).await;
                }
                let res = w.apply(&a, p, x, h).await;
                let q: Vec<(i64, Value)> = heights.iter().map(|h| (*h, w.query(*h))).collect();
                let hd = w.head();
                let need_drain = !as_set(&case["owe"]).is_empty();
                let blocks = need_drain.then(|| drain(&mut w));
                (judge(&w, &heights, case, &res, &q, hd, blocks.as_ref()), res, q, hd)
            });
            let (j, res, q, hd) = out;
            let nontrivial = case["res"][0] != "none" && case["res"][0] != "pending" || a == "announce" && case["hd"].as_i64().unwrap() != NONE;
            s.case(PROP, nontrivial.then(|| format!("{}|{}", case["path"], case["act"])), || json!({"act": case["act"], "path_len": case["path"].as_array().unwrap().len()}));
            if let Some((kind, why)) = j.violation {
                s.violation(PROP, json!({"case": case, "kind": kind, "op": a, "why": why, "real": {"res": res, "q": q, "hd": hd}}));
            } else if let Some(d) = j.drift {
                s.drift(PROP, json!({"case": case, "what": d}));
            }
        } else {
            if case["first"] == true || sim.is_none() {
                sim = Some(World::new(&fx));
                sim_dead = false;
                s.add("simulated_behaviours", 1);
            }
            if sim_dead {
                continue;
            }
            let w = sim.as_mut().unwrap();
            let (res, q, hd) = rt.block_on(async {
                let res = w.apply(&a, p, x, h).await;
                let q: Vec<(i64, Value)> = heights.iter().map(|h| (*h, w.query(*h))).collect();
                (res, q, w.head())
            });
            // obligations are judged on the events of the following polls: not drained here (would change the run);
            // a missing block shows up as a differing poll result a few lines later
            let j = judge(w, &heights, case, &res, &q, hd, None);
            s.case(PROP, (case["res"][0] != "none" && case["res"][0] != "pending").then(|| format!("sim{}:{}", s_extra(&s), case["act"])), || json!({"act": case["act"], "mode": "simulated"}));
            if let Some((kind, why)) = j.violation {
                s.violation(PROP, json!({"case": case, "kind": kind, "op": a, "why": why, "mode": "simulated", "real": {"res": res, "q": q, "hd": hd}}));
                sim_dead = true;
            } else if let Some(d) = j.drift {
                // the model expected something else: if it expected a block of an owed peer, that is clause (2)
                let exp_block = case["res"][0] == "block" && res[0] != "block";
                if exp_block {
                    s.violation(PROP, json!({"case": case, "kind": "not-blocked:", "op": a, "mode": "simulated",
                        "why": format!("the model's next event is BlockPeers {} but the tracker returned {res}", case["res"][1])}));
                } else {
                    s.drift(PROP, json!({"case": case, "what": d, "mode": "simulated"}));
                }
                sim_dead = true; // lock-step lost
            }
        }
    }
    s
}

fn s_extra(s: &Summary) -> u64 {
    s.to_json()["extra"]["simulated_behaviours"].as_u64().unwrap_or(0)
}

struct Rng(u64);
impl Rng {
    fn next(&mut self) -> u64 {
        self.0 ^= self.0 << 13;
        self.0 ^= self.0 >> 7;
        self.0 ^= self.0 << 17;
        self.0
    }
    fn below(&mut self, n: u64) -> u64 {
        self.next() % n
    }
}

/// Seeded histories: `np` peers, heights 1..=nh, logged step by step for Trace_PoolTracker.
pub fn record(args: &Args) -> Summary {
    let mut s = Summary::new("pooltracker");
    let seed = args.opt_u64("seed", 1);
    let runs = args.opt_u64("runs", 20);
    let ops = args.opt_u64("ops", 300);
    let np = args.opt_u64("np", 6);
    let nh = args.opt_u64("nh", 20);
    let mut tw = TraceWriter::create(args.opt("out").expect("--out"));
    let rt = tokio::runtime::Builder::new_current_thread().enable_time().start_paused(true).build().unwrap();
    let fx = rt.block_on(Fixture::new(nh, np as usize));
    let mut rng = Rng(seed.wrapping_mul(0x9E3779B97F4A7C15) | 1);
    // heights 1..=nh above the base and five heights more than the window below it (base-15 .. base-11)
    let nh = nh as i64;
    let heights: Vec<i64> = (-15..=-11).chain(1..=nh).collect();
    for run in 0..runs {
        tw.emit(json!({"name": "reset", "run": run}));
        let mut w = World::new(&fx);
        let mut arrived: BTreeSet<i64> = BTreeSet::new();
        let mut frontier = 1i64; // announcements cluster around a moving height, headers arrive roughly in order
        let mut quiet = false;
        let mut must_drain = true;
        // notifications may reach the tracker before its first poll has learned the store's head
        let mut early = if rng.below(2) == 0 { 1 + rng.below(3) } else { 0 };
        for i in 0..ops {
            let any_height = |rng: &mut Rng| -> i64 {
                if rng.below(3) == 0 { -15 + rng.below(5) as i64 } else { 1 + rng.below(nh as u64) as i64 }
            };
            // discipline (see Gen_PoolTracker / spec): after an arrival, an advance or a new pool, poll until Pending
            let (a, p, x, h): (&str, u64, i64, i64) = if early > 0 {
                early -= 1;
                let h = any_height(&mut rng);
                ("announce", 1 + rng.below(np), if rng.below(4) == 0 { 0 } else { h }, h)
            } else if must_drain {
                ("poll", 0, 0, 0)
            } else {
                match rng.below(21) {
                    0..=9 => {
                        let h = (frontier + rng.below(4) as i64 - 1).clamp(1, nh);
                        let x = match rng.below(6) {
                            0 => 0,
                            1 => 1 + rng.below(nh as u64) as i64,
                            _ => h,
                        };
                        ("announce", 1 + rng.below(np), x, h)
                    }
                    10..=12 => {
                        let lo = (frontier - 2).max(1);
                        let cand: Vec<i64> = (lo..=(frontier + 2).min(nh)).filter(|h| !arrived.contains(h)).collect();
                        if cand.is_empty() {
                            ("poll", 0, 0, 0)
                        } else {
                            ("arrive", 0, 0, cand[rng.below(cand.len() as u64) as usize])
                        }
                    }
                    13 => ("remove_peer", 1 + rng.below(np), 0, 0),
                    14 if quiet => ("advance", 0, 0, 0),
                    15 => {
                        // a jump ahead: eviction of everything more than ten below
                        let h = (frontier + 9 + rng.below(4) as i64).min(nh);
                        if arrived.contains(&h) { ("poll", 0, 0, 0) } else { ("arrive", 0, 0, h) }
                    }
                    16 => {
                        // a late notification for a height far below the window
                        let h = -15 + rng.below(5) as i64;
                        ("announce", 1 + rng.below(np), h, h)
                    }
                    _ => ("poll", 0, 0, 0),
                }
            };
            let res = match rt.block_on(async { catch_async(w.apply(a, p, x, h)).await }) {
                Ok(r) => r,
                Err(msg) => {
                    s.violation(PROP, json!({"kind": "panic", "op": a, "mode": "recorded", "run": run, "seed": seed, "event": i, "why": format!("panic in {a}: {msg}")}));
                    break;
                }
            };
            match a {
                "arrive" => {
                    arrived.insert(h);
                    frontier = frontier.max(h.min(frontier + 3));
                    must_drain = true;
                    quiet = false;
                }
                "advance" => {
                    must_drain = true;
                    quiet = false;
                }
                "announce" => {
                    // a new pool starts a task; if its header is already there the task is ready at once
                    must_drain = true;
                    quiet = false;
                }
                "poll" => {
                    if res[0] == "pending" {
                        must_drain = false;
                        quiet = true;
                    }
                }
                _ => {}
            }
            let q: Vec<(i64, Value)> = heights.iter().map(|h| (*h, w.query(*h))).collect();
            let hd = w.head();
            if let Some((hh, qq)) = q.iter().find(|(_, q)| q[0] == "panic") {
                s.violation(PROP, json!({"kind": "panic", "op": "get_pool", "mode": "recorded", "run": run, "seed": seed, "event": i,
                    "why": format!("get_pool(base{hh:+}) panicked: {}", qq[1])}));
                break;
            }
            // the statement's clauses on what the tracker shows (the trace spec judges the same log exactly)
            if let Some((hh, _)) = q.iter().find(|(h, q)| hd != NONE && *h < hd - 10 && (q[0] == "peers" || q[0] == "not-validated")) {
                s.violation(PROP, json!({"kind": "old-pool-kept", "op": a, "mode": "recorded", "run": run, "seed": seed, "event": i,
                    "why": format!("pool of base{hh:+} still exists with subjective head base{hd:+}")}));
                break;
            }
            let qmap: serde_json::Map<String, Value> = q.iter().map(|(h, v)| (h.to_string(), v.clone())).collect();
            tw.emit(json!({"name": a, "p": p, "x": x, "h": h, "res": res, "q": qmap, "hd": hd}));
            s.case(PROP, (res[0] != "none" && res[0] != "pending").then(|| format!("{run}:{i}")), || json!({"run": run, "event": i, "op": a}));
        }
    }
    tw.finish();
    s
}

async fn catch_async<F: std::future::Future<Output = Value>>(f: F) -> Result<Value, String> {
    use futures::FutureExt;
    std::panic::AssertUnwindSafe(f).catch_unwind().await.map_err(|e| {
        if let Some(s) = e.downcast_ref::<&str>() {
            s.to_string()
        } else if let Some(s) = e.downcast_ref::<String>() {
            s.clone()
        } else {
            "panic".to_string()
        }
    })
}
