//! C41: `Counter::wait_guards` / `CounterGuard::drop` and `RedbStore::close`.
//!
//! replay counter <cases>: every TLC-generated interleaving (Gen_Counter) is forced on real
//!     threads through the schedule points in node/src/utils/counter.rs.
//! record counter: unforced runs (std threads, blocking-pool threads and tokio tasks dropping
//!     guards, waiter on a multi-thread runtime) with seeded jitter at the schedule points; every
//!     thread logs the points it passes with a global sequence number -> Trace_Counter.
//! record redbclose: the same log taken from inside `RedbStore` while operations are in flight
//!     and the store is closed.

use std::cell::{Cell, RefCell};
use std::sync::atomic::{AtomicBool, AtomicU64, Ordering};
use std::sync::{Arc, Mutex};
use std::time::Duration;

use h_common::{read_cases, Args, Summary, TraceWriter};
use lumina_node::verif::trackers::{set_scheduler, VCounter};
use serde_json::{json, Value};

use crate::sched::{block_on_controlled, dispatch, Sched, St};

const PROP: &str = "C41";

fn wpc_of(st: St, woken: bool) -> &'static str {
    match st {
        St::At("counter.wait.0") => "W0",
        St::At("counter.wait.1") => "W1",
        St::At("counter.wait.2") | St::At("exec.repoll") => "W2",
        St::At("counter.wait.3") => "W3",
        St::At("counter.wait.done") | St::Finished => "Done",
        St::Parked if woken => "W2",
        St::Parked => "P",
        _ => "?",
    }
}

// ---------------------------------------------------------------------------------------------
// spec -> impl: forced interleavings

pub fn replay(args: &Args) -> Summary {
    let mut s = Summary::new("counter");
    let cases = read_cases(args.pos(2));
    let bound = Duration::from_secs(args.opt_u64("hang-bound-s", 20));
    set_scheduler(Some(Arc::new(dispatch)));
    h_common::QUIET_ALL.store(true, Ordering::Relaxed); // planned panics of guard-holding tasks
    let mut hangs = 0;
    let mut diverged = 0u64;
    for case in &cases {
        let n = case["n"].as_u64().unwrap() as usize;
        let steps = case["steps"].as_array().unwrap();
        let key: String = steps
            .iter()
            .map(|st| format!("{}{}{}", &st["who"].as_str().unwrap()[..1], st["g"], if st["exit"] == "panic" { "!" } else { "" }))
            .collect::<Vec<_>>()
            .join("");
        // non-trivial: some guard step happens after the waiter armed its first Notified
        let first_w = steps.iter().position(|st| st["who"] == "W").unwrap_or(usize::MAX);
        let nontrivial = steps.iter().skip(first_w).any(|st| st["who"] != "W");
        let out = forced_run(n, steps, bound);
        s.case(PROP, nontrivial.then(|| format!("{n}:{key}")), || json!({"n": n, "schedule": key, "outcome": out.kind}));
        if !out.drift.is_empty() {
            diverged += 1;
            s.drift(PROP, json!({"case": case, "drift": out.drift}));
        }
        if let Some(v) = out.violation {
            if v["kind"] == "hang" || v["kind"] == "stuck-step" {
                hangs += 1;
            }
            s.violation(PROP, json!({"case": case, "mode": "forced", "kind": v["kind"], "why": v["why"], "drift": out.drift}));
            if hangs >= 3 {
                s.set("stopped_early", json!("3 hanging runs"));
                break;
            }
        }
    }
    s.set("forced_runs_with_drift", json!(diverged));
    set_scheduler(None);
    s
}

struct Outcome {
    kind: &'static str,
    violation: Option<Value>,
    drift: Vec<Value>,
}

fn forced_run(n: usize, steps: &[Value], bound: Duration) -> Outcome {
    // thread 0 = waiter, 1..=n guards; the third point of drop and guard creation are not model steps
    let sched = Sched::new(n + 1, vec!["counter.drop.2", "counter.guard"]);
    let counter = VCounter::new();
    let obs = counter.observer();
    let mut handles = Vec::new();
    for g in 1..=n {
        let guard = counter.guard();
        let sc = sched.clone();
        // how the model lets this guard's task end: by return, or by a panic whose unwinding drops the guard
        let panics = steps.iter().any(|st| st["who"] == "G1" && st["g"].as_u64() == Some(g as u64) && st["exit"] == "panic");
        handles.push(std::thread::spawn(move || {
            sc.enter(g);
            if panics {
                let _ = std::panic::catch_unwind(std::panic::AssertUnwindSafe(move || {
                    let _held = guard;
                    panic!("planned panic of the task holding guard {g}");
                }));
            } else {
                drop(guard);
            }
            sc.finish(g);
        }));
    }
    {
        let sc = sched.clone();
        let mut counter = counter;
        handles.push(std::thread::spawn(move || {
            sc.enter(0);
            block_on_controlled(&sc, 0, counter.wait_guards());
            sc.finish(0);
        }));
    }
    let mut drift = Vec::new();
    let mut violation = None;
    for id in 0..=n {
        if sched.wait_for(id, bound, |st, _| matches!(st, St::At(_))).is_err() {
            violation = Some(json!({"kind": "stuck-step", "why": format!("thread {id} never reached its first schedule point")}));
        }
    }
    let mut model_wpc = "W0".to_string();
    for (i, st) in steps.iter().enumerate() {
        if violation.is_some() {
            break;
        }
        let who = st["who"].as_str().unwrap();
        let g = st["g"].as_u64().unwrap() as usize;
        let id = if who == "W" { 0 } else { g };
        // is the real thread where the model says it is?
        let (rst, woken) = sched.state(id);
        let expect_ok = match who {
            "G1" => rst == St::At("counter.drop.0"),
            "G2" => rst == St::At("counter.drop.1"),
            _ => wpc_of(rst, woken) == model_wpc,
        };
        if !expect_ok {
            drift.push(json!({"step": i, "who": who, "g": g, "real_state": format!("{rst:?}"), "model_wpc": model_wpc}));
        }
        if !sched.steppable(id) {
            // the real thread cannot move here (parked / finished): the schedule no longer applies to it
            model_wpc = st["wpc"].as_str().unwrap().to_string();
            continue;
        }
        if let Err(stuck) = sched.step(id, bound) {
            violation = Some(json!({"kind": "stuck-step", "why": format!("step {i} ({who} {g}) did not reach its next schedule point within {bound:?}: {stuck:?}")}));
            break;
        }
        model_wpc = st["wpc"].as_str().unwrap().to_string();
        // a wake-up issued by this step must make the waiter runnable
        if model_wpc == "W2" {
            let _ = sched.wait_for(0, Duration::from_secs(2), |s, _| matches!(s, St::At(_)));
        }
        let (wst, wwoken) = sched.state(0);
        let real_wpc = wpc_of(wst, wwoken);
        let real_count = obs.guards() as u64;
        if real_wpc != model_wpc || Some(real_count) != st["count"].as_u64() {
            drift.push(json!({"step": i, "after": who, "g": g, "real_wpc": real_wpc, "model_wpc": model_wpc,
                              "real_count": real_count, "model_count": st["count"]}));
        }
        // C41 (first half) judged on the real threads: the waiter is through while a guard has not even begun to drop
        if real_wpc == "Done" {
            for h in 1..=n {
                if matches!(sched.state(h).0, St::At("counter.drop.0") | St::Starting) {
                    violation = Some(json!({"kind": "early-return", "why": format!("after step {i} wait_guards is through while guard {h} has not released its count")}));
                }
            }
        }
    }
    // drain: everybody runs on; C41 (second half): all guards drop => the waiter returns
    sched.free_all();
    if violation.is_none() {
        for id in (1..=n).chain([0]) {
            if let Err(stuck) = sched.wait_for(id, bound, |s, _| s == St::Finished) {
                violation = Some(json!({"kind": "hang", "why": format!(
                    "all guards dropped but thread {id} ({}) is still {stuck:?} after {bound:?}", if id == 0 { "waiter" } else { "guard" })}));
                break;
            }
        }
    }
    if violation.is_none() {
        for h in handles {
            let _ = h.join();
        }
    } // else: leak the blocked threads
    Outcome { kind: if violation.is_some() { "violation" } else if drift.is_empty() { "conforms" } else { "drift" }, violation, drift }
}

// ---------------------------------------------------------------------------------------------
// impl -> spec: unforced runs with a log

static SEQ: AtomicU64 = AtomicU64::new(0);
static LOG: Mutex<Vec<(u64, Value)>> = Mutex::new(Vec::new());
static JITTER: AtomicBool = AtomicBool::new(false);
static NEXT_ANON: AtomicU64 = AtomicU64::new(0);

thread_local! {
    /// which guard the current thread is dropping (0 = none)
    static GUARD_ROLE: Cell<u64> = const { Cell::new(0) };
    static RNG: RefCell<u64> = const { RefCell::new(0x9E3779B97F4A7C15) };
}

fn rng_next() -> u64 {
    RNG.with(|r| {
        let mut x = *r.borrow();
        x ^= x << 13;
        x ^= x >> 7;
        x ^= x << 17;
        *r.borrow_mut() = x;
        x
    })
}
fn rng_seed(s: u64) {
    RNG.with(|r| *r.borrow_mut() = s.wrapping_mul(0x9E3779B97F4A7C15) | 1);
}

fn jitter() {
    if !JITTER.load(Ordering::Relaxed) {
        return;
    }
    match rng_next() % 10 {
        0..=3 => {}
        4 | 5 => std::thread::yield_now(),
        6 | 7 => {
            let n = rng_next() % 2000;
            for _ in 0..n {
                std::hint::spin_loop();
            }
        }
        8 => std::thread::sleep(Duration::from_micros(rng_next() % 60)),
        _ => std::thread::sleep(Duration::from_micros(100 + rng_next() % 400)),
    }
}

fn log(ev: Value) {
    // the sequence number is drawn while the thread stands at the point
    let seq = SEQ.fetch_add(1, Ordering::SeqCst);
    LOG.lock().unwrap().push((seq, ev));
}

/// Scheduler callback of the recording modes: log the point with the caller's role, then jitter.
fn observe(label: &'static str) {
    if label.starts_with("counter.drop.") {
        let mut g = GUARD_ROLE.with(|c| c.get());
        if g == 0 {
            // a guard dropped by code we do not control (RedbStore): name it at its first point
            g = NEXT_ANON.fetch_add(1, Ordering::SeqCst) + 1;
            GUARD_ROLE.with(|c| c.set(g));
        }
        log(json!({"name": "guard", "g": g, "at": label}));
        if label == "counter.drop.2" && ANON.load(Ordering::Relaxed) {
            GUARD_ROLE.with(|c| c.set(0));
        }
        jitter();
    } else if label.starts_with("counter.wait.") {
        log(json!({"name": "waiter", "at": label}));
        jitter();
    } else if label == "counter.guard" {
        log(json!({"name": "created"}));
    }
}
static ANON: AtomicBool = AtomicBool::new(false);

fn take_log() -> Vec<Value> {
    let mut l = std::mem::take(&mut *LOG.lock().unwrap());
    l.sort_by_key(|(s, _)| *s);
    l.into_iter().map(|(_, v)| v).collect()
}

/// Monitor of one run on the ordered log (what Trace_Counter decides as well; the hang verdict can only
/// be taken here).
fn early_return(events: &[Value]) -> Option<String> {
    let done = events.iter().position(|e| e["name"] == "waiter" && e["at"] == "counter.wait.done")?;
    for e in &events[done..] {
        if e["name"] == "guard" && e["at"] == "counter.drop.0" {
            return Some(format!("wait_guards returned (log position {done}) before guard {} began to drop", e["g"]));
        }
    }
    None
}

pub fn record(args: &Args) -> Summary {
    let mut s = Summary::new("counter");
    let seed = args.opt_u64("seed", 1);
    let runs = args.opt_u64("runs", 1000);
    let maxg = args.opt_u64("maxguards", 6);
    let bound = Duration::from_secs(args.opt_u64("hang-bound-s", 30));
    let mut tw = TraceWriter::create(args.opt("out").expect("--out"));
    let rt = tokio::runtime::Builder::new_multi_thread().worker_threads(4).max_blocking_threads(16).enable_all().build().unwrap();
    rng_seed(seed);
    h_common::QUIET_ALL.store(true, Ordering::Relaxed);
    let mut hangs = 0;
    let mut panicking = 0u64;
    for run in 0..runs {
        let n = rng_next() % (maxg + 1);
        // 2 of 3 runs: schedule points log and jitter; 1 of 3: no callback at all (points are no-ops)
        let instrumented = run % 3 != 2;
        JITTER.store(instrumented, Ordering::Relaxed);
        set_scheduler(if instrumented { Some(Arc::new(observe)) } else { None });
        let mut counter = VCounter::new();
        let mut holders = Vec::new();
        let mut tasks = Vec::new();
        let waiter_first = rng_next() % 4 == 0;
        for g in 1..=n {
            let guard = counter.guard();
            let hseed = seed ^ (run << 8) ^ g;
            let style = rng_next() % 3;
            let pre = rng_next() % 4;
            let exit_by_panic = rng_next() % 4 == 0;
            panicking += exit_by_panic as u64;
            let body = move || {
                rng_seed(hseed);
                for _ in 0..pre {
                    jitter_always();
                }
                GUARD_ROLE.with(|c| c.set(g));
                if !instrumented {
                    log(json!({"name": "guard", "g": g, "at": "counter.drop.0"}));
                }
                if exit_by_panic {
                    // the task panics: the guard is dropped by the unwinding
                    let _ = std::panic::catch_unwind(std::panic::AssertUnwindSafe(move || {
                        let _held = guard;
                        panic!("planned panic of the task holding guard {g}");
                    }));
                } else {
                    drop(guard);
                }
                if !instrumented {
                    log(json!({"name": "guard", "g": g, "at": "counter.drop.2"}));
                }
                GUARD_ROLE.with(|c| c.set(0));
            };
            match style {
                0 => holders.push(std::thread::spawn(body)),
                1 => tasks.push(rt.spawn_blocking(body)),
                _ => tasks.push(rt.spawn(async move {
                    tokio::task::yield_now().await;
                    body()
                })),
            }
        }
        let wseed = seed ^ (run << 8) ^ 0xff;
        let spawned_waiter = rng_next() % 2 == 0;
        let wait = async move {
            rng_seed(wseed);
            if !waiter_first {
                jitter_always();
                tokio::task::yield_now().await;
            }
            if !instrumented {
                log(json!({"name": "waiter", "at": "counter.wait.0"}));
            }
            let r = tokio::time::timeout(bound, counter.wait_guards()).await;
            if r.is_ok() && !instrumented {
                log(json!({"name": "waiter", "at": "counter.wait.done"}));
            }
            r.is_ok()
        };
        let returned = if spawned_waiter {
            rt.block_on(async { rt.spawn(wait).await.unwrap() })
        } else {
            rt.block_on(wait)
        };
        for h in holders {
            let _ = h.join();
        }
        rt.block_on(async {
            for t in tasks {
                let _ = t.await;
            }
        });
        let events = take_log();
        tw.emit(json!({"name": "reset", "n": n, "run": run, "instrumented": instrumented}));
        for e in &events {
            if e["name"] != "created" {
                tw.emit(e.clone());
            }
        }
        let key = format!("{n}:{}", events.iter().map(|e| {
            let at = e["at"].as_str().unwrap_or("c");
            format!("{}{}", if e["name"] == "waiter" { "w".into() } else { e["g"].to_string() }, &at[at.len() - 1..])
        }).collect::<String>());
        // non-trivial: the waiter started before the last guard finished dropping
        let w0 = events.iter().position(|e| e["name"] == "waiter");
        let last_drop = events.iter().rposition(|e| e["name"] == "guard");
        let nontrivial = matches!((w0, last_drop), (Some(a), Some(b)) if a < b);
        s.case(PROP, nontrivial.then_some(key), || json!({"run": run, "n": n, "events": events.len()}));
        if !returned {
            hangs += 1;
            s.violation(PROP, json!({"mode": "unforced", "kind": "hang", "run": run, "seed": seed, "n": n,
                "why": format!("wait_guards did not return within {bound:?} although all {n} guards were dropped"), "events": events}));
            if hangs >= 2 {
                break;
            }
        } else if let Some(why) = early_return(&events) {
            s.violation(PROP, json!({"mode": "unforced", "kind": "early-return", "run": run, "seed": seed, "n": n, "why": why, "events": events}));
        }
    }
    set_scheduler(None);
    s.set("guards_dropped_by_panic_unwind", json!(panicking));
    tw.finish();
    std::mem::forget(rt); // a hung waiter must not block the exit
    s
}

fn jitter_always() {
    match rng_next() % 6 {
        0 | 1 => {}
        2 => std::thread::yield_now(),
        3 | 4 => {
            let n = rng_next() % 3000;
            for _ in 0..n {
                std::hint::spin_loop();
            }
        }
        _ => std::thread::sleep(Duration::from_micros(rng_next() % 300)),
    }
}

// ---------------------------------------------------------------------------------------------
// RedbStore::close with operations in flight

/// The run whose storage backend may log (stragglers of earlier runs stay silent).
static CURRENT_RUN: AtomicU64 = AtomicU64::new(u64::MAX);
/// When set, the next write access of a blocking database task panics (once): that task leaves by a
/// panic unwind, which drops its CounterGuard.
static PANIC_ARMED: AtomicBool = AtomicBool::new(false);

/// redb storage backend handed to `RedbStore::new`: an in-memory backend that logs every access of a
/// blocking database task ("db" lines, drawn from the same sequence counter) and stretches writes and
/// syncs by a seeded 0.1 - 1.5 ms.  This is the harness' own view of "a blocking task is still running",
/// independent of the CounterGuard bookkeeping under test.
#[derive(Debug)]
struct LoggingBackend {
    inner: redb::backends::InMemoryBackend,
    run: u64,
}

impl LoggingBackend {
    fn note(&self, op: &'static str, slow: bool) {
        if CURRENT_RUN.load(Ordering::SeqCst) != self.run {
            return;
        }
        log(json!({"name": "db", "op": op}));
        if op == "write" && PANIC_ARMED.swap(false, Ordering::SeqCst) {
            log(json!({"name": "task_panics"}));
            panic!("injected panic inside a blocking database task");
        }
        if slow {
            std::thread::sleep(Duration::from_micros(100 + rng_next() % 1400));
        }
    }
}

impl redb::StorageBackend for LoggingBackend {
    fn len(&self) -> std::result::Result<u64, std::io::Error> {
        self.inner.len()
    }
    fn read(&self, offset: u64, len: usize) -> std::result::Result<Vec<u8>, std::io::Error> {
        self.note("read", false);
        self.inner.read(offset, len)
    }
    fn set_len(&self, len: u64) -> std::result::Result<(), std::io::Error> {
        self.note("set_len", false);
        self.inner.set_len(len)
    }
    fn sync_data(&self, eventual: bool) -> std::result::Result<(), std::io::Error> {
        self.note("sync", true);
        let r = self.inner.sync_data(eventual);
        self.note("sync-done", false);
        r
    }
    fn write(&self, offset: u64, data: &[u8]) -> std::result::Result<(), std::io::Error> {
        self.note("write", true);
        self.inner.write(offset, data)
    }
}

pub fn record_redb(args: &Args) -> Summary {
    use celestia_types::test_utils::ExtendedHeaderGenerator;
    use futures::FutureExt;
    use lumina_node::store::{RedbStore, Store};

    let mut s = Summary::new("redbclose");
    let seed = args.opt_u64("seed", 1);
    let runs = args.opt_u64("runs", 100);
    let bound = Duration::from_secs(args.opt_u64("hang-bound-s", 60));
    let mut tw = TraceWriter::create(args.opt("out").expect("--out"));
    let rt = tokio::runtime::Builder::new_multi_thread().worker_threads(4).max_blocking_threads(32).enable_all().build().unwrap();
    rng_seed(seed ^ 0x5eed);
    ANON.store(true, Ordering::Relaxed);
    JITTER.store(true, Ordering::Relaxed);
    set_scheduler(Some(Arc::new(observe)));
    h_common::QUIET_ALL.store(true, Ordering::Relaxed);
    let mut generator = ExtendedHeaderGenerator::new();
    let headers = generator.next_many(24);
    let mut hangs = 0;
    for run in 0..runs {
        NEXT_ANON.store(0, Ordering::SeqCst);
        let nops = 1 + rng_next() % 7;
        let prefill = 4 + (rng_next() % 8) as usize;
        let choices: Vec<u64> = (0..nops).map(|_| rng_next()).collect();
        let hs = headers.clone();
        let (outcome, db) = rt.block_on(async {
            let backend = LoggingBackend { inner: redb::backends::InMemoryBackend::new(), run };
            let db = Arc::new(redb::Database::builder().create_with_backend(backend).expect("create db"));
            CURRENT_RUN.store(run, Ordering::SeqCst);
            let store = RedbStore::new(db.clone()).await.unwrap();
            store.insert(hs[..prefill].to_vec()).await.unwrap();
            let store = Arc::new(store);
            let mut next = prefill;
            let mut handles = Vec::new();
            for c in &choices {
                let c = *c;
                let st = store.clone();
                let h = hs[next.min(hs.len() - 1)].clone();
                if c % 6 == 0 {
                    next += 1;
                }
                // one store operation (most of them write: their commit is what the backend sees)
                let op = async move {
                    match c % 6 {
                        0 => { let _ = st.insert(h).await; }
                        1 => { let _ = st.get_by_height(1 + (c >> 8) % 8).await; }
                        2 => { let _ = st.mark_as_sampled(1 + (c >> 8) % 4).await; }
                        3 => { let _ = st.mark_as_sampled(1 + (c >> 9) % 4).await; }
                        4 => { let _ = st.get_stored_header_ranges().await; }
                        _ => { let _ = st.update_sampling_metadata(1 + (c >> 8) % 4, vec![]).await; }
                    }
                };
                let us = Duration::from_micros((c >> 24) % 400);
                // how its caller goes away (or not) before the store is closed
                match (c >> 16) % 6 {
                    0 => handles.push(tokio::spawn(op)), // awaited to completion
                    1 => {
                        // worker task aborted mid-operation
                        let jh = tokio::spawn(op);
                        tokio::time::sleep(us).await;
                        jh.abort();
                        log(json!({"name": "caller_cancelled", "how": "abort"}));
                        handles.push(jh);
                    }
                    2 => handles.push(tokio::spawn(async move {
                        if tokio::time::timeout(us, op).await.is_err() {
                            log(json!({"name": "caller_cancelled", "how": "timeout"}));
                        }
                    })),
                    3 => handles.push(tokio::spawn(async move {
                        tokio::select! {
                            _ = op => {}
                            _ = tokio::time::sleep(us) => { log(json!({"name": "caller_cancelled", "how": "select"})); }
                        }
                    })),
                    _ => {
                        // polled once (the blocking task is issued), then dropped
                        let mut f = Box::pin(op);
                        if f.as_mut().now_or_never().is_none() {
                            log(json!({"name": "caller_cancelled", "how": "drop"}));
                        }
                        drop(f);
                    }
                }
            }
            for jh in handles {
                let _ = jh.await; // an aborted task resolves once its future has been dropped
            }
            let store = Arc::try_unwrap(store).expect("every caller is gone");
            // one run in three: a blocking task that is still running panics (the waiter is about to park)
            if choices[0] % 3 == 0 {
                PANIC_ARMED.store(true, Ordering::SeqCst);
            }
            log(json!({"name": "closing"}));
            let r = tokio::time::timeout(bound, store.close()).await;
            log(json!({"name": "closed"}));
            (r.is_ok(), db)
        });
        // let the blocking tasks run out: nothing new in the log for 30 ms
        let t0 = std::time::Instant::now();
        let mut last = (LOG.lock().unwrap().len(), std::time::Instant::now());
        loop {
            std::thread::sleep(Duration::from_millis(2));
            let n = LOG.lock().unwrap().len();
            if n != last.0 {
                last = (n, std::time::Instant::now());
            }
            if last.1.elapsed() > Duration::from_millis(30) || t0.elapsed() > Duration::from_secs(10) {
                break;
            }
        }
        CURRENT_RUN.store(u64::MAX, Ordering::SeqCst); // dropping the database is the harness' own business
        PANIC_ARMED.store(false, Ordering::SeqCst);
        let _ = h_common::catch(move || drop(db)); // (a database whose task panicked may refuse a clean shutdown)
        let events = take_log();
        let created = events.iter().filter(|e| e["name"] == "created").count();
        let closed_at = events.iter().position(|e| e["name"] == "closed").unwrap();
        let closing_at = events.iter().position(|e| e["name"] == "closing").unwrap();
        tw.emit(json!({"name": "reset", "n": created, "run": run}));
        for e in &events {
            if matches!(e["name"].as_str().unwrap(), "guard" | "waiter" | "db" | "caller_cancelled") {
                tw.emit(e.clone());
            }
        }
        // blocking work in flight when close() was called - by the backend's own log, not by the guards
        let db_after_closing = events[closing_at..].iter().filter(|e| e["name"] == "db").count();
        let cancelled = events.iter().filter(|e| e["name"] == "caller_cancelled").count();
        s.case(PROP, (db_after_closing > 0).then(|| format!("{run}:{db_after_closing}:{created}")),
               || json!({"run": run, "guards": created, "callers_cancelled": cancelled, "db_accesses_after_close_was_called": db_after_closing}));
        s.add("redb_runs_with_work_in_flight_at_close", (db_after_closing > 0) as u64);
        s.add("redb_callers_cancelled", cancelled as u64);
        s.add("redb_tasks_panicked", events.iter().filter(|e| e["name"] == "task_panics").count() as u64);
        if !outcome {
            hangs += 1;
            s.violation(PROP, json!({"mode": "redb-close", "kind": "hang", "run": run, "seed": seed,
                "why": format!("RedbStore::close did not return within {bound:?}"), "events": events}));
            if hangs >= 2 {
                break;
            }
            continue;
        }
        let db_after_closed = events[closed_at..].iter().filter(|e| e["name"] == "db").count();
        let begun_before_closed = events[..closed_at].iter().filter(|e| e["name"] == "guard" && e["at"] == "counter.drop.0").count();
        if db_after_closed > 0 {
            s.violation(PROP, json!({"mode": "redb-close", "kind": "early-return", "run": run, "seed": seed,
                "why": format!("close() returned while a blocking database task was still running ({db_after_closed} database accesses after the return, {cancelled} callers had been cancelled)"),
                "events": events}));
        } else if begun_before_closed < created {
            s.violation(PROP, json!({"mode": "redb-close", "kind": "early-return", "run": run, "seed": seed,
                "why": format!("close() returned while {} of {created} blocking tasks had not released their guard", created - begun_before_closed),
                "events": events}));
        }
    }
    set_scheduler(None);
    ANON.store(false, Ordering::Relaxed);
    tw.finish();
    std::mem::forget(rt);
    s
}
