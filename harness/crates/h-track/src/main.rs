//! Conformance harness of the `track` group (see /verif/CONVENTIONS.md).
//!   h-track replay <model> <cases.ndjson> --summary <out.json>
//!   h-track record <model> --seed S --out <trace.ndjson> --summary <out.json>

use h_common::{tool_error, Args};

mod counter;
mod peers;
mod pool;
mod sched;

fn main() {
    let args = Args::from_env();
    let mode = args.pos(0).to_string();
    let model = args.pos(1).to_string();
    h_common::quiet_panics();
    let s = match (mode.as_str(), model.as_str()) {
        ("replay", "counter") => counter::replay(&args),
        ("record", "counter") => counter::record(&args),
        ("record", "redbclose") => counter::record_redb(&args),
        ("replay", "peertracker") => peers::replay(&args),
        ("record", "peertracker") => peers::record(&args),
        ("replay", "pooltracker") => pool::replay(&args),
        ("record", "pooltracker") => pool::record(&args),
        _ => tool_error(&format!("unknown mode/model {mode}/{model}")),
    };
    s.write(args.opt("summary").unwrap_or_else(|| tool_error("--summary missing")));
}
