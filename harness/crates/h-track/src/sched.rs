//! A cooperative scheduler for real OS threads that run real lumina code containing
//! `lumina_node::verif::trackers::sched_point(..)` lines.
//!
//! A *controlled* thread (one that registered itself with `enter`) blocks at every schedule
//! point until the controller grants it a permit (`step`).  Threads that did not register pass
//! straight through.  The waiter's future is driven by `block_on_controlled`, a tiny executor
//! whose park / wake is visible to the controller.

use std::cell::RefCell;
use std::future::Future;
use std::pin::pin;
use std::sync::{Arc, Condvar, Mutex};
use std::task::{Context, Poll, Wake, Waker};
use std::time::{Duration, Instant};

#[derive(Debug, Clone, Copy, PartialEq, Eq)]
pub enum St {
    Starting,
    At(&'static str),
    Running,
    Parked,
    Finished,
}

#[derive(Debug, Clone, Copy)]
struct Th {
    st: St,
    permits: u32,
    woken: bool,
    /// run freely (no blocking at points) - used to drain a run
    free: bool,
}

pub struct Sched {
    inner: Mutex<Vec<Th>>,
    cv: Condvar,
    /// labels at which controlled threads do not stop
    pub pass: Vec<&'static str>,
}

thread_local! {
    static ME: RefCell<Option<(Arc<Sched>, usize)>> = const { RefCell::new(None) };
}

/// The process-wide callback handed to `set_scheduler`: dispatches to the calling thread's scheduler.
pub fn dispatch(label: &'static str) {
    let me = ME.with(|m| m.borrow().clone());
    if let Some((s, id)) = me {
        s.point(id, label);
    }
}

impl Sched {
    pub fn new(threads: usize, pass: Vec<&'static str>) -> Arc<Sched> {
        Arc::new(Sched {
            inner: Mutex::new(vec![Th { st: St::Starting, permits: 0, woken: false, free: false }; threads]),
            cv: Condvar::new(),
            pass,
        })
    }

    /// Called first thing by a controlled thread.
    pub fn enter(self: &Arc<Self>, id: usize) {
        ME.with(|m| *m.borrow_mut() = Some((self.clone(), id)));
    }

    /// Called last by a controlled thread.
    pub fn finish(&self, id: usize) {
        ME.with(|m| *m.borrow_mut() = None);
        let mut g = self.inner.lock().unwrap();
        g[id].st = St::Finished;
        self.cv.notify_all();
    }

    fn point(&self, id: usize, label: &'static str) {
        if self.pass.contains(&label) {
            return;
        }
        let mut g = self.inner.lock().unwrap();
        g[id].st = St::At(label);
        self.cv.notify_all();
        while g[id].permits == 0 && !g[id].free {
            g = self.cv.wait(g).unwrap();
        }
        if g[id].permits > 0 {
            g[id].permits -= 1;
        }
        g[id].st = St::Running;
        self.cv.notify_all();
    }

    fn park(&self, id: usize) {
        let mut g = self.inner.lock().unwrap();
        g[id].st = St::Parked;
        self.cv.notify_all();
        while !g[id].woken {
            g = self.cv.wait(g).unwrap();
        }
        g[id].woken = false;
    }

    fn wake(&self, id: usize) {
        let mut g = self.inner.lock().unwrap();
        g[id].woken = true;
        self.cv.notify_all();
    }

    /// (state, woken-flag) of a thread.
    pub fn state(&self, id: usize) -> (St, bool) {
        let g = self.inner.lock().unwrap();
        (g[id].st, g[id].woken)
    }

    /// Wait until `pred(state, woken)` holds for thread `id`.
    pub fn wait_for(&self, id: usize, bound: Duration, pred: impl Fn(St, bool) -> bool) -> Result<St, St> {
        let deadline = Instant::now() + bound;
        let mut g = self.inner.lock().unwrap();
        loop {
            if pred(g[id].st, g[id].woken) {
                return Ok(g[id].st);
            }
            let now = Instant::now();
            if now >= deadline {
                return Err(g[id].st);
            }
            g = self.cv.wait_timeout(g, deadline - now).unwrap().0;
        }
    }

    /// Let thread `id` run from the point it is blocked at (or is about to reach after a wake)
    /// to its next point / park / end.  Err(state) if it does not get there within `bound`.
    pub fn step(&self, id: usize, bound: Duration) -> Result<St, St> {
        {
            let mut g = self.inner.lock().unwrap();
            g[id].permits += 1;
            self.cv.notify_all();
        }
        let deadline = Instant::now() + bound;
        let mut g = self.inner.lock().unwrap();
        loop {
            let t = g[id];
            if t.permits == 0 && !matches!(t.st, St::Running | St::Starting) && !(t.st == St::Parked && t.woken) {
                return Ok(t.st);
            }
            let now = Instant::now();
            if now >= deadline {
                return Err(t.st);
            }
            g = self.cv.wait_timeout(g, deadline - now).unwrap().0;
        }
    }

    /// Stop blocking every thread: all run to completion on their own.
    pub fn free_all(&self) {
        let mut g = self.inner.lock().unwrap();
        for t in g.iter_mut() {
            t.free = true;
        }
        self.cv.notify_all();
    }

    /// Can `step` be applied (thread blocked at a point, or parked and already woken)?
    pub fn steppable(&self, id: usize) -> bool {
        let (st, woken) = self.state(id);
        matches!(st, St::At(_)) || (st == St::Parked && woken)
    }
}

struct WakeFlag {
    sched: Arc<Sched>,
    id: usize,
}

impl Wake for WakeFlag {
    fn wake(self: Arc<Self>) {
        self.sched.wake(self.id);
    }
    fn wake_by_ref(self: &Arc<Self>) {
        self.sched.wake(self.id);
    }
}

/// Drive `fut` on the current (controlled) thread; park/wake go through the scheduler and the
/// re-poll after a wake is itself a schedule point ("exec.repoll").
pub fn block_on_controlled<F: Future>(sched: &Arc<Sched>, id: usize, fut: F) -> F::Output {
    let waker = Waker::from(Arc::new(WakeFlag { sched: sched.clone(), id }));
    let mut cx = Context::from_waker(&waker);
    let mut fut = pin!(fut);
    loop {
        match fut.as_mut().poll(&mut cx) {
            Poll::Ready(v) => return v,
            Poll::Pending => {
                sched.park(id);
                sched.point(id, "exec.repoll");
            }
        }
    }
}
