//! C39: `PeerTracker` (node/src/peer_tracker.rs) through `lumina_node::verif::trackers::VPeerTracker`.
//!
//! replay peertracker <cases>: every transition of Gen_PeerTracker (pre-state, op, post-state,
//!     result, published info, tag counters) on the real tracker.
//! record peertracker: seeded histories over 8 peers x 3 connections x 3 tags, every event logged
//!     with the real post-observation -> Trace_PeerTracker.

use h_common::{catch, read_cases, Args, Summary, TraceWriter};
use libp2p::PeerId;
use lumina_node::verif::trackers::VPeerTracker;
use serde_json::{json, Value};

const PROP: &str = "C39";

pub fn agent(kind: u64) -> &'static str {
    match kind {
        1 => "celestia-node/celestia/bridge/v0.24.1/fb95d45",
        2 => "celestia-node/celestia/full/v0.24.1/fb95d45",
        3 => "lumina/celestia/0.14.0",
        4 => "celestia-node/celestia/light/v0.24.1/fb95d45",
        _ => "probelab-node/celestia/ant/v0.1.0",
    }
}

struct World {
    t: VPeerTracker,
    ids: Vec<PeerId>,
    nc: usize,
    tags: Vec<u32>,
}

fn conn_id(p: usize, c: usize) -> usize {
    p * 100 + c
}

impl World {
    fn new(np: usize, nc: usize, nt: usize, ids: &[PeerId]) -> World {
        World { t: VPeerTracker::new(), ids: ids[..np].to_vec(), nc, tags: (1..=nt as u32).collect() }
    }

    /// [k, conn-mask, trusted, archival, kind, tag-mask, old (disconnection older than gc's limit)] per peer (kind 4 = light announced by celestia-node -> 3)
    fn views(&self) -> Vec<[u64; 7]> {
        self.ids
            .iter()
            .enumerate()
            .map(|(i, id)| match self.t.peer(id, &self.tags) {
                None => [0; 7],
                Some(v) => {
                    let p = i + 1;
                    let mut cm = 0u64;
                    for c in &v.connections {
                        let slot = c - p * 100;
                        assert!((1..=self.nc).contains(&slot), "foreign connection id {c}");
                        cm |= 1 << (slot - 1);
                    }
                    let mut tm = 0u64;
                    for t in &v.tags {
                        tm |= 1 << (t - 1);
                    }
                    assert_eq!(v.connected, cm != 0);
                    assert_eq!(v.protected, tm != 0);
                    assert_eq!(v.full, v.kind == 1 || v.kind == 2);
                    [1, cm, v.trusted as u64, v.archival as u64, v.kind as u64, tm, self.t.is_expired(id) as u64]
                }
            })
            .collect()
    }

    fn published(&self) -> [u64; 4] {
        let i = self.t.published();
        [i.num_connected_peers, i.num_connected_trusted_peers, i.num_connected_full_nodes, i.num_connected_archival_nodes]
    }
    fn info(&self) -> [u64; 4] {
        let i = self.t.info();
        [i.num_connected_peers, i.num_connected_trusted_peers, i.num_connected_full_nodes, i.num_connected_archival_nodes]
    }
    fn pcount(&self) -> Vec<u64> {
        self.tags.iter().map(|t| self.t.protected_len(*t) as u64).collect()
    }

    /// Apply one operation; result as the spec encodes it ([] unit, [0]/[1] bool).
    fn apply(&mut self, name: &str, p: usize, x: u64) -> Vec<u64> {
        let id = if p >= 1 { self.ids[p - 1] } else { self.ids[0] };
        match name {
            "add_peer_id" => vec![self.t.add_peer_id(&id) as u64],
            "set_trusted" => {
                self.t.set_trusted(&id, x == 1);
                vec![]
            }
            "protect" => vec![self.t.protect(&id, x as u32) as u64],
            "unprotect" => vec![self.t.unprotect(&id, x as u32) as u64],
            "add_connection" => {
                self.t.add_connection(&id, conn_id(p, x as usize));
                vec![]
            }
            "remove_connection" => {
                self.t.remove_connection(&id, conn_id(p, x as usize));
                vec![]
            }
            "on_agent_version" => {
                self.t.on_agent_version(&id, agent(x));
                vec![]
            }
            "mark_as_archival" => {
                self.t.mark_as_archival(&id);
                vec![]
            }
            "on_ping" => {
                self.t.on_ping(&id, conn_id(p, x as usize), Some(std::time::Duration::from_millis(10 + x)));
                vec![]
            }
            "gc" => {
                self.t.gc();
                vec![]
            }
            // environment: the peer's disconnection becomes 121 s older (gc's limit is 120 s)
            "age" => vec![self.t.age_disconnected(&id, std::time::Duration::from_secs(121)) as u64],
            other => h_common::tool_error(&format!("unknown op {other}")),
        }
    }

    /// Drive the tracker into the state `pre` (one canonical event sequence per state).
    fn construct(&mut self, pre: &[[u64; 7]]) {
        for (i, s) in pre.iter().enumerate() {
            let p = i + 1;
            if s[0] == 0 {
                continue;
            }
            self.apply("add_peer_id", p, 0);
            if s[2] == 1 {
                self.apply("set_trusted", p, 1);
            }
            for c in 1..=self.nc {
                if s[1] & (1 << (c - 1)) != 0 {
                    self.apply("add_connection", p, c as u64);
                }
            }
            if s[4] != 0 {
                self.apply("on_agent_version", p, s[4]);
            }
            if s[3] == 1 {
                self.apply("mark_as_archival", p, 0);
            }
            for t in self.tags.clone() {
                if s[5] & (1 << (t - 1)) != 0 {
                    self.apply("protect", p, t as u64);
                }
            }
            if s[6] == 1 {
                self.apply("age", p, 0);
            }
        }
    }
}

fn recount(views: &[[u64; 7]]) -> [u64; 4] {
    let mut r = [0u64; 4];
    for v in views {
        if v[0] == 1 && v[1] != 0 {
            r[0] += 1;
            r[1] += v[2];
            r[2] += (v[4] == 1 || v[4] == 2) as u64;
            r[3] += v[3];
        }
    }
    r
}

/// The three clauses of C39 on real observations: `Some((kind, why))` when one is broken.
fn statement_monitor(op: &str, pre: &[[u64; 7]], post: &[[u64; 7]], published: [u64; 4], info: [u64; 4], pcount: &[u64]) -> Option<(&'static str, String)> {
    if op == "gc" {
        for (i, v) in pre.iter().enumerate() {
            if v[0] == 1 && (v[1] != 0 || v[5] != 0) && post[i][0] == 0 {
                return Some(("gc-forgot", format!("gc forgot peer {} which was {}", i + 1, if v[1] != 0 { "connected" } else { "protected" })));
            }
        }
    }
    let rc = recount(post);
    if published != rc || info != rc {
        return Some(("info", format!("published {published:?} / info() {info:?} but a recount of the tracked peers gives {rc:?}")));
    }
    for (ti, n) in pcount.iter().enumerate() {
        let have = post.iter().filter(|v| v[0] == 1 && v[5] & (1 << ti) != 0).count() as u64;
        if *n != have {
            return Some(("tag-count", format!("protected_len({}) = {n} but {have} peers are protected with that tag", ti + 1)));
        }
    }
    None
}

fn arr7(v: &Value) -> Vec<[u64; 7]> {
    v.as_array()
        .unwrap()
        .iter()
        .map(|a| {
            let a = a.as_array().unwrap();
            let mut r = [0u64; 7];
            for i in 0..7 {
                r[i] = a[i].as_u64().unwrap();
            }
            r
        })
        .collect()
}
fn arr(v: &Value) -> Vec<u64> {
    v.as_array().unwrap().iter().map(|x| x.as_u64().unwrap()).collect()
}

pub fn replay(args: &Args) -> Summary {
    let mut s = Summary::new("peertracker");
    let cases = read_cases(args.pos(2));
    let nc = args.opt_u64("nc", 2) as usize;
    let nt = args.opt_u64("nt", 2) as usize;
    let ids: Vec<PeerId> = (0..16).map(|_| PeerId::random()).collect();
    for case in &cases {
        let pre = arr7(&case["pre"]);
        let post_m = arr7(&case["post"]);
        let op = case["op"].as_str().unwrap();
        let p = case["p"].as_u64().unwrap() as usize;
        let x = case["x"].as_u64().unwrap();
        let nt = case["pcount"].as_array().map(|a| a.len()).unwrap_or(nt);
        let out = catch(|| {
            let mut w = World::new(pre.len(), nc, nt, &ids);
            w.construct(&pre);
            let built = w.views();
            let res = w.apply(op, p, x);
            (built, res, w.views(), w.published(), w.info(), w.pcount())
        });
        let changed = pre != post_m;
        let key = changed.then(|| format!("{op}/{p}/{x}/{pre:?}"));
        s.case(PROP, key, || json!({"op": op, "p": p, "x": x, "pre": pre, "post": post_m}));
        match out {
            Err(msg) => s.violation(PROP, json!({"case": case, "kind": "panic", "op": op, "why": format!("panic: {msg}")})),
            Ok((built, res, post, published, info, pcount)) => {
                if built != pre {
                    s.drift(PROP, json!({"case": case, "what": "pre-state not reached by the canonical event sequence", "built": built}));
                    continue;
                }
                if let Some((kind, why)) = statement_monitor(op, &pre, &post, published, info, &pcount) {
                    s.violation(PROP, json!({"case": case, "kind": kind, "op": op, "why": why,
                        "real": {"views": post, "published": published, "info": info, "pcount": pcount}}));
                    continue;
                }
                let conforms = post == post_m && res == arr(&case["res"]) && published.to_vec() == arr(&case["pub"]) && pcount == arr(&case["pcount"]);
                if !conforms {
                    s.drift(PROP, json!({"case": case, "what": "real tracker differs from the model (the statement's clauses hold)",
                        "real": {"views": post, "res": res, "published": published, "pcount": pcount}}));
                }
            }
        }
    }
    s
}

struct Rng(u64);
impl Rng {
    fn next(&mut self) -> u64 {
        self.0 ^= self.0 << 13;
        self.0 ^= self.0 >> 7;
        self.0 ^= self.0 << 17;
        self.0
    }
    fn below(&mut self, n: u64) -> u64 {
        self.next() % n
    }
}

pub fn record(args: &Args) -> Summary {
    let mut s = Summary::new("peertracker");
    let seed = args.opt_u64("seed", 1);
    let runs = args.opt_u64("runs", 10);
    let ops = args.opt_u64("ops", 1000);
    let (np, nc, nt) = (args.opt_u64("np", 8) as usize, args.opt_u64("nc", 3) as usize, args.opt_u64("nt", 3) as usize);
    let mut tw = TraceWriter::create(args.opt("out").expect("--out"));
    let ids: Vec<PeerId> = (0..np).map(|_| PeerId::random()).collect();
    let mut rng = Rng(seed.wrapping_mul(0x9E3779B97F4A7C15) | 1);
    for run in 0..runs {
        let mut w = World::new(np, nc, nt, &ids);
        tw.emit(json!({"name": "reset", "run": run}));
        // each run has its own mix: some connect-heavy, some churn-heavy
        let churn = 1 + rng.below(4);
        for i in 0..ops {
            let p = 1 + rng.below(np as u64) as usize;
            let (name, x) = match rng.below(20 + churn * 2) {
                0 => ("add_peer_id", 0),
                1 | 2 => ("set_trusted", rng.below(2)),
                3 | 4 => ("protect", 1 + rng.below(nt as u64)),
                5 | 6 => ("unprotect", 1 + rng.below(nt as u64)),
                7..=10 => ("add_connection", 1 + rng.below(nc as u64)),
                11 | 12 => ("on_agent_version", rng.below(5)),
                13 | 14 => ("mark_as_archival", 0),
                15 => ("on_ping", 1 + rng.below(nc as u64)),
                16 => ("gc", 0),
                17 => ("age", 0),
                _ => ("remove_connection", 1 + rng.below(nc as u64)),
            };
            let pre = w.views();
            let r = catch(|| w.apply(name, p, x));
            let res = match r {
                Ok(r) => r,
                Err(msg) => {
                    s.violation(PROP, json!({"kind": "panic", "op": name, "mode": "recorded", "run": run, "seed": seed, "event": i, "why": format!("panic: {msg}")}));
                    break;
                }
            };
            let post = w.views();
            // the light kind has two spellings; the trace carries the kind the tracker derived
            let xl = if name == "on_agent_version" && x == 4 { 3 } else { x };
            let pp = if name == "gc" { 0 } else { p };
            tw.emit(json!({"name": name, "p": pp, "x": xl, "res": res, "pub": w.published(), "info": w.info(),
                           "pcount": w.pcount(), "views": post}));
            s.case(PROP, (pre != post).then(|| format!("{name}/{p}/{x}/{pre:?}")), || json!({"run": run, "event": i, "op": name, "p": p, "x": x}));
        }
    }
    tw.finish();
    s
}
