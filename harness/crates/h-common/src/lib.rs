//! Shared plumbing of the conformance harnesses: case files, summaries, panic capture.

use serde_json::{json, Map, Value};
use std::collections::{BTreeMap, BTreeSet};
use std::io::{BufRead, BufReader, Write};
use std::panic::{catch_unwind, AssertUnwindSafe};

/// Read an ndjson file of cases. Lines that TLC printed with `PrintT(ToJson(..))`
/// are JSON strings holding JSON; both plain and quoted forms are accepted.
pub fn read_cases(path: &str) -> Vec<Value> {
    let f = std::fs::File::open(path).unwrap_or_else(|e| tool_error(&format!("open {path}: {e}")));
    let mut out = Vec::new();
    for line in BufReader::new(f).lines() {
        let line = line.unwrap();
        let line = line.trim();
        if line.is_empty() {
            continue;
        }
        let v: Value = match serde_json::from_str(line) {
            Ok(v) => v,
            Err(_) => continue,
        };
        match v {
            Value::String(s) => {
                if let Ok(inner) = serde_json::from_str::<Value>(&s) {
                    out.push(inner)
                }
            }
            Value::Object(_) => out.push(v),
            _ => {}
        }
    }
    out
}

pub fn tool_error(msg: &str) -> ! {
    eprintln!("TOOL-ERROR: {msg}");
    std::process::exit(2)
}

/// Run `f`, turning a panic into `Err(message)`. A panic in the code under test is data.
pub fn catch<T>(f: impl FnOnce() -> T) -> Result<T, String> {
    IN_CATCH.with(|c| c.set(c.get() + 1));
    let r = catch_unwind(AssertUnwindSafe(f));
    IN_CATCH.with(|c| c.set(c.get() - 1));
    r.map_err(|e| {
        if let Some(s) = e.downcast_ref::<&str>() {
            s.to_string()
        } else if let Some(s) = e.downcast_ref::<String>() {
            s.clone()
        } else {
            "panic".to_string()
        }
    })
}

thread_local! {
    static IN_CATCH: std::cell::Cell<u32> = const { std::cell::Cell::new(0) };
}

/// Panics inside `catch` are recorded, not printed; any other panic (a harness bug) is printed.
pub fn quiet_panics() {
    let default = std::panic::take_hook();
    std::panic::set_hook(Box::new(move |info| {
        if IN_CATCH.with(|c| c.get()) == 0 && !QUIET_ALL.load(std::sync::atomic::Ordering::Relaxed) {
            default(info);
        }
    }));
}

/// For harnesses where the code under test panics on other threads / tasks.
pub static QUIET_ALL: std::sync::atomic::AtomicBool = std::sync::atomic::AtomicBool::new(false);

#[derive(Default)]
struct PropStats {
    evaluations: u64,
    nontrivial: BTreeSet<String>,
    nontrivial_overflow: u64,
    violations: u64,
    drift: u64,
    samples: Vec<Value>,
}

/// Accumulates the outcome of a replay / record run, per property.
pub struct Summary {
    model: String,
    props: BTreeMap<String, PropStats>,
    violations: Vec<Value>,
    drift: Vec<Value>,
    extra: Map<String, Value>,
    sample_every: u64,
    per_class: BTreeMap<String, u64>,
}

const KEEP: usize = 25;
const MAX_KEYS: usize = 2_000_000;

impl Summary {
    pub fn new(model: &str) -> Self {
        Summary {
            model: model.to_string(),
            props: BTreeMap::new(),
            violations: vec![],
            drift: vec![],
            extra: Map::new(),
            sample_every: 997,
            per_class: BTreeMap::new(),
        }
    }

    /// One evaluated case of `prop`. `nontrivial_key`: Some(key) if the case is non-trivial by
    /// the model's stated rule; distinct keys are counted.
    pub fn case(&mut self, prop: &str, nontrivial_key: Option<String>, sample: impl FnOnce() -> Value) {
        let p = self.props.entry(prop.to_string()).or_default();
        p.evaluations += 1;
        if let Some(k) = nontrivial_key {
            if p.nontrivial.len() < MAX_KEYS {
                p.nontrivial.insert(k);
            } else if !p.nontrivial.contains(&k) {
                p.nontrivial_overflow += 1;
            }
        }
        if p.samples.len() < 6 && (p.evaluations % self.sample_every == 1 || p.evaluations < 3) {
            p.samples.push(sample());
        }
    }

    pub fn violation(&mut self, prop: &str, v: Value) {
        self.props.entry(prop.to_string()).or_default().violations += 1;
        // keep at most 12 per (property, class) so that a frequent class cannot hide a rare one
        let class_key = format!("{prop}/{}", v.get("class").map(|c| c.to_string()).unwrap_or_default());
        let seen = self.per_class.entry(class_key).or_insert(0);
        *seen += 1;
        if *seen <= 12 && self.violations.len() < KEEP * 40 {
            let mut v = v;
            if let Value::Object(m) = &mut v {
                m.insert("property".into(), json!(prop));
            }
            self.violations.push(v);
        }
    }

    pub fn drift(&mut self, prop: &str, v: Value) {
        self.props.entry(prop.to_string()).or_default().drift += 1;
        if self.drift.len() < KEEP {
            let mut v = v;
            if let Value::Object(m) = &mut v {
                m.insert("property".into(), json!(prop));
            }
            self.drift.push(v);
        }
    }

    pub fn set(&mut self, key: &str, v: Value) {
        self.extra.insert(key.to_string(), v);
    }

    pub fn add(&mut self, key: &str, n: u64) {
        let cur = self.extra.get(key).and_then(|v| v.as_u64()).unwrap_or(0);
        self.extra.insert(key.to_string(), json!(cur + n));
    }

    pub fn to_json(&self) -> Value {
        let mut props = Map::new();
        for (k, p) in &self.props {
            props.insert(
                k.clone(),
                json!({
                    "evaluations": p.evaluations,
                    "distinct_nontrivial": p.nontrivial.len() as u64,
                    "nontrivial_uncounted_overflow": p.nontrivial_overflow,
                    "violations": p.violations,
                    "drift": p.drift,
                    "samples": p.samples,
                }),
            );
        }
        json!({
            "model": self.model,
            "props": props,
            "violations": self.violations,
            "drift": self.drift,
            "extra": self.extra,
        })
    }

    pub fn write(&self, path: &str) {
        let mut f = std::fs::File::create(path).unwrap_or_else(|e| tool_error(&format!("create {path}: {e}")));
        f.write_all(serde_json::to_string_pretty(&self.to_json()).unwrap().as_bytes()).unwrap();
    }
}

/// Writer of ndjson traces.
pub struct TraceWriter {
    f: std::io::BufWriter<std::fs::File>,
    pub events: u64,
}

impl TraceWriter {
    pub fn create(path: &str) -> Self {
        let f = std::fs::File::create(path).unwrap_or_else(|e| tool_error(&format!("create {path}: {e}")));
        TraceWriter { f: std::io::BufWriter::new(f), events: 0 }
    }
    pub fn emit(&mut self, v: Value) {
        serde_json::to_writer(&mut self.f, &v).unwrap();
        self.f.write_all(b"\n").unwrap();
        self.events += 1;
    }
    pub fn finish(mut self) -> u64 {
        self.f.flush().unwrap();
        self.events
    }
}

/// Simple `--key value` argument access.
pub struct Args(pub Vec<String>);
impl Args {
    pub fn from_env() -> Self {
        Args(std::env::args().skip(1).collect())
    }
    pub fn pos(&self, i: usize) -> &str {
        let mut k = 0;
        let mut j = 0;
        while j < self.0.len() {
            if self.0[j].starts_with("--") {
                j += 2;
                continue;
            }
            if k == i {
                return &self.0[j];
            }
            k += 1;
            j += 1;
        }
        tool_error(&format!("missing positional argument {i}"))
    }
    pub fn opt(&self, key: &str) -> Option<&str> {
        let flag = format!("--{key}");
        self.0.iter().position(|a| *a == flag).and_then(|i| self.0.get(i + 1)).map(|s| s.as_str())
    }
    pub fn opt_u64(&self, key: &str, default: u64) -> u64 {
        self.opt(key).map(|s| s.parse().unwrap_or_else(|_| tool_error(&format!("bad --{key}")))).unwrap_or(default)
    }
}

/// Record the case about to be executed, so that the driver can attribute an abort of the whole
/// process (allocation failure, stack overflow) to it.  No-op unless VERIF_CURRENT is set.
pub fn current_case(v: &Value) {
    if let Ok(p) = std::env::var("VERIF_CURRENT") {
        let _ = std::fs::write(p, serde_json::to_string(v).unwrap_or_default());
    }
}
