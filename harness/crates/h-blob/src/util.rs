//! Helpers shared by the h-blob models.

use h_common::Summary;
use serde_json::Value;
use std::cell::RefCell;
use std::collections::HashMap;

thread_local! {
    static PER_CLASS: RefCell<HashMap<String, u64>> = RefCell::new(HashMap::new());
}

/// `Summary` keeps at most 200 violation records; a frequent (possibly known) class must not crowd
/// out a rare one, so only the first `CAP` records of every class are stored, the rest is counted.
pub fn violation(sum: &mut Summary, prop: &str, v: Value) {
    const CAP: u64 = 12;
    let key = format!("{prop} {}", v["class"]);
    let n = PER_CLASS.with(|m| {
        let mut m = m.borrow_mut();
        let e = m.entry(key).or_insert(0);
        *e += 1;
        *e
    });
    if n <= CAP {
        sum.violation(prop, v);
    } else {
        sum.add("violations_beyond_per_class_cap", 1);
    }
}
