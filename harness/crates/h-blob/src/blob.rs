//! C11: replay of spec/Blob.tla cases (sparse share layout, reconstruct, reconstruct_all, shares_len)
//! on real blobs.

use celestia_types::consts::appconsts::SHARE_SIZE;
use celestia_types::nmt::Namespace;
use celestia_types::state::AccAddress;
use celestia_types::{AppVersion, Blob, Share};
use h_common::{catch, read_cases, tool_error, Args, Summary};
use rand::{rngs::StdRng, Rng, SeedableRng};
use serde_json::{json, Value};

pub fn rand_ns(rng: &mut StdRng) -> Namespace {
    loop {
        let mut id = [0u8; 10];
        rng.fill(&mut id);
        let ns = Namespace::new_v0(&id).unwrap();
        if !ns.is_reserved() {
            return ns;
        }
    }
}

pub fn rand_data(len: usize, rng: &mut StdRng) -> Vec<u8> {
    let mut d = vec![0u8; len];
    rng.fill(&mut d[..]);
    // zero runs at the end and at share boundaries must survive the padding cut
    match rng.gen_range(0..4) {
        0 => {
            let z = rng.gen_range(0..=len.min(40));
            d[len - z..].fill(0)
        }
        1 => d.fill(0),
        _ => {}
    }
    d
}

pub fn rand_signer(rng: &mut StdRng) -> AccAddress {
    let mut b = [0u8; 20];
    rng.fill(&mut b);
    AccAddress::from(b)
}

pub fn app_version(signer: bool, rng: &mut StdRng) -> AppVersion {
    let all = [AppVersion::V1, AppVersion::V2, AppVersion::V3, AppVersion::V4, AppVersion::V5, AppVersion::V6, AppVersion::V7];
    let lo = if signer { 2 } else { 0 };
    all[rng.gen_range(lo..all.len())]
}

fn viol(sum: &mut Summary, call: &str, kind: &str, case: &Value, why: String) {
    let signer = case["s"].as_u64().unwrap_or(0);
    crate::util::violation(sum, "C11", json!({"class": {"call": call, "kind": kind, "signer": signer}, "case": case, "why": why}));
}

fn layout_case(sum: &mut Summary, case: &Value, rng: &mut StdRng) {
    let len = case["len"].as_u64().unwrap() as usize;
    let s = case["s"].as_u64().unwrap() == 1;
    let n = case["n"].as_u64().unwrap() as usize;
    let ns = rand_ns(rng);
    let data = rand_data(len, rng);
    let signer = if s { Some(rand_signer(rng)) } else { None };
    let app = app_version(s, rng);

    let blob = match catch(|| Blob::new(ns, data.clone(), signer, app)) {
        Ok(Ok(b)) => b,
        Ok(Err(e)) => return viol(sum, "new", "error", case, format!("Blob::new failed: {e}")),
        Err(p) => return viol(sum, "new", "panic", case, format!("Blob::new panicked: {p}")),
    };
    let shares = match catch(|| blob.to_shares()) {
        Ok(Ok(b)) => b,
        Ok(Err(e)) => return viol(sum, "to_shares", "error", case, format!("to_shares failed: {e}")),
        Err(p) => return viol(sum, "to_shares", "panic", case, format!("to_shares panicked: {p}")),
    };
    // --- property: reported share count = number of shares produced
    match catch(|| blob.shares_len()) {
        Ok(l) if l == shares.len() => {}
        Ok(l) => viol(sum, "shares_len", "count", case, format!("shares_len() = {l}, to_shares().len() = {} (data length {len}, signer {s})", shares.len())),
        Err(p) => viol(sum, "shares_len", "panic", case, p),
    }
    // --- property: split then reconstruct is the identity
    match catch(|| Blob::reconstruct(shares.iter(), app)) {
        Ok(Ok(b)) if b == blob => {}
        Ok(Ok(b)) => viol(sum, "reconstruct", "differs", case, format!("reconstructed blob differs: data eq {}, signer eq {}, version {} vs {}", b.data == blob.data, b.signer == blob.signer, b.share_version, blob.share_version)),
        Ok(Err(e)) => viol(sum, "reconstruct", "error", case, format!("reconstruct failed: {e}")),
        Err(p) => viol(sum, "reconstruct", "panic", case, p),
    }
    // --- model: exact layout (drift when it differs but the property holds)
    let mut diffs = vec![];
    if shares.len() != n {
        diffs.push(format!("share count {} != model {n}", shares.len()));
    }
    for (k, (sh, m)) in shares.iter().zip(case["shares"].as_array().unwrap()).enumerate() {
        let m: Vec<u64> = m.as_array().unwrap().iter().map(|x| x.as_u64().unwrap()).collect();
        let (start, ver, seq, sg, off, pl, pad) = (m[0] == 1, m[1] as u8, m[2], m[3] == 1, m[4] as usize, m[5] as usize, m[6] as usize);
        let info = sh.info_byte().unwrap();
        let payload = sh.payload().unwrap();
        let ok = sh.namespace() == ns
            && info.is_sequence_start() == start
            && info.version() == ver
            && sh.sequence_length().map(|x| x as u64).unwrap_or(0) == seq
            && sh.sequence_length().is_some() == start
            && sh.signer().is_some() == sg
            && (!sg || sh.signer() == signer)
            && payload.len() == pl + pad
            && payload[..pl] == data[off..off + pl]
            && payload[pl..].iter().all(|b| *b == 0)
            && sh.as_ref().len() == SHARE_SIZE;
        if !ok {
            diffs.push(format!("share {k} differs from the model layout"));
        }
    }
    if !diffs.is_empty() {
        sum.drift("C11", json!({"case": {"len": len, "s": s}, "diffs": diffs}));
    }
    let boundary = case["shares"].as_array().unwrap().last().unwrap()[6].as_u64().unwrap() == 0 || len <= 2;
    sum.case("C11", Some(format!("layout/{len}/{s}")), || json!({"len": len, "signer": s, "shares": shares.len(), "boundary": boundary}));
}

fn reserved_share(kind: &str, rng: &mut StdRng) -> Share {
    let mut raw = vec![0u8; SHARE_SIZE];
    let ns = match kind {
        "tx" => Namespace::TRANSACTION,
        "pfb" => Namespace::PAY_FOR_BLOB,
        "primary_padding" => Namespace::PRIMARY_RESERVED_PADDING,
        "tail_padding" => Namespace::TAIL_PADDING,
        "parity" => {
            rng.fill(&mut raw[..]);
            return Share::parity(&raw).unwrap();
        }
        x => tool_error(&format!("unknown reserved share kind {x}")),
    };
    raw[..29].copy_from_slice(ns.as_bytes());
    // sequence start or continuation, compact-share like content
    raw[29] = rng.gen_range(0..2);
    if kind == "tx" || kind == "pfb" {
        rng.fill(&mut raw[30..]);
    }
    Share::from_raw(&raw).unwrap()
}

fn stream_case(sum: &mut Summary, case: &Value, rng: &mut StdRng) {
    let st: Vec<&str> = case["st"].as_array().unwrap().iter().map(|x| x.as_str().unwrap()).collect();
    let expect: Vec<(usize, bool)> = case["blobs"].as_array().unwrap().iter().map(|b| (b[0].as_u64().unwrap() as usize, b[1].as_u64().unwrap() == 1)).collect();
    let any_signer = expect.iter().any(|b| b.1);
    let app = app_version(any_signer, rng);
    let mut shares: Vec<Share> = vec![];
    let mut blobs: Vec<Blob> = vec![];
    let mut prev_ns = rand_ns(rng);
    let mut bi = 0;
    for sym in &st {
        if sym.starts_with('b') {
            let (len, s) = expect[bi];
            bi += 1;
            let ns = if rng.gen_bool(0.5) { prev_ns } else { rand_ns(rng) };
            prev_ns = ns;
            let blob = match catch(|| Blob::new(ns, rand_data(len, rng), if s { Some(rand_signer(rng)) } else { None }, app)) {
                Ok(Ok(b)) => b,
                other => return viol(sum, "new", "error", case, format!("Blob::new failed in stream: {:?}", other.map(|r| r.map(|_| ())))),
            };
            shares.extend(blob.to_shares().unwrap());
            blobs.push(blob);
        } else {
            shares.push(reserved_share(sym, rng));
        }
    }
    if shares.len() as u64 != case["nshares"].as_u64().unwrap() {
        sum.drift("C11", json!({"case": case, "diffs": [format!("stream has {} shares, model {}", shares.len(), case["nshares"])]}));
    }
    match catch(|| Blob::reconstruct_all(shares.iter(), app)) {
        Ok(Ok(got)) if got == blobs => {}
        Ok(Ok(got)) => viol(sum, "reconstruct_all", "differs", case, format!("reconstruct_all returned {} blobs (lens {:?}), expected {} (lens {:?})", got.len(), got.iter().map(|b| b.data.len()).collect::<Vec<_>>(), blobs.len(), blobs.iter().map(|b| b.data.len()).collect::<Vec<_>>())),
        Ok(Err(e)) => viol(sum, "reconstruct_all", "error", case, format!("reconstruct_all failed: {e}")),
        Err(p) => viol(sum, "reconstruct_all", "panic", case, p),
    }
    let nontrivial = st.len() > blobs.len();
    sum.case("C11", if nontrivial { Some(format!("stream/{}", st.join(","))) } else { None }, || json!({"stream": st, "shares": shares.len()}));
}

/// A reserved-namespace share (every kind) inside the share run of a multi-share blob must be ignored.
fn inside_case(sum: &mut Summary, case: &Value, rng: &mut StdRng) {
    let expect: Vec<(usize, bool)> = case["blobs"].as_array().unwrap().iter().map(|b| (b[0].as_u64().unwrap() as usize, b[1].as_u64().unwrap() == 1)).collect();
    let npre = case["pre"].as_array().unwrap().len();
    let r = case["r"].as_str().unwrap();
    let p = case["p"].as_u64().unwrap() as usize;
    let app = app_version(expect.iter().any(|b| b.1), rng);
    let mut shares: Vec<Share> = vec![];
    let mut blobs: Vec<Blob> = vec![];
    let mut prev_ns = rand_ns(rng);
    for (bi, (len, s)) in expect.iter().enumerate() {
        let ns = if rng.gen_bool(0.5) { prev_ns } else { rand_ns(rng) };
        prev_ns = ns;
        let blob = match catch(|| Blob::new(ns, rand_data(*len, rng), if *s { Some(rand_signer(rng)) } else { None }, app)) {
            Ok(Ok(b)) => b,
            other => return viol(sum, "new", "error", case, format!("Blob::new failed: {:?}", other.map(|r| r.map(|_| ())))),
        };
        let bs = blob.to_shares().unwrap();
        let n = bs.len();
        for (k, sh) in bs.into_iter().enumerate() {
            shares.push(sh);
            // gap after the (k+1)-th share of the middle blob, never after its last share
            if bi == npre && k + 1 < n && (p == 0 || p == k + 1) {
                shares.push(reserved_share(r, rng));
            }
        }
        blobs.push(blob);
    }
    if shares.len() as u64 != case["nshares"].as_u64().unwrap() {
        sum.drift("C11", json!({"case": case, "diffs": [format!("stream has {} shares, model {}", shares.len(), case["nshares"])]}));
    }
    match catch(|| Blob::reconstruct_all(shares.iter(), app)) {
        Ok(Ok(got)) if got == blobs => {}
        Ok(Ok(got)) => viol(sum, "reconstruct_all", "inside-differs", case, format!("reconstruct_all with a {r} share inside a blob returned {} blobs, expected {}", got.len(), blobs.len())),
        Ok(Err(e)) => viol(sum, "reconstruct_all", "inside-error", case, format!("reconstruct_all with a {r} share inside a blob (gap {p}) failed: {e}")),
        Err(pn) => viol(sum, "reconstruct_all", "panic", case, pn),
    }
    sum.case("C11", Some(format!("inside/{}/{}/{r}/{p}/{}", case["pre"], case["b"], case["post"])), || json!({"inside": r, "gap": p, "blob": case["b"], "shares": shares.len()}));
}

pub fn replay(args: &Args) {
    let cases = read_cases(args.pos(2));
    let mut rng = StdRng::seed_from_u64(args.opt_u64("seed", 1));
    let mut sum = Summary::new("blob");
    for case in &cases {
        match case["kind"].as_str().unwrap() {
            "layout" => layout_case(&mut sum, case, &mut rng),
            "stream" => stream_case(&mut sum, case, &mut rng),
            "inside" => inside_case(&mut sum, case, &mut rng),
            x => tool_error(&format!("unknown case kind {x}")),
        }
    }
    sum.write(args.opt("summary").unwrap_or_else(|| tool_error("--summary")));
}
