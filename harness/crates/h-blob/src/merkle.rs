//! C13: replay of spec/Merkle.tla and spec/RowProof.tla cases on the real MerkleProof / RowProof /
//! ShareProof.  Terms emitted by TLC (`["L",i]`, `["N",l,r]`, `["X",k]`) are concretised with real
//! SHA-256 (RFC 6962 prefixes, computed here with `sha2` directly), leaves are real byte strings
//! (synthetic, or the row/column roots of a real DAH built from a real EDS).

use celestia_proto::celestia::core::v1::proof::{Proof as RawMerkleProof, RowProof as RawRowProof};
use celestia_types::consts::appconsts::SHARE_SIZE;
use celestia_types::nmt::{Namespace, NamespaceProof, NamespacedHash, NamespacedHashExt, NamespacedSha2Hasher};
use celestia_types::{AppVersion, DataAvailabilityHeader, ExtendedDataSquare, MerkleProof, RowProof, ShareProof};
use h_common::{catch, read_cases, tool_error, Args, Summary};
use rand::{rngs::StdRng, Rng, SeedableRng};
use serde_json::{json, Value};
use sha2::{Digest, Sha256};
use std::collections::HashMap;

type H32 = [u8; 32];
type NmtNsProof = nmt_rs::nmt_proof::NamespaceProof<NamespacedSha2Hasher, 29>;

fn leaf_hash(data: &[u8]) -> H32 {
    let mut h = Sha256::new();
    h.update([0u8]);
    h.update(data);
    h.finalize().into()
}
fn inner_hash(l: &H32, r: &H32) -> H32 {
    let mut h = Sha256::new();
    h.update([1u8]);
    h.update(l);
    h.update(r);
    h.finalize().into()
}

/// Digest of a term; `leaf(i)` gives the bytes of leaf i.
fn digest(t: &Value, leaf: &dyn Fn(u64) -> Vec<u8>) -> H32 {
    let a = t.as_array().unwrap_or_else(|| tool_error("term is not an array"));
    match a[0].as_str().unwrap() {
        "L" => leaf_hash(&leaf(a[1].as_u64().unwrap())),
        "N" => inner_hash(&digest(&a[1], leaf), &digest(&a[2], leaf)),
        "X" => {
            let mut h = Sha256::new();
            h.update(b"foreign digest");
            h.update(a[1].as_u64().unwrap().to_be_bytes());
            h.finalize().into()
        }
        x => tool_error(&format!("unknown term tag {x}")),
    }
}

#[derive(Debug, PartialEq, Clone, Copy)]
enum Obs {
    Accept,
    Reject,
    Panic,
}
impl Obs {
    fn s(&self) -> &'static str {
        match self {
            Obs::Accept => "accept",
            Obs::Reject => "reject",
            Obs::Panic => "panic",
        }
    }
}
fn observe<E>(f: impl FnOnce() -> Result<(), E>) -> (Obs, String) {
    match catch(f) {
        Ok(Ok(())) => (Obs::Accept, String::new()),
        Ok(Err(_)) => (Obs::Reject, String::new()),
        Err(p) => (Obs::Panic, p),
    }
}

/// Compare an observation with the verdict demanded by the property (A / R / E) and the model's answer.
/// `panic_is_violation`: for RowProof/ShareProof on untrusted wire data a panic is not a "fail".
fn judge(sum: &mut Summary, level: &str, case: &Value, verdict: &str, model: u64, obs: Obs, panic: &str, panic_is_violation: bool) {
    let fam = case["fam"].as_str().or(case["alt"].as_str()).unwrap_or("");
    let class = |kind: &str| json!({"level": level, "fam": fam, "kind": kind});
    let bad = match (verdict, obs) {
        ("A", Obs::Accept) | ("R", Obs::Reject) | ("E", Obs::Accept) | ("E", Obs::Reject) => None,
        ("A", Obs::Reject) => Some("honest-rejected"),
        ("R", Obs::Accept) => Some("accepted-must-reject"),
        (_, Obs::Panic) => {
            if panic_is_violation || verdict == "A" {
                Some("panic")
            } else {
                None
            }
        }
        _ => tool_error("bad verdict"),
    };
    if let Some(kind) = bad {
        let mut cls = class(kind);
        // finer class for the index/total family: which clause of the statement is broken
        if fam == "index_total" || fam == "aunts+index_total" {
            let (ix, t, n) = (case["index"].as_u64().unwrap(), case["total"].as_u64().unwrap(), case["n"].as_u64().unwrap());
            cls["clause"] = json!(if ix >= t { "index>=total" } else if t != n { "total!=count" } else { "position" });
            // does the claimed (index, total) walk the tree with the same turns as the honest pair (spec: SamePath)?
            cls["path"] = json!(case["path"].as_str().unwrap_or("unknown"));
        }
        crate::util::violation(sum, "C13", json!({"class": cls, "case": case, "level": level, "observed": obs.s(), "panic": panic,
            "why": format!("{level}: property demands {verdict}, real code: {} {panic}", obs.s())}));
    } else if (model == 1) != (obs == Obs::Accept) {
        sum.drift("C13", json!({"level": level, "case": case, "observed": obs.s(), "panic": panic, "model": model}));
    }
}

fn rand_share(ns: &Namespace, rng: &mut StdRng) -> Vec<u8> {
    let mut s = vec![0u8; SHARE_SIZE];
    s[..29].copy_from_slice(ns.as_bytes());
    s[29] = 0x01;
    rng.fill(&mut s[30..]);
    s
}

struct Square {
    eds: ExtendedDataSquare,
    dah: DataAvailabilityHeader,
    all_roots: Vec<Vec<u8>>,
}

/// ODS of width w whose cell k (row-major) has the namespace ns_of(k) (must be non-decreasing).
fn build_square(w: usize, rng: &mut StdRng, ns_of: &dyn Fn(usize) -> Namespace) -> Square {
    let ods: Vec<Vec<u8>> = (0..w * w).map(|k| rand_share(&ns_of(k), rng)).collect();
    let eds = ExtendedDataSquare::from_ods(ods, AppVersion::V6).unwrap_or_else(|e| tool_error(&format!("from_ods: {e}")));
    let dah = DataAvailabilityHeader::from_eds(&eds);
    let all_roots = dah.row_roots().iter().chain(dah.column_roots().iter()).map(|r| r.to_array().to_vec()).collect();
    Square { eds, dah, all_roots }
}

fn ns(k: u8) -> Namespace {
    Namespace::new_v0(&[7, k]).unwrap()
}

fn flip_nh(h: &NamespacedHash) -> NamespacedHash {
    let mut a = h.to_array();
    a[89] ^= 1;
    NamespacedHash::from_raw(&a).unwrap()
}

fn presence(nmt_proof: nmt_rs::simple_merkle::proof::Proof<NamespacedSha2Hasher>) -> NamespaceProof {
    NamespaceProof::from(NmtNsProof::PresenceProof { proof: nmt_proof, ignore_max_ns: true })
}

// ------------------------------------------------------------------------------------------------
// Merkle.tla cases
// ------------------------------------------------------------------------------------------------

fn hashes(case: &Value, leaf: &dyn Fn(u64) -> Vec<u8>) -> (H32, Vec<H32>, H32) {
    let lh = digest(&case["leaf"], leaf);
    let aunts = case["aunts"].as_array().unwrap().iter().map(|t| digest(t, leaf)).collect();
    let root = digest(&case["root"], leaf);
    (lh, aunts, root)
}

pub fn replay(args: &Args) {
    let cases = read_cases(args.pos(2));
    let seed = args.opt_u64("seed", 1);
    let mut rng = StdRng::seed_from_u64(seed);
    let mut sum = Summary::new("merkle");
    // real squares for the DAH sizes that occur among the honest leaf counts: n = 2 * eds width
    let mut squares: HashMap<u64, Square> = HashMap::new();
    let mut foreign_root: Option<Vec<u8>> = None;
    let (mut n_raw, mut n_row, mut n_share) = (0u64, 0u64, 0u64);

    for case in &cases {
        let n = case["n"].as_u64().unwrap();
        let i = case["i"].as_u64().unwrap();
        let index = case["index"].as_u64().unwrap() as usize;
        let total = case["total"].as_u64().unwrap() as usize;
        let fam = case["fam"].as_str().unwrap();
        let arg_idx = case["arg"][1].as_u64().unwrap();
        let v1 = case["v1"].as_str().unwrap();
        let v2 = case["v2"].as_str().unwrap();
        let m = case["m"].as_u64().unwrap();
        let key = format!("{n}/{i}/{fam}/{}/{}/{index}/{total}", case["sub"], case["k"]);

        // (a) synthetic leaves, any n: MerkleProof::verify, sentence 1
        let leaf = |j: u64| -> Vec<u8> {
            let mut v = format!("leaf {j} of seed {seed}").into_bytes();
            v.resize(v.len() + (j as usize * 7) % 41, j as u8);
            v
        };
        let (lh, aunts, root) = hashes(case, &leaf);
        let proof = MerkleProof { index, total, leaf_hash: lh, aunts: aunts.clone() };
        let (obs, p) = observe(|| proof.verify(leaf(arg_idx), root));
        judge(&mut sum, "merkle", case, v1, m, obs, &p, false);
        n_raw += 1;
        sum.case("C13", if fam != "none" { Some(format!("m/{key}")) } else { None }, || {
            json!({"level": "merkle", "case": case, "observed": obs.s()})
        });
        if fam == "none" {
            // the model's honest proof is the proof the real constructor builds
            let leaves: Vec<Vec<u8>> = (0..n).map(leaf).collect();
            match catch(|| MerkleProof::new(i as usize, &leaves)) {
                Ok(Ok((real, real_root))) => {
                    if real != proof || real_root != root {
                        sum.drift("C13", json!({"level": "merkle", "case": case, "what": "MerkleProof::new differs from the model's honest proof"}));
                    }
                }
                _ => sum.drift("C13", json!({"level": "merkle", "case": case, "what": "MerkleProof::new failed"})),
            }
        }

        // (b) n = number of roots of a real DAH and leaf i a row root: RowProof / ShareProof, sentence 2
        // (a 2x2 EDS - n = 4 - has equal row and column roots: its leaves are not distinct, which the
        // symbolic model assumes; DAH sizes start at n = 8 here)
        if !(n >= 8 && n.is_power_of_two() && i < n / 2) {
            continue;
        }
        let eds_w = (n / 2) as usize;
        let ods_w = eds_w / 2;
        let sq = squares.entry(n).or_insert_with(|| build_square(ods_w, &mut rng, &|k| ns((k / ods_w) as u8 + 1)));
        if foreign_root.is_none() {
            let other = build_square(1, &mut rng, &|_| ns(200));
            foreign_root = Some(other.all_roots[0].clone());
        }
        let fr = foreign_root.clone().unwrap();
        let all = sq.all_roots.clone();
        if all.iter().chain(std::iter::once(&fr)).collect::<std::collections::HashSet<_>>().len() != all.len() + 1 {
            tool_error("row/column roots of the generated square are not pairwise distinct");
        }
        let dleaf = move |j: u64| -> Vec<u8> { if (j as usize) < all.len() { all[j as usize].clone() } else { fr.clone() } };
        let (lh, aunts, root) = hashes(case, &dleaf);
        let honest = sq.dah.row_proof(i as u16..=i as u16).unwrap_or_else(|e| tool_error(&format!("row_proof: {e}")));
        let mut raw: RawRowProof = honest.clone().into();
        raw.row_roots[0] = dleaf(arg_idx);
        raw.proofs[0] = RawMerkleProof { total: total as i64, index: index as i64, leaf_hash: lh.to_vec(), aunts: aunts.iter().map(|a| a.to_vec()).collect() };
        let root_h = celestia_types::hash::Hash::Sha256(root);
        if fam == "none" {
            let same = RowProof::try_from(raw.clone()).map(|p| p == honest).unwrap_or(false);
            if !same || root_h != sq.dah.hash() {
                sum.drift("C13", json!({"level": "row", "case": case, "what": "dah.row_proof / dah.hash differ from the model's honest proof"}));
            }
        }
        let rp = RowProof::try_from(raw.clone());
        let (obs, p) = match &rp {
            Err(_) => (Obs::Reject, String::new()),
            Ok(rp) => observe(|| rp.verify(root_h)),
        };
        judge(&mut sum, "row", case, v2, m, obs, &p, true);
        n_row += 1;
        sum.case("C13", if fam != "none" { Some(format!("r/{key}")) } else { None }, || json!({"level": "row", "case": case, "observed": obs.s()}));

        // ShareProof over all shares of ODS row i (rows of the upper half only)
        if (i as usize) < ods_w {
            if let Ok(rp) = rp {
                let row = sq.eds.row(i as u16).unwrap();
                let data: Vec<[u8; SHARE_SIZE]> = row[..ods_w].iter().map(|s| *s.data()).collect();
                let mut nmt = sq.eds.row_nmt(i as u16).unwrap();
                let sp = ShareProof { data, namespace_id: ns(i as u8 + 1), share_proofs: vec![presence(nmt.build_range_proof(0..ods_w))], row_proof: rp };
                let (obs, p) = observe(|| sp.verify(root_h));
                judge(&mut sum, "share", case, v2, m, obs, &p, true);
                n_share += 1;
                sum.case("C13", None, || json!({"level": "share", "case": case, "observed": obs.s()}));
            }
        }
    }
    sum.set("merkle_cases", json!(n_raw));
    sum.set("row_cases", json!(n_row));
    sum.set("share_cases", json!(n_share));
    sum.write(args.opt("summary").unwrap_or_else(|| tool_error("--summary")));
}

// ------------------------------------------------------------------------------------------------
// RowProof.tla cases
// ------------------------------------------------------------------------------------------------

pub fn replay_rowproof(args: &Args) {
    let cases = read_cases(args.pos(2));
    let seed = args.opt_u64("seed", 1);
    let w = args.opt_u64("w", 4) as usize;
    let mut rng = StdRng::seed_from_u64(seed ^ 0x5eed);
    let mut sum = Summary::new("rowproof");
    let plain = build_square(w, &mut rng, &|k| ns((k / w) as u8 + 1));
    let mut share_squares: HashMap<(u64, u64, u64, u64), Square> = HashMap::new();

    for case in &cases {
        let v = case["v"].as_str().unwrap();
        let m = case["m"].as_u64().unwrap();
        let alt = case["alt"].as_str().unwrap();
        let j = case["j"].as_u64().unwrap() as usize;
        if case["kind"] == "row" {
            let start = case["start"].as_u64().unwrap();
            let end = case["end"].as_u64().unwrap();
            let nroots = case["nroots"].as_u64().unwrap() as usize;
            let nproofs = case["nproofs"].as_u64().unwrap() as usize;
            let t = case["t"].as_u64().unwrap() as usize;
            let base = if (start as usize) < 2 * w { start as usize } else { 0 };
            let row_of = |x: usize| ((base + x) % (2 * w)) as u16;
            let mut roots: Vec<NamespacedHash> = (0..nroots).map(|x| plain.dah.row_root(row_of(x)).unwrap()).collect();
            let mut proofs: Vec<RawMerkleProof> = (0..nproofs)
                .map(|x| {
                    let r: RawRowProof = plain.dah.row_proof(row_of(x)..=row_of(x)).unwrap().into();
                    r.proofs[0].clone()
                })
                .collect();
            match alt {
                "root" => roots[j] = if t % 2 == 0 { flip_nh(&roots[j]) } else { plain.dah.row_root(row_of(j + 1 + t / 2)).unwrap() },
                "aunt" => {
                    let a = &mut proofs[j].aunts;
                    let k = t % a.len();
                    a[k][31 - t % 32] ^= 0x80;
                }
                _ => {}
            }
            let raw = RawRowProof { row_roots: roots.iter().map(|r| r.to_vec()).collect(), proofs, start_row: start as u32, end_row: end as u32, root: vec![] };
            let assembled = RowProof::try_from(raw);
            let (obs, p) = match &assembled {
                Err(_) => (Obs::Reject, String::new()),
                Ok(rp) => observe(|| rp.verify(plain.dah.hash())),
            };
            judge(&mut sum, "rowspan", case, v, m, obs, &p, true);
            if v == "A" {
                // "built from a DAH": the real constructor, which must give the same proof
                let built = plain.dah.row_proof(start as u16..=end as u16);
                let (obs2, p2) = match &built {
                    Err(_) => (Obs::Reject, String::new()),
                    Ok(rp) => observe(|| rp.verify(plain.dah.hash())),
                };
                judge(&mut sum, "rowspan-built", case, v, m, obs2, &p2, true);
                if built.ok() != assembled.ok() {
                    sum.drift("C13", json!({"level": "rowspan", "case": case, "what": "dah.row_proof differs from the assembled proof"}));
                }
            }
            let nontrivial = alt != "none" || (nroots > 0 && nproofs > 0);
            sum.case("C13", if nontrivial { Some(format!("row/{start}/{end}/{nroots}/{nproofs}/{alt}/{j}/{t}")) } else { None }, || {
                json!({"level": "rowspan", "case": case, "observed": obs.s()})
            });
        } else {
            let (r0, c0, r1, c1) = (case["r0"].as_u64().unwrap(), case["c0"].as_u64().unwrap(), case["r1"].as_u64().unwrap(), case["c1"].as_u64().unwrap());
            let lo = r0 as usize * w + c0 as usize;
            let hi = r1 as usize * w + c1 as usize;
            let target = ns(100);
            let sq = share_squares.entry((r0, c0, r1, c1)).or_insert_with(|| {
                build_square(w, &mut rng, &|k| if k < lo { ns(50) } else if k <= hi { ns(100) } else { ns(150) })
            });
            let ranges: Vec<(usize, usize)> = case["ranges"].as_array().unwrap().iter().map(|r| (r[0].as_u64().unwrap() as usize, r[1].as_u64().unwrap() as usize)).collect();
            let nrows = ranges.len();
            let mut data: Vec<[u8; SHARE_SIZE]> = vec![];
            let mut sps: Vec<NamespaceProof> = vec![];
            let mut nmt_parts: Vec<(Vec<NamespacedHash>, std::ops::Range<u32>)> = vec![];
            for (x, (s, e)) in ranges.iter().enumerate() {
                let r = r0 as u16 + x as u16;
                let row = sq.eds.row(r).unwrap();
                data.extend(row[*s..*e].iter().map(|sh| *sh.data()));
                let mut nmt = sq.eds.row_nmt(r).unwrap();
                let pr = nmt.build_range_proof(*s..*e);
                nmt_parts.push((pr.siblings.clone(), pr.range.clone()));
            }
            if data.len() as u64 != case["nshares"].as_u64().unwrap() {
                tool_error("share count of the concretisation differs from the model");
            }
            let mut raw_row: RawRowProof = sq.dah.row_proof(r0 as u16..=r1 as u16).unwrap().into();
            let mut namespace = target;
            let jj = j.min(nrows - 1);
            let nd = data.len();
            match alt {
                "none" => {}
                "share_flip_first" => data[0][SHARE_SIZE - 1] ^= 1,
                "share_flip_last" => data[nd - 1][40] ^= 1,
                "share_flip_mid" => data[nd / 2][300] ^= 0x10,
                "share_drop_last" => {
                    data.pop();
                }
                "share_drop_first" => {
                    data.remove(0);
                }
                "share_extra" => data.push(data[nd - 1]),
                "share_swap" => {
                    if nd >= 2 {
                        data.swap(0, nd - 1)
                    } else {
                        // a single share cannot be swapped: replace it by another share of the namespace
                        data[0] = *build_square(1, &mut rng, &|_| ns(100)).eds.row(0).unwrap()[0].data();
                    }
                }
                "nmt_node_flip_first" | "nmt_node_flip_last" | "nmt_node_drop" => {
                    // the row tree of width 2w always has at least one sibling for a range inside the ODS half
                    let sib = &mut nmt_parts[jj].0;
                    if sib.is_empty() {
                        tool_error("range proof without siblings");
                    }
                    let k = if alt == "nmt_node_flip_first" { 0 } else { sib.len() - 1 };
                    if alt == "nmt_node_drop" {
                        sib.remove(k);
                    } else {
                        sib[k] = flip_nh(&sib[k]);
                    }
                }
                "row_root_flip" => {
                    let l = raw_row.row_roots[jj].len();
                    raw_row.row_roots[jj][l - 1] ^= 1
                }
                "row_root_other" => raw_row.row_roots[jj] = sq.dah.row_root(((r0 as usize + jj + 1) % (2 * w)) as u16).unwrap().to_vec(),
                "row_aunt_flip" => {
                    let a = &mut raw_row.proofs[jj].aunts;
                    let k = j % a.len();
                    a[k][0] ^= 1
                }
                "span_end_plus" => raw_row.end_row += 1,
                "span_start_plus" => raw_row.start_row += 1,
                "roots_drop_last" => {
                    raw_row.row_roots.pop();
                }
                "share_proof_drop_last" => {
                    nmt_parts.pop();
                }
                "nmt_range_shift" => {
                    if jj < nmt_parts.len() {
                        nmt_parts[jj].1.end -= 1
                    }
                }
                "namespace_other" => namespace = ns(101),
                x => tool_error(&format!("unknown alteration {x}")),
            }
            for (sib, range) in nmt_parts {
                sps.push(presence(nmt_rs::simple_merkle::proof::Proof { siblings: sib, range }));
            }
            let (obs, p) = match RowProof::try_from(raw_row) {
                Err(_) => (Obs::Reject, String::new()),
                Ok(row_proof) => {
                    let sp = ShareProof { data, namespace_id: namespace, share_proofs: sps, row_proof };
                    let root = sq.dah.hash();
                    observe(|| sp.verify(root))
                }
            };
            judge(&mut sum, "shareproof", case, v, m, obs, &p, true);
            sum.case("C13", Some(format!("share/{r0}/{c0}/{r1}/{c1}/{alt}/{j}")), || json!({"level": "shareproof", "case": case, "observed": obs.s()}));
        }
    }
    sum.write(args.opt("summary").unwrap_or_else(|| tool_error("--summary")));
}
