//! C14 / C15: replay of spec/Formats.tla cases on Namespace and the Shwap identifiers.

use bytes::BytesMut;
use celestia_types::eds::EdsId;
use celestia_types::namespace_data::NamespaceDataId;
use celestia_types::nmt::Namespace;
use celestia_types::row::RowId;
use celestia_types::row_namespace_data::RowNamespaceDataId;
use celestia_types::sample::SampleId;
use cid::CidGeneric;
use h_common::{catch, read_cases, tool_error, Args, Summary};
use multihash::Multihash;
use serde_json::{json, Value};

fn bytes_of(v: &Value) -> Vec<u8> {
    v.as_array().unwrap_or_else(|| tool_error("bytes expected")).iter().map(|x| x.as_u64().unwrap() as u8).collect()
}

fn b64(b: &[u8]) -> String {
    // standard base64 with padding (own encoder: no extra dependency)
    const T: &[u8; 64] = b"ABCDEFGHIJKLMNOPQRSTUVWXYZabcdefghijklmnopqrstuvwxyz0123456789+/";
    let mut out = String::new();
    for ch in b.chunks(3) {
        let n = (ch[0] as u32) << 16 | (*ch.get(1).unwrap_or(&0) as u32) << 8 | *ch.get(2).unwrap_or(&0) as u32;
        out.push(T[(n >> 18) as usize & 63] as char);
        out.push(T[(n >> 12) as usize & 63] as char);
        out.push(if ch.len() > 1 { T[(n >> 6) as usize & 63] as char } else { '=' });
        out.push(if ch.len() > 2 { T[n as usize & 63] as char } else { '=' });
    }
    out
}

struct Ctx<'a> {
    sum: &'a mut Summary,
    prop: &'static str,
    case: &'a Value,
}
impl Ctx<'_> {
    fn viol(&mut self, call: &str, kind: &str, why: String) {
        let fam = self.case["fam"].as_str().unwrap_or("");
        let mut class = json!({"model": self.case["kind"], "fam": fam, "call": call, "kind": kind});
        if let Some(k) = self.case["k"].as_str() {
            class["id"] = json!(k);
        }
        crate::util::violation(self.sum, self.prop, json!({"class": class, "case": self.case, "why": why}));
    }
    fn drift(&mut self, why: String) {
        self.sum.drift(self.prop, json!({"case": self.case, "why": why}));
    }
}

/// Everything the statement says about an accepted namespace: byte form, serde form, (version, id)
/// form and the version-0 shorthand reproduce it.
fn ns_round_trips(cx: &mut Ctx, ns: &Namespace, expect: &[u8]) {
    if ns.as_bytes() != expect {
        cx.viol("as_bytes", "value", format!("bytes {:?} != {:?}", ns.as_bytes(), expect));
    }
    if ns.version() != expect[0] || ns.id() != &expect[1..] {
        cx.viol("version/id", "value", "version()/id() are not the slices of the byte form".into());
    }
    match Namespace::from_raw(ns.as_bytes()) {
        Ok(n2) if n2 == *ns => {}
        _ => cx.viol("from_raw", "round-trip", "from_raw(as_bytes()) differs".into()),
    }
    match catch(|| serde_json::to_string(ns).ok().and_then(|s| serde_json::from_str::<Namespace>(&s).ok())) {
        Ok(Some(n2)) if n2 == *ns => {}
        _ => cx.viol("serde", "round-trip", "serde round trip differs".into()),
    }
    match Namespace::new(ns.version(), ns.id()) {
        Ok(n2) if n2 == *ns => {}
        _ => cx.viol("new", "round-trip", "new(version(), id()) differs".into()),
    }
    if ns.version() == 0 {
        match ns.id_v0().map(Namespace::new_v0) {
            Some(Ok(n2)) if n2 == *ns => {}
            _ => cx.viol("new_v0", "round-trip", "new_v0(id_v0()) differs".into()),
        }
    } else if ns.id_v0().is_some() {
        cx.viol("id_v0", "value", "id_v0() on a namespace that is not version 0".into());
    }
}

fn ns_raw(cx: &mut Ctx) {
    let bytes = bytes_of(&cx.case["bytes"]);
    let ok = cx.case["ok"].as_u64().unwrap() == 1;
    match catch(|| Namespace::from_raw(&bytes)) {
        Err(p) => cx.viol("from_raw", "panic", p),
        Ok(r) => {
            if r.is_ok() != ok {
                cx.viol("from_raw", if ok { "rejected-legal" } else { "accepted-illegal" }, format!("from_raw({bytes:?}) -> {:?}", r.as_ref().map(|_| ())));
            } else if let Ok(ns) = r {
                ns_round_trips(cx, &ns, &bytes_of(&cx.case["value"]));
            }
        }
    }
    // the serde form is another construction from raw bytes
    let s = format!("\"{}\"", b64(&bytes));
    match catch(|| serde_json::from_str::<Namespace>(&s)) {
        Err(p) => cx.viol("serde", "panic", p),
        Ok(r) => {
            if r.is_ok() != ok {
                cx.viol("serde", if ok { "rejected-legal" } else { "accepted-illegal" }, format!("deserialize {s}"));
            } else if let Ok(ns) = r {
                if ns.as_bytes() != &bytes[..] {
                    cx.viol("serde", "value", "deserialized bytes differ".into());
                }
            }
        }
    }
    let nontrivial = cx.case["fam"] != "version" || bytes[0] == 0 || bytes[0] == 255;
    let key = format!("raw/{bytes:?}");
    cx.sum.case(cx.prop, if nontrivial { Some(key) } else { None }, || json!({"bytes": bytes, "ok": ok}));
}

fn ns_new(cx: &mut Ctx) {
    let v = cx.case["v"].as_u64().unwrap() as u8;
    let id = bytes_of(&cx.case["id"]);
    let ok = cx.case["ok"].as_u64().unwrap() == 1;
    let strict = cx.case["strict"].as_u64().unwrap();
    let value = bytes_of(&cx.case["value"]);
    let mut calls: Vec<(&str, Result<Result<Namespace, celestia_types::Error>, String>)> = vec![("new", catch(|| Namespace::new(v, &id)))];
    if v == 0 {
        calls.push(("new_v0", catch(|| Namespace::new_v0(&id))));
    }
    if v == 255 {
        calls.push(("new_v255", catch(|| Namespace::new_v255(&id))));
    }
    for (call, r) in calls {
        match r {
            Err(p) => cx.viol(call, "panic", p),
            Ok(r) => {
                // whatever is constructed must be a legal namespace (checked through from_raw, itself
                // compared with the spec on the ns_raw cases)
                if let Ok(ns) = &r {
                    if Namespace::from_raw(ns.as_bytes()).is_err() {
                        cx.viol(call, "constructed-illegal", format!("{call}({v}, {id:?}) built {:?}", ns.as_bytes()));
                    }
                }
                let same = r.is_ok() == ok && r.as_ref().map(|ns| ns.as_bytes() == &value[..]).unwrap_or(true);
                if !same {
                    let why = format!("{call}({v}, id of {} bytes) -> {:?}, model: ok={ok} {:?}", id.len(), r.as_ref().map(|n| n.as_bytes().to_vec()).map_err(|e| e.to_string()), value);
                    if strict >= 1 {
                        cx.viol(call, if r.is_ok() && !ok { "accepted-illegal" } else if ok && r.is_err() { "rejected-legal" } else { "value" }, why);
                    } else {
                        cx.drift(why);
                    }
                } else if let Ok(ns) = r {
                    if strict >= 1 {
                        ns_round_trips(cx, &ns, &value);
                    }
                }
            }
        }
    }
    cx.sum.case(cx.prop, Some(format!("new/{v}/{id:?}")), || json!({"v": v, "id_len": id.len(), "ok": ok}));
}

fn ns_pair(cx: &mut Ctx) {
    let (a, b) = (bytes_of(&cx.case["a"]), bytes_of(&cx.case["b"]));
    let (Ok(na), Ok(nb)) = (Namespace::from_raw(&a), Namespace::from_raw(&b)) else {
        return cx.viol("from_raw", "rejected-legal", "a namespace of the ordering table is rejected".into());
    };
    let cmp = cx.case["cmp"].as_u64().unwrap();
    let got = match na.cmp(&nb) {
        std::cmp::Ordering::Less => 0,
        std::cmp::Ordering::Equal => 1,
        std::cmp::Ordering::Greater => 2,
    };
    let consistent = (na < nb) == (got == 0) && (na == nb) == (got == 1) && (na > nb) == (got == 2) && na.partial_cmp(&nb) == Some(na.cmp(&nb));
    if got != cmp || !consistent {
        cx.viol("cmp", "order", format!("{a:?} vs {b:?}: code {got}, lexicographic {cmp}, consistent {consistent}"));
    }
    // the thresholds of the statement are the code's constants; the model carries their documented values
    if Namespace::MAX_PRIMARY_RESERVED.as_bytes() != &bytes_of(&cx.case["maxp"])[..] || Namespace::MIN_SECONDARY_RESERVED.as_bytes() != &bytes_of(&cx.case["mins"])[..] {
        cx.drift("reserved thresholds of the code differ from the model's".into());
    } else if na.is_reserved() != (cx.case["res_a"].as_u64().unwrap() == 1) {
        cx.viol("is_reserved", "reserved", format!("is_reserved({a:?}) = {}", na.is_reserved()));
    }
    cx.sum.case(cx.prop, if a != b { Some(format!("pair/{a:?}/{b:?}")) } else { None }, || json!({"a": a, "b": b, "cmp": cmp}));
}

// ------------------------------------------------------------------------------------------------

#[derive(Debug, PartialEq, Clone)]
struct Fields {
    h: u64,
    r: Option<u16>,
    cl: Option<u16>,
    ns: Option<Vec<u8>>,
}

fn expected_fields(case: &Value) -> Fields {
    let h = bytes_of(&case["h"]);
    let r = bytes_of(&case["r"]);
    let cl = bytes_of(&case["cl"]);
    let ns = bytes_of(&case["ns"]);
    Fields {
        h: u64::from_be_bytes(h.try_into().unwrap_or_else(|_| tool_error("height bytes"))),
        r: (r.len() == 2).then(|| u16::from_be_bytes([r[0], r[1]])),
        cl: (cl.len() == 2).then(|| u16::from_be_bytes([cl[0], cl[1]])),
        ns: (!ns.is_empty()).then_some(ns),
    }
}

enum AnyId {
    Eds(EdsId),
    Row(RowId),
    Sample(SampleId),
    Rnd(RowNamespaceDataId),
    Nd(NamespaceDataId),
}

impl AnyId {
    fn decode(k: &str, b: &[u8]) -> Result<AnyId, String> {
        match k {
            "eds" => EdsId::decode(b).map(AnyId::Eds).map_err(|e| e.to_string()),
            "row" => RowId::decode(b).map(AnyId::Row).map_err(|e| e.to_string()),
            "sample" => SampleId::decode(b).map(AnyId::Sample).map_err(|e| e.to_string()),
            "rnd" => RowNamespaceDataId::decode(b).map(AnyId::Rnd).map_err(|e| e.to_string()),
            "nd" => NamespaceDataId::decode(b).map(AnyId::Nd).map_err(|e| e.to_string()),
            x => tool_error(&format!("unknown id kind {x}")),
        }
    }
    fn new(k: &str, f: &Fields) -> Result<AnyId, String> {
        let ns = || Namespace::from_raw(f.ns.as_ref().unwrap()).map_err(|e| e.to_string());
        match k {
            "eds" => EdsId::new(f.h).map(AnyId::Eds).map_err(|e| e.to_string()),
            "row" => RowId::new(f.r.unwrap(), f.h).map(AnyId::Row).map_err(|e| e.to_string()),
            "sample" => SampleId::new(f.r.unwrap(), f.cl.unwrap(), f.h).map(AnyId::Sample).map_err(|e| e.to_string()),
            "rnd" => RowNamespaceDataId::new(ns()?, f.r.unwrap(), f.h).map(AnyId::Rnd).map_err(|e| e.to_string()),
            "nd" => NamespaceDataId::new(ns()?, f.h).map(AnyId::Nd).map_err(|e| e.to_string()),
            x => tool_error(&format!("unknown id kind {x}")),
        }
    }
    fn from_cid(k: &str, cid: CidGeneric<64>) -> Result<AnyId, String> {
        match k {
            "row" => RowId::try_from(cid).map(AnyId::Row).map_err(|e| e.to_string()),
            "sample" => {
                let by_ref = SampleId::try_from(&cid).map_err(|e| e.to_string());
                let by_val = SampleId::try_from(cid).map_err(|e| e.to_string());
                if by_ref.is_ok() != by_val.is_ok() || by_ref.as_ref().ok() != by_val.as_ref().ok() {
                    return Err("TryFrom<&Cid> and TryFrom<Cid> disagree".into());
                }
                by_val.map(AnyId::Sample)
            }
            "rnd" => RowNamespaceDataId::try_from(cid).map(AnyId::Rnd).map_err(|e| e.to_string()),
            x => tool_error(&format!("no cid for kind {x}")),
        }
    }
    fn fields(&self) -> Fields {
        match self {
            AnyId::Eds(i) => Fields { h: i.block_height(), r: None, cl: None, ns: None },
            AnyId::Row(i) => Fields { h: i.block_height(), r: Some(i.index()), cl: None, ns: None },
            AnyId::Sample(i) => Fields { h: i.block_height(), r: Some(i.row_index()), cl: Some(i.column_index()), ns: None },
            AnyId::Rnd(i) => Fields { h: i.block_height(), r: Some(i.row_index()), cl: None, ns: Some(i.namespace().as_bytes().to_vec()) },
            AnyId::Nd(i) => Fields { h: i.block_height(), r: None, cl: None, ns: Some(i.namespace().as_bytes().to_vec()) },
        }
    }
    fn encode(&self) -> Vec<u8> {
        let mut b = BytesMut::new();
        match self {
            AnyId::Eds(i) => i.encode(&mut b),
            AnyId::Row(i) => i.encode(&mut b),
            AnyId::Sample(i) => i.encode(&mut b),
            AnyId::Rnd(i) => i.encode(&mut b),
            AnyId::Nd(i) => i.encode(&mut b),
        }
        b.to_vec()
    }
    /// (codec, multihash code, digest, serialized cid)
    fn cid(&self) -> Option<(u64, u64, Vec<u8>, Vec<u8>)> {
        fn parts<const S: usize>(c: CidGeneric<S>) -> (u64, u64, Vec<u8>, Vec<u8>) {
            (c.codec(), c.hash().code(), c.hash().digest().to_vec(), c.to_bytes())
        }
        match self {
            AnyId::Row(i) => Some(parts(CidGeneric::from(*i))),
            AnyId::Sample(i) => Some(parts(CidGeneric::from(*i))),
            AnyId::Rnd(i) => Some(parts(CidGeneric::from(*i))),
            _ => None,
        }
    }
}

/// decode o encode = id, constructor agrees, CID conversions (where the kind has one) are inverse.
fn id_round_trips(cx: &mut Ctx, k: &str, id: &AnyId, bytes: &[u8], expect: &Fields) {
    if id.fields() != *expect {
        cx.viol("decode", "value", format!("decoded {:?}, expected {:?}", id.fields(), expect));
    }
    if id.encode() != bytes {
        cx.viol("encode", "round-trip", "encode(decode(bytes)) != bytes".into());
    }
    match AnyId::new(k, expect) {
        Ok(n) if n.fields() == *expect && n.encode() == bytes => {}
        Ok(_) => cx.viol("new", "round-trip", "constructor builds a different id".into()),
        Err(e) => cx.viol("new", "rejected-legal", format!("constructor rejects a valid id: {e}")),
    }
    if let Some((codec, code, digest, ser)) = id.cid() {
        if digest != bytes {
            cx.viol("cid", "round-trip", "cid digest is not the id bytes".into());
        }
        match catch(|| CidGeneric::<64>::read_bytes(&ser[..]).map_err(|e| e.to_string()).and_then(|c| AnyId::from_cid(k, c))) {
            Ok(Ok(back)) if back.fields() == *expect => {}
            other => cx.viol("cid", "round-trip", format!("id -> cid -> bytes -> cid -> id fails: {:?}", other.map(|r| r.map(|i| i.fields())))),
        }
        if let (Some(c), Some(m)) = (cx.case["codec"].as_u64(), cx.case["code"].as_u64()) {
            if c != codec || m != code {
                cx.viol("cid", "codec", format!("cid of the id has codec {codec:#x} / code {code:#x}, statement table {c:#x} / {m:#x}"));
            }
        }
    }
}

fn id_dec(cx: &mut Ctx) {
    let k = cx.case["k"].as_str().unwrap().to_string();
    let bytes = bytes_of(&cx.case["bytes"]);
    let ok = cx.case["ok"].as_u64().unwrap() == 1;
    match catch(|| AnyId::decode(&k, &bytes)) {
        Err(p) => cx.viol("decode", "panic", p),
        Ok(r) => {
            if r.is_ok() != ok {
                cx.viol("decode", if ok { "rejected-legal" } else { "accepted-illegal" }, format!("{k}::decode({} bytes) -> {:?}", bytes.len(), r.as_ref().map(|i| i.fields())));
            } else if let Ok(id) = r {
                let f = expected_fields(cx.case);
                id_round_trips(cx, &k, &id, &bytes, &f);
            }
        }
    }
    // zero height: the constructor refuses it as well
    if cx.case["fam"] == "fields" && bytes[..8].iter().all(|b| *b == 0) {
        let ns = if k == "rnd" { Some(bytes[10..].to_vec()) } else if k == "nd" { Some(bytes[8..].to_vec()) } else { None };
        if ns.as_ref().map(|n| Namespace::from_raw(n).is_ok()).unwrap_or(true) {
            let f = Fields { h: 0, r: Some(1), cl: Some(1), ns };
            if AnyId::new(&k, &f).is_ok() {
                cx.viol("new", "accepted-illegal", format!("{k} constructor accepts height 0"));
            }
        }
    }
    cx.sum.case(cx.prop, Some(format!("dec/{k}/{bytes:?}")), || json!({"kind": k, "len": bytes.len(), "ok": ok}));
}

fn id_cid(cx: &mut Ctx) {
    let k = cx.case["k"].as_str().unwrap().to_string();
    let bytes = bytes_of(&cx.case["bytes"]);
    let ok = cx.case["ok"].as_u64().unwrap() == 1;
    let codec = cx.case["codec"].as_u64().unwrap();
    let code = cx.case["code"].as_u64().unwrap();
    let mh = Multihash::<64>::wrap(code, &bytes).unwrap_or_else(|e| tool_error(&format!("multihash wrap: {e}")));
    let cid = CidGeneric::<64>::new_v1(codec, mh);
    match catch(|| AnyId::from_cid(&k, cid)) {
        Err(p) => cx.viol("try_from_cid", "panic", p),
        Ok(r) => {
            if r.is_ok() != ok {
                cx.viol("try_from_cid", if ok { "rejected-legal" } else { "accepted-illegal" }, format!("{k} from cid(codec {codec:#x}, code {code:#x}, {} bytes) -> {:?}", bytes.len(), r.as_ref().map(|i| i.fields())));
            } else if let Ok(id) = r {
                let f = expected_fields(cx.case);
                id_round_trips(cx, &k, &id, &bytes, &f);
            }
        }
    }
    cx.sum.case(cx.prop, Some(format!("cid/{k}/{codec}/{code}/{bytes:?}")), || json!({"kind": k, "codec": codec, "code": code, "len": bytes.len(), "ok": ok}));
}

pub fn replay(args: &Args) {
    let cases = read_cases(args.pos(2));
    let want = args.opt("prop").unwrap_or("all").to_string();
    let mut sum = Summary::new("formats");
    for case in &cases {
        let kind = case["kind"].as_str().unwrap();
        let prop = if kind.starts_with("ns_") { "C14" } else { "C15" };
        if want != "all" && want != prop {
            continue;
        }
        let mut cx = Ctx { sum: &mut sum, prop, case };
        match kind {
            "ns_raw" => ns_raw(&mut cx),
            "ns_new" => ns_new(&mut cx),
            "ns_pair" => ns_pair(&mut cx),
            "id_dec" => id_dec(&mut cx),
            "id_cid" => id_cid(&mut cx),
            x => tool_error(&format!("unknown case kind {x}")),
        }
    }
    sum.write(args.opt("summary").unwrap_or_else(|| tool_error("--summary")));
}
