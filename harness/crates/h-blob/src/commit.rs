//! C12: replay of spec/Commitment.tla cases.  The commitment is recomputed from the TLC-emitted
//! merkle-mountain-range partition with an own share splitter, own NMT node hashing (sha2) and the
//! tendermint RFC-6962 root, independent of types/src/blob/commitment.rs, and compared with
//! Commitment::from_blob / from_shares / Blob::new; Blob::validate is run on the tamperings the spec lists.

use crate::blob::{app_version, rand_data, rand_ns, rand_signer};
use celestia_types::nmt::Namespace;
use celestia_types::state::{AccAddress, AddressTrait};
use celestia_types::{Blob, Commitment};
use h_common::{catch, read_cases, tool_error, Args, Summary};
use rand::{rngs::StdRng, Rng, SeedableRng};
use serde_json::{json, Value};
use sha2::{Digest, Sha256};

const SHARE: usize = 512;

/// Own sparse-share splitter from the layout constants emitted by the spec.
fn split(ns: &Namespace, data: &[u8], signer: Option<&AccAddress>, firstcap: usize, contcap: usize) -> Vec<Vec<u8>> {
    let version: u8 = if signer.is_some() { 1 } else { 0 };
    let mut out = vec![];
    let mut off = 0;
    while off < data.len() {
        let first = off == 0;
        let mut sh = Vec::with_capacity(SHARE);
        sh.extend_from_slice(ns.as_bytes());
        sh.push((version << 1) | first as u8);
        let cap = if first {
            sh.extend_from_slice(&(data.len() as u32).to_be_bytes());
            if let Some(s) = signer {
                sh.extend_from_slice(s.as_bytes());
            }
            firstcap
        } else {
            contcap
        };
        let take = cap.min(data.len() - off);
        sh.extend_from_slice(&data[off..off + take]);
        off += take;
        if sh.len() + (cap - take) != SHARE {
            tool_error("layout constants do not add up to the share size");
        }
        sh.resize(SHARE, 0);
        out.push(sh);
    }
    out
}

/// NMT root (90 bytes) of a perfect tree of leaves that all carry namespace `ns`.
fn nmt_root(ns: &[u8], leaves: &[Vec<u8>]) -> Vec<u8> {
    fn node(ns: &[u8], digest: &[u8]) -> Vec<u8> {
        [ns, ns, digest].concat()
    }
    if leaves.len() == 1 {
        let mut h = Sha256::new();
        h.update([0u8]);
        h.update(ns);
        h.update(&leaves[0]);
        return node(ns, &h.finalize());
    }
    let half = leaves.len() / 2;
    let l = nmt_root(ns, &leaves[..half]);
    let r = nmt_root(ns, &leaves[half..]);
    let mut h = Sha256::new();
    h.update([1u8]);
    h.update(&l);
    h.update(&r);
    node(ns, &h.finalize())
}

fn independent_commitment(ns: &Namespace, shares: &[Vec<u8>], sizes: &[usize]) -> [u8; 32] {
    let mut roots = vec![];
    let mut at = 0;
    for sz in sizes {
        roots.push(nmt_root(ns.as_bytes(), &shares[at..at + sz]));
        at += sz;
    }
    if at != shares.len() {
        tool_error("partition does not cover the shares");
    }
    tendermint::merkle::simple_hash_from_byte_vectors::<tendermint::crypto::default::Sha256>(&roots)
}

fn viol(sum: &mut Summary, call: &str, kind: &str, case: &Value, s: usize, why: String) {
    let slim = json!({"n": case["n"], "t": case["t"], "w": case["w"], "sizes": case["sizes"], "lens": case["lens"],
        "firstcap": case["firstcap"], "contcap": case["contcap"], "tampers": case["tampers"]});
    crate::util::violation(sum, "C12", json!({"class": {"call": call, "kind": kind, "signer": s}, "case": slim, "why": why}));
}

pub fn replay(args: &Args) {
    let cases = read_cases(args.pos(2));
    let mut rng = StdRng::seed_from_u64(args.opt_u64("seed", 1));
    let mut sum = Summary::new("commitment");
    for case in &cases {
        let n = case["n"].as_u64().unwrap() as usize;
        let sizes: Vec<usize> = case["sizes"].as_array().unwrap().iter().map(|x| x.as_u64().unwrap() as usize).collect();
        let contcap = case["contcap"].as_u64().unwrap() as usize;
        for s in 0..2usize {
            let (lo, hi) = (case["lens"][s][0].as_u64().unwrap() as usize, case["lens"][s][1].as_u64().unwrap() as usize);
            let len = match rng.gen_range(0..3) {
                0 => lo,
                1 => hi,
                _ => rng.gen_range(lo..=hi),
            };
            let firstcap = case["firstcap"][s].as_u64().unwrap() as usize;
            let ns = rand_ns(&mut rng);
            let data = rand_data(len, &mut rng);
            let signer = if s == 1 { Some(rand_signer(&mut rng)) } else { None };
            let app = app_version(s == 1, &mut rng);
            let own_shares = split(&ns, &data, signer.as_ref(), firstcap, contcap);
            if own_shares.len() != n {
                tool_error(&format!("own splitter produced {} shares for a case of {n}", own_shares.len()));
            }
            let expect = independent_commitment(&ns, &own_shares, &sizes);

            // Commitment::from_blob
            match catch(|| Commitment::from_blob(ns, &data, s as u8, signer.as_ref(), app)) {
                Ok(Ok(c)) if *c.hash() == expect => {}
                Ok(Ok(_)) => viol(&mut sum, "from_blob", "commitment-mismatch", case, s, format!("from_blob differs from the independent commitment for {n} shares (len {len}, app {app:?})")),
                Ok(Err(e)) => viol(&mut sum, "from_blob", "error", case, s, format!("{e}")),
                Err(p) => viol(&mut sum, "from_blob", "panic", case, s, p),
            }
            // Blob::new and from_shares over the blob's own shares
            let blob = match catch(|| Blob::new(ns, data.clone(), signer, app)) {
                Ok(Ok(b)) => b,
                other => {
                    viol(&mut sum, "new", "error", case, s, format!("Blob::new failed: {:?}", other.map(|r| r.map(|_| ()))));
                    continue;
                }
            };
            if *blob.commitment.hash() != expect {
                viol(&mut sum, "new", "commitment-mismatch", case, s, format!("Blob::new commitment differs for {n} shares"));
            }
            match catch(|| blob.to_shares().and_then(|sh| Commitment::from_shares(ns, &sh, app))) {
                Ok(Ok(c)) if *c.hash() == expect => {}
                Ok(Ok(_)) => viol(&mut sum, "from_shares", "commitment-mismatch", case, s, format!("from_shares differs for {n} shares")),
                Ok(Err(e)) => viol(&mut sum, "from_shares", "error", case, s, format!("{e}")),
                Err(p) => viol(&mut sum, "from_shares", "panic", case, s, p),
            }
            // Blob::validate on the tamperings listed by the spec (all of them for small blobs)
            let tampers = case["tampers"].as_array().unwrap();
            let pick: Vec<usize> = if n <= 600 { (0..tampers.len()).collect() } else { vec![0, rng.gen_range(1..tampers.len()), rng.gen_range(1..tampers.len())] };
            for ti in pick {
                let name = tampers[ti][0].as_str().unwrap();
                let verdict = tampers[ti][1].as_str().unwrap();
                let mut b = blob.clone();
                match name {
                    "none" => {}
                    "data_flip" => {
                        let k = rng.gen_range(0..b.data.len());
                        b.data[k] ^= 1 << rng.gen_range(0..8)
                    }
                    "data_append" => b.data.push(0),
                    "data_truncate" => {
                        b.data.pop();
                    }
                    "namespace" => b.namespace = rand_ns(&mut rng),
                    "signer" => b.signer = Some(rand_signer(&mut rng)),
                    "share_version" => b.share_version ^= 1,
                    "commitment" => {
                        let mut h = *b.commitment.hash();
                        h[rng.gen_range(0..32)] ^= 1 << rng.gen_range(0..8);
                        b.commitment = Commitment::new(h)
                    }
                    x => tool_error(&format!("unknown tampering {x}")),
                }
                let obs = catch(|| b.validate(app));
                let bad = match (verdict, &obs) {
                    ("A", Ok(Ok(()))) | ("R", Ok(Err(_))) => None,
                    ("A", Ok(Err(e))) => Some(("rejected-untouched", format!("{e}"))),
                    ("R", Ok(Ok(()))) => Some(("accepted-tampered", String::new())),
                    (_, Err(p)) => Some(("panic", p.clone())),
                    _ => tool_error("bad verdict"),
                };
                if let Some((kind, why)) = bad {
                    crate::util::violation(&mut sum, "C12", json!({"class": {"call": "validate", "kind": kind, "tamper": name, "signer": s},
                        "case": {"n": case["n"], "t": case["t"], "w": case["w"], "sizes": case["sizes"], "lens": case["lens"], "firstcap": case["firstcap"], "contcap": case["contcap"], "tampers": [tampers[ti]]},
                        "why": format!("validate after tampering '{name}' on a blob of {n} shares: {kind} {why}")}));
                }
            }
            sum.case("C12", Some(format!("{n}/{s}")), || json!({"shares": n, "signer": s, "len": len, "width": case["w"], "trees": sizes.len()}));
        }
    }
    sum.write(args.opt("summary").unwrap_or_else(|| tool_error("--summary")));
}
