//! Conformance harness binding lumina-node to the TLA+ specifications.
//!
//!   h-node replay <model> <cases.ndjson> --summary <out.json> [--n N]
//!   h-node record <model> --seed S --out <trace.ndjson> --summary <out.json> [--runs K] [--ops K]

use h_common::{tool_error, Args};

mod daser;
mod pruner;
mod ranges;
mod recstore;
mod session;
mod store;
mod subs;
mod syncer;
mod syncrange;
mod windowsearch;

fn main() {
    let args = Args::from_env();
    let mode = args.pos(0).to_string();
    let model = args.pos(1).to_string();
    h_common::quiet_panics();
    match (mode.as_str(), model.as_str()) {
        ("replay", "ranges") => ranges::replay(&args),
        ("record", "ranges") => ranges::record(&args),
        ("replay", "syncrange") => syncrange::replay(&args),
        ("replay", "windowsearch") => windowsearch::replay(&args),
        ("record", "session") => session::record(&args),
        ("replay", "vrange") => session::replay_vrange(&args),
        ("record", "subs") => subs::record(&args),
        ("replay", "subs") => subs::replay(&args),
        ("record", "syncer") => syncer::record(&args),
        ("replay", "syncer") => syncer::replay(&args),
        ("record", "syncer-slow") => syncer::record_slow(&args),
        ("record", "syncer-aging") => syncer::record_aging(&args),
        ("record", "daser") => daser::record(&args),
        ("record", "daser-aging") => daser::record_aging(&args),
        ("replay", "daser") => daser::replay(&args),
        ("record", "pruner") => pruner::record(&args),
        ("record", "store") => store::record(&args),
        _ => tool_error(&format!("unknown mode/model {mode}/{model}")),
    }
}
