//! C24: replay of the TLC-enumerated (synced, head, limit) table on the real
//! `calculate_range_to_fetch`, under the identity embedding and the top-of-u64 embedding
//! (all heights shifted by BIG, with 1..=BIG synced).

use h_common::{catch, read_cases, Args, Summary};
use lumina_node::verif::workers::calculate_range_to_fetch;
use serde_json::json;
use std::ops::RangeInclusive;

fn runs_of_mask(mask: u64) -> Vec<(u64, u64)> {
    let mut out = vec![];
    let mut h = 1u64;
    while h <= 63 {
        if mask & (1 << (h - 1)) != 0 {
            let lo = h;
            while h <= 63 && mask & (1 << (h - 1)) != 0 {
                h += 1;
            }
            out.push((lo, h - 1));
        } else {
            h += 1;
        }
    }
    out
}

pub fn replay(args: &Args) {
    let cases = read_cases(args.pos(2));
    let n = args.opt_u64("n", 7);
    let mut sum = Summary::new("syncrange");
    let big = u64::MAX - (n + 1);
    for c in &cases {
        let s = c["s"].as_u64().unwrap();
        let head = c["head"].as_u64().unwrap();
        let limit = c["limit"].as_u64().unwrap();
        let exact = runs_of_mask(c["exact"].as_u64().unwrap());
        let dom = c["dom"].as_u64().unwrap() == 1;
        let allowed: Vec<(u64, u64)> =
            c["allowed"].as_array().unwrap().iter().map(|p| (p[0].as_u64().unwrap(), p[1].as_u64().unwrap())).collect();
        let runs = runs_of_mask(s);
        for (ei, shift) in [0u64, big].into_iter().enumerate() {
            let mut synced: Vec<RangeInclusive<u64>> = vec![];
            if shift > 0 {
                // 1..=BIG is synced; merge with a model run starting at 1
                if runs.first().is_some_and(|r| r.0 == 1) {
                    synced.push(1..=runs[0].1 + shift);
                    synced.extend(runs[1..].iter().map(|r| r.0 + shift..=r.1 + shift));
                } else {
                    synced.push(1..=shift);
                    synced.extend(runs.iter().map(|r| r.0 + shift..=r.1 + shift));
                }
            } else {
                synced.extend(runs.iter().map(|r| r.0..=r.1));
            }
            // limits: model value, and for the top embedding also "huge"
            let h = head + shift;
            let key = if dom && runs.len() >= 2 { Some(format!("{s}/{head}/{limit}/{ei}")) } else { None };
            sum.case("C24", key, || json!({"case": c, "embedding": if shift == 0 { "identity" } else { "top-of-u64" }}));
            let synced2 = synced.clone();
            let got = catch(move || calculate_range_to_fetch(h, &synced2, limit));
            let got = match got {
                Err(p) => {
                    sum.violation("C24", json!({"case": c, "embedding": ei, "why": format!("panic: {p}"), "class": {"kind": "panic"}}));
                    continue;
                }
                Ok(r) => r,
            };
            // back to model coordinates
            let model: Option<(u64, u64)> = if got.is_empty() {
                Some((0, 0))
            } else if *got.start() > shift {
                Some((*got.start() - shift, *got.end() - shift))
            } else {
                None
            };
            let Some(m) = model else {
                sum.violation("C24", json!({"case": c, "embedding": ei, "why": format!("batch {got:?} reaches into the synced prefix"), "class": {"kind": "in-synced"}}));
                continue;
            };
            if dom {
                if !allowed.contains(&m) {
                    sum.violation("C24", json!({"case": c, "embedding": ei,
                        "why": format!("batch {m:?} (model coordinates) is not among the batches the property allows {allowed:?}"),
                        "class": {"kind": "not-allowed", "dom": 1}}));
                } else {
                    let e = if exact.is_empty() { (0, 0) } else { exact[0] };
                    if m != e {
                        sum.drift("C24", json!({"case": c, "got": [m.0, m.1], "model": [e.0, e.1]}));
                    }
                }
            } else {
                // outside the worker's domain (head below the synced top): weak relation only
                let bad = m != (0, 0)
                    && (runs.iter().any(|r| r.0 <= m.1 && m.0 <= r.1) || m.1 - m.0 + 1 > limit || m.0 == 0);
                if bad {
                    sum.violation("C24", json!({"case": c, "embedding": ei, "why": format!("batch {m:?} overlaps synced / exceeds limit"), "class": {"kind": "weak", "dom": 0}}));
                }
            }
        }
    }
    sum.write(args.opt("summary").unwrap_or("/dev/stdout"));
}
