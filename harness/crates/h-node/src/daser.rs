//! C33 / C34: the real `Daser` worker over the mocked P2p, a recording store and a scripted
//! environment (sample answers / time-outs, new heads, back-filled headers, pruner messages,
//! removals, disconnects).  Everything observable is logged for spec/Trace_Daser.tla.

use std::sync::{Arc, Mutex};
use std::time::Duration;

use bytes::BytesMut;
use celestia_types::consts::appconsts::AppVersion;
use celestia_types::sample::{Sample, SampleId};
use celestia_types::test_utils::{generate_dummy_eds, ExtendedHeaderGenerator};
use celestia_types::{AxisType, DataAvailabilityHeader, ExtendedDataSquare, ExtendedHeader};
use cid::Cid;
use h_common::{Args, Summary, TraceWriter};
use lumina_node::events::NodeEvent;
use lumina_node::store::{InMemoryStore, Store};
use lumina_node::test_utils::MockP2pHandle;
use lumina_node::verif::workers::{self as w, Events, MockCmd, VDaser};
use prost::Message;
use rand::rngs::StdRng;
use rand::seq::SliceRandom;
use rand::{Rng, SeedableRng};
use serde_json::{json, Value};
use tendermint::Time;
use tokio::sync::oneshot;

use crate::recstore::{Call, RecStore};
use crate::session::settle;

type CidResponder = oneshot::Sender<Result<Vec<u8>, lumina_node::node::P2pError>>;
const DELTA: u64 = 100;

struct Shared {
    handle: MockP2pHandle,
    pending: Vec<(u64, u16, u16, Cid, CidResponder)>,
    /// responders that are never answered (a dropped responder would look like a dead P2p worker)
    graveyard: Vec<CidResponder>,
    log: Vec<Value>,
    sub: Option<lumina_node::events::EventSubscriber>,
    n_started: u64,
    n_timeout: u64,
    fatal: bool,
}

/// Move every queued node event into the log.  Called together with `drain_cmds` from the
/// store hook, so that everything the worker emitted before a store call is logged before it.
fn drain_events(sh: &mut Shared) {
    let Some(mut sub) = sh.sub.take() else { return };
    while let Ok(info) = sub.try_recv() {
        match info.event {
            NodeEvent::SamplingStarted { height, square_width, shares } => {
                sh.n_started += 1;
                let s: Vec<Value> = shares.iter().map(|(r, c)| json!([r, c])).collect();
                sh.log.push(json!({"name": "started", "h": height, "w": square_width, "shares": s}));
            }
            NodeEvent::ShareSamplingResult { height, row, column, timed_out, .. } => {
                if timed_out {
                    sh.log.push(json!({"name": "share_to", "h": height, "r": row, "c": column}));
                }
            }
            NodeEvent::SamplingResult { height, timed_out, .. } => {
                if timed_out {
                    sh.n_timeout += 1;
                }
                sh.log.push(json!({"name": "result", "h": height, "timed_out": timed_out as u8}));
            }
            NodeEvent::FatalDaserError { error } => {
                sh.log.push(json!({"name": "fatal", "why": error}));
                sh.fatal = true;
            }
            _ => {}
        }
    }
    sh.sub = Some(sub);
}

fn bury(sh: &mut Shared) {
    let p = std::mem::take(&mut sh.pending);
    sh.graveyard.extend(p.into_iter().map(|x| x.4));
}

fn sid(cid: &Cid) -> Option<(u64, u16, u16)> {
    let id = SampleId::try_from(cid).ok()?;
    Some((id.block_height(), id.row_index(), id.column_index()))
}

/// Move every queued P2p command into the log (in arrival order).
fn drain_cmds(sh: &mut Shared) {
    while let Some(cmd) = w::try_recv_cmd(&mut sh.handle) {
        if let MockCmd::GetShwapCid { cid, respond_to } = cmd {
            match sid(&cid) {
                Some((h, r, c)) => {
                    sh.log.push(json!({"name": "req", "h": h, "r": r, "c": c}));
                    sh.pending.push((h, r, c, cid, respond_to));
                }
                None => sh.log.push(json!({"name": "badreq"})),
            }
        }
    }
}

fn block_bytes(eds: &ExtendedDataSquare, cid: &Cid, r: u16, c: u16) -> Vec<u8> {
    let sample = Sample::new(r, c, AxisType::Row, eds).unwrap();
    let mut b = BytesMut::new();
    sample.encode(&mut b);
    celestia_proto::bitswap::Block { cid: cid.to_bytes(), container: b.to_vec() }.encode_to_vec()
}

pub fn record(args: &Args) {
    let seed = args.opt_u64("seed", 1);
    let runs = args.opt_u64("runs", 10);
    let n = args.opt_u64("n", 24);
    let lim = args.opt_u64("lim", 2) as usize;
    let extra = args.opt_u64("extra", 1) as usize;
    let k = args.opt_u64("wsamp", 12);
    let steps = args.opt_u64("steps", 150);
    let widths: Vec<usize> = args.opt("widths").unwrap_or("2,4,8").split(',').map(|x| x.parse().unwrap()).collect();
    let mut tw = TraceWriter::create(args.opt("out").expect("--out"));
    let mut sum = Summary::new("daser-record");
    let mut rng = StdRng::seed_from_u64(seed ^ 0xda5e);
    h_common::QUIET_ALL.store(true, std::sync::atomic::Ordering::Relaxed);
    let rt = tokio::runtime::Builder::new_current_thread().enable_all().start_paused(true).build().unwrap();
    rt.block_on(async {
        for run in 0..runs {
            let now = Time::now();
            let base = (now - Duration::from_secs(n * DELTA)).unwrap();
            let mut g = ExtendedHeaderGenerator::new();
            g.set_time(base, Duration::from_secs(DELTA));
            let mut chain: Vec<ExtendedHeader> = vec![];
            let mut edss: Vec<ExtendedDataSquare> = vec![];
            for _ in 0..n {
                let wd = *widths.choose(&mut rng).unwrap();
                let eds = generate_dummy_eds(wd, AppVersion::V2);
                let dah = DataAvailabilityHeader::from_eds(&eds);
                chain.push(g.next_with_dah(dah));
                edss.push(eds);
            }
            let (p2p, handle) = w::mocked_p2p();
            let shared = Arc::new(Mutex::new(Shared { handle, pending: vec![], graveyard: vec![], log: vec![], sub: None, n_started: 0, n_timeout: 0, fatal: false }));
            let sh2 = shared.clone();
            let hook: crate::recstore::Hook = Arc::new(move |c: Call<'_>| {
                let mut sh = sh2.lock().unwrap();
                // whatever was emitted / requested before this store call comes first
                drain_events(&mut sh);
                drain_cmds(&mut sh);
                match c {
                    Call::Meta(h, cids, ok) => {
                        let shares: Vec<Value> = cids.iter().map(|c| match sid(c) {
                            Some((hh, r, cc)) if hh == h => json!([r, cc]),
                            _ => json!([65535, 65535]),
                        }).collect();
                        sh.log.push(json!({"name": "meta", "h": h, "shares": shares, "ok": ok as u8}));
                    }
                    Call::Mark(h, ok) => sh.log.push(json!({"name": "mark", "h": h, "ok": ok as u8})),
                    _ => {}
                }
            });
            let store = Arc::new(RecStore::new(InMemoryStore::new(), hook));
            let events = Events::new();
            shared.lock().unwrap().sub = Some(events.subscribe());
            let wsamp = Duration::from_secs((k - 1) * DELTA + DELTA / 2);
            tw.emit(json!({"name": "reset", "run": run, "now": n}));
            // prefill a contiguous range ending below n
            let mut top = rng.gen_range(n / 2..n - 2);
            let mut bottom = rng.gen_range((top.saturating_sub(10)).max(1)..=top);
            store.inner.insert(chain[(bottom - 1) as usize..top as usize].to_vec()).await.unwrap();
            for h in bottom..=top {
                tw.emit(json!({"name": "insert", "h": h, "w": edss[(h - 1) as usize].square_width()}));
                if rng.gen_bool(0.3) {
                    store.inner.mark_as_sampled(h).await.unwrap();
                    tw.emit(json!({"name": "premark", "h": h}));
                }
            }
            let daser = VDaser::start(&p2p, store.clone(), &events, wsamp, lim, extra).unwrap();
            let mut connected = false;
            let mut promised: Vec<u64> = vec![];
            let (mut n_want, mut n_disc) = (0u64, 0u64);
            let flush = |tw: &mut TraceWriter, shared: &Arc<Mutex<Shared>>| -> usize {
                let mut sh = shared.lock().unwrap();
                drain_events(&mut sh);
                drain_cmds(&mut sh);
                let n = sh.log.len();
                for v in sh.log.drain(..) {
                    tw.emit(v);
                }
                n
            };
            for step in 0..steps + 200 {
                let adversarial = step < steps;
                // quiescence: the P2p command channel holds 16 entries only, so a block's requests
                // may arrive in several portions; act only when nothing more comes
                loop {
                    settle().await;
                    if flush(&mut tw, &shared) == 0 {
                        break;
                    }
                }
                let fatal = shared.lock().unwrap().fatal;
                if fatal {
                    break;
                }
                let n_pending = shared.lock().unwrap().pending.len();
                if !adversarial {
                    // honest tail: connect and answer everything
                    if !connected {
                        shared.lock().unwrap().handle.announce_peer_connected();
                        connected = true;
                        tw.emit(json!({"name": "connect"}));
                        continue;
                    }
                    if n_pending == 0 {
                        if step > steps + 20 {
                            break;
                        }
                        continue;
                    }
                }
                let choice = rng.gen_range(0..100);
                if n_pending > 0 && (choice < 55 || !adversarial) {
                    // answer one pending sample request
                    let (h, r, c, cid, tx) = {
                        let mut sh = shared.lock().unwrap();
                        let i = rng.gen_range(0..sh.pending.len());
                        sh.pending.swap_remove(i)
                    };
                    if adversarial && rng.gen_bool(0.006) {
                        // a malformed block (not a time-out): the share was NOT retrieved; the worker treats
                        // this as fatal.  Whatever it does, the block must not be marked sampled.
                        tw.emit(json!({"name": "bad", "h": h, "r": r, "c": c}));
                        let _ = tx.send(Ok(vec![0xde, 0xad, 0xbe, 0xef]));
                        // serve every other share of that block honestly: if the worker survived the bad
                        // answer it must still not mark the block
                        for _ in 0..60 {
                            settle().await;
                            flush(&mut tw, &shared);
                            let next = {
                                let mut sh = shared.lock().unwrap();
                                sh.pending.iter().position(|x| x.0 == h).map(|i| sh.pending.swap_remove(i))
                            };
                            if let Some((hh, r2, c2, cid2, tx2)) = next {
                                tw.emit(json!({"name": "ans", "h": hh, "r": r2, "c": c2}));
                                let _ = tx2.send(Ok(block_bytes(&edss[(hh - 1) as usize], &cid2, r2, c2)));
                            }
                        }
                        break;
                    }
                    tw.emit(json!({"name": "ans", "h": h, "r": r, "c": c}));
                    let _ = tx.send(Ok(block_bytes(&edss[(h - 1) as usize], &cid, r, c)));
                    continue;
                }
                match choice {
                    55..=59 if n_pending > 0 => {
                        // let every unanswered request time out (virtual time)
                        {
                            let mut sh = shared.lock().unwrap();
                            bury(&mut sh);
                        }
                        // advance virtual time in steps smaller than the minimal sample timeout (10 s),
                        // logging after each step, so that requests and their time-outs stay ordered
                        let mut t = 0;
                        while t < n * DELTA + 1000 {
                            tokio::time::sleep(Duration::from_secs(5)).await;
                            t += 5;
                            flush(&mut tw, &shared);
                            bury(&mut shared.lock().unwrap());
                        }
                    }
                    60..=69 => {
                        if !connected {
                            shared.lock().unwrap().handle.announce_peer_connected();
                            connected = true;
                            tw.emit(json!({"name": "connect"}));
                        } else if rng.gen_bool(0.2) {
                            shared.lock().unwrap().handle.announce_all_peers_disconnected();
                            bury(&mut shared.lock().unwrap());
                            connected = false;
                            n_disc += 1;
                            tw.emit(json!({"name": "disconnect"}));
                        }
                    }
                    70..=79 if top < n => {
                        // new head
                        top += 1;
                        store.inner.insert(chain[(top - 1) as usize].clone()).await.unwrap();
                        tw.emit(json!({"name": "insert", "h": top, "w": edss[(top - 1) as usize].square_width()}));
                    }
                    80..=84 if bottom > 1 => {
                        // back-filled header below the stored range
                        bottom -= 1;
                        store.inner.insert(chain[(bottom - 1) as usize].clone()).await.unwrap();
                        tw.emit(json!({"name": "insert", "h": bottom, "w": edss[(bottom - 1) as usize].square_width()}));
                    }
                    85..=92 => {
                        // pruner asks for permission
                        let stored = store.inner.get_stored_header_ranges().await.unwrap();
                        let hs: Vec<u64> = stored.as_ref().iter().flat_map(|r| r.clone()).collect();
                        if let Some(h) = hs.choose(&mut rng) {
                            flush(&mut tw, &shared);
                            let granted = daser.want_to_prune(*h).await.unwrap_or(false);
                            n_want += 1;
                            flush(&mut tw, &shared);
                            tw.emit(json!({"name": "want", "h": h, "granted": granted as u8}));
                            if granted {
                                promised.push(*h);
                            }
                        }
                    }
                    93..=95 => {
                        // the pruner removes a header it was allowed to (or a sampled one)
                        let sampled = store.inner.get_sampled_ranges().await.unwrap();
                        let stored = store.inner.get_stored_header_ranges().await.unwrap();
                        let cands: Vec<u64> = stored.as_ref().iter().flat_map(|r| r.clone())
                            .filter(|h| promised.contains(h) || sampled.contains(*h)).collect();
                        if let Some(h) = cands.choose(&mut rng) {
                            // keep the stored range contiguous enough for later inserts: only edges
                            if *h == bottom {
                                store.inner.remove_height(*h).await.unwrap();
                                bottom += 1;
                                tw.emit(json!({"name": "remove", "h": h}));
                            }
                        }
                    }
                    96..=97 => {
                        let v = *[0u64, top / 2, top, n].choose(&mut rng).unwrap();
                        daser.update_highest_prunable_block(v).await.unwrap();
                        tw.emit(json!({"name": "hp", "v": v}));
                    }
                    98..=99 => {
                        let v = *[0u64, 511, 512, 600].choose(&mut rng).unwrap();
                        daser.update_number_of_prunable_blocks(v).await.unwrap();
                        tw.emit(json!({"name": "np", "v": v}));
                    }
                    _ => {}
                }
            }
            settle().await;
            flush(&mut tw, &shared);
            daser.stop();
            daser.join().await;
            let (n_started, n_timeout) = { let sh = shared.lock().unwrap(); (sh.n_started, sh.n_timeout) };
            let nontrivial = n_started >= 3 && n_timeout >= 1 && n_want >= 1;
            for p in ["C33", "C34"] {
                sum.case(p, if nontrivial { Some(format!("{run}")) } else { None },
                         || json!({"n": n, "lim": lim, "extra": extra, "wsamp": k, "started": n_started, "timed_out_blocks": n_timeout,
                                   "want_to_prune": n_want, "disconnects": n_disc}));
            }
        }
    });
    let nev = tw.finish();
    sum.set("events", json!(nev));
    sum.write(args.opt("summary").unwrap_or("/dev/stdout"));
}

/// spec -> impl: environment schedules generated by TLC from Daser.tla (spec/Gen_Daser.tla) are performed on
/// the real Daser; the worker takes its own steps; everything observable is logged exactly as in `record`.
pub fn replay(args: &Args) {
    let cases = h_common::read_cases(args.pos(2));
    let n = args.opt_u64("n", 8);
    let lim = args.opt_u64("lim", 2) as usize;
    let extra = args.opt_u64("extra", 1) as usize;
    let k = args.opt_u64("wsamp", 5);
    let mut tw = TraceWriter::create(args.opt("out").expect("--out"));
    let mut sum = Summary::new("daser-replay");
    h_common::QUIET_ALL.store(true, std::sync::atomic::Ordering::Relaxed);
    let rt = tokio::runtime::Builder::new_current_thread().enable_all().start_paused(true).build().unwrap();
    rt.block_on(async {
        for (run, case) in cases.iter().enumerate() {
            let ops = case["ops"].as_array().unwrap();
            // square widths are fixed by the schedule's insert steps
            let mut wd = vec![2usize; n as usize + 1];
            for o in ops {
                if o["a"] == "insert" {
                    wd[o["h"].as_u64().unwrap() as usize] = o["v"].as_u64().unwrap() as usize;
                }
            }
            let now = Time::now();
            let base = (now - Duration::from_secs(n * DELTA)).unwrap();
            let mut g = ExtendedHeaderGenerator::new();
            g.set_time(base, Duration::from_secs(DELTA));
            let mut chain: Vec<ExtendedHeader> = vec![];
            let mut edss: Vec<ExtendedDataSquare> = vec![];
            for h in 1..=n {
                let eds = generate_dummy_eds(wd[h as usize], AppVersion::V2);
                let dah = DataAvailabilityHeader::from_eds(&eds);
                chain.push(g.next_with_dah(dah));
                edss.push(eds);
            }
            let (p2p, handle) = w::mocked_p2p();
            let shared = Arc::new(Mutex::new(Shared { handle, pending: vec![], graveyard: vec![], log: vec![], sub: None, n_started: 0, n_timeout: 0, fatal: false }));
            let sh2 = shared.clone();
            let hook: crate::recstore::Hook = Arc::new(move |c: Call<'_>| {
                let mut sh = sh2.lock().unwrap();
                drain_events(&mut sh);
                drain_cmds(&mut sh);
                match c {
                    Call::Meta(h, cids, ok) => {
                        let shares: Vec<Value> = cids.iter().map(|c| match sid(c) {
                            Some((hh, r, cc)) if hh == h => json!([r, cc]),
                            _ => json!([65535, 65535]),
                        }).collect();
                        sh.log.push(json!({"name": "meta", "h": h, "shares": shares, "ok": ok as u8}));
                    }
                    Call::Mark(h, ok) => sh.log.push(json!({"name": "mark", "h": h, "ok": ok as u8})),
                    _ => {}
                }
            });
            let store = Arc::new(RecStore::new(InMemoryStore::new(), hook));
            let events = Events::new();
            shared.lock().unwrap().sub = Some(events.subscribe());
            let wsamp = Duration::from_secs((k - 1) * DELTA + DELTA / 2);
            tw.emit(json!({"name": "reset", "run": run, "now": n}));
            let daser = VDaser::start(&p2p, store.clone(), &events, wsamp, lim, extra).unwrap();
            let mut connected = false;
            let mut promised: Vec<u64> = vec![];
            let (mut n_want, mut n_disc, mut n_done, mut n_skipped) = (0u64, 0u64, 0u64, 0u64);
            let flush = |tw: &mut TraceWriter, shared: &Arc<Mutex<Shared>>| -> usize {
                let mut sh = shared.lock().unwrap();
                drain_events(&mut sh);
                drain_cmds(&mut sh);
                let n = sh.log.len();
                for v in sh.log.drain(..) {
                    tw.emit(v);
                }
                n
            };
            'ops: for o in ops {
                loop {
                    settle().await;
                    if flush(&mut tw, &shared) == 0 {
                        break;
                    }
                }
                if shared.lock().unwrap().fatal {
                    break;
                }
                let h = o["h"].as_u64().unwrap_or(0);
                let v = o["v"].as_u64().unwrap_or(0);
                let stored = store.inner.get_stored_header_ranges().await.unwrap();
                n_done += 1;
                match o["a"].as_str().unwrap() {
                    "insert" if !stored.contains(h) => {
                        if store.inner.insert(chain[(h - 1) as usize].clone()).await.is_ok() {
                            tw.emit(json!({"name": "insert", "h": h, "w": edss[(h - 1) as usize].square_width()}));
                        }
                    }
                    "remove" => {
                        // the pruner removes only what the real Daser granted, or what is sampled
                        let sampled = store.inner.get_sampled_ranges().await.unwrap();
                        if stored.contains(h) && (promised.contains(&h) || sampled.contains(h)) {
                            store.inner.remove_height(h).await.unwrap();
                            tw.emit(json!({"name": "remove", "h": h}));
                        } else {
                            n_skipped += 1;
                        }
                    }
                    "connect" if !connected => {
                        shared.lock().unwrap().handle.announce_peer_connected();
                        connected = true;
                        tw.emit(json!({"name": "connect"}));
                    }
                    "disconnect" if connected => {
                        shared.lock().unwrap().handle.announce_all_peers_disconnected();
                        bury(&mut shared.lock().unwrap());
                        connected = false;
                        n_disc += 1;
                        tw.emit(json!({"name": "disconnect"}));
                    }
                    "want" if stored.contains(h) => {
                        flush(&mut tw, &shared);
                        let granted = daser.want_to_prune(h).await.unwrap_or(false);
                        n_want += 1;
                        flush(&mut tw, &shared);
                        tw.emit(json!({"name": "want", "h": h, "granted": granted as u8}));
                        if granted {
                            promised.push(h);
                        }
                    }
                    "hp" => {
                        daser.update_highest_prunable_block(v).await.unwrap();
                        tw.emit(json!({"name": "hp", "v": v}));
                    }
                    "np" => {
                        daser.update_number_of_prunable_blocks(v).await.unwrap();
                        tw.emit(json!({"name": "np", "v": v}));
                    }
                    a @ ("ans" | "ansall") => {
                        // answer one / every outstanding request of block h (or of the newest block in progress)
                        let mut first = true;
                        loop {
                            let next = {
                                let mut sh = shared.lock().unwrap();
                                let target = if sh.pending.iter().any(|x| x.0 == h) { Some(h) } else { sh.pending.iter().map(|x| x.0).max() };
                                target.and_then(|t| sh.pending.iter().position(|x| x.0 == t).map(|i| sh.pending.swap_remove(i)))
                            };
                            let Some((hh, r, c, cid, tx)) = next else {
                                if first {
                                    n_skipped += 1;
                                }
                                break;
                            };
                            first = false;
                            tw.emit(json!({"name": "ans", "h": hh, "r": r, "c": c}));
                            let _ = tx.send(Ok(block_bytes(&edss[(hh - 1) as usize], &cid, r, c)));
                            if a == "ans" {
                                break;
                            }
                            // the command channel holds 16 entries: let the rest of the block's requests arrive
                            settle().await;
                            flush(&mut tw, &shared);
                            if shared.lock().unwrap().fatal {
                                break 'ops;
                            }
                            if !shared.lock().unwrap().pending.iter().any(|x| x.0 == hh) {
                                break;
                            }
                        }
                    }
                    "timeout" => {
                        if shared.lock().unwrap().pending.is_empty() {
                            n_skipped += 1;
                        } else {
                            bury(&mut shared.lock().unwrap());
                            let mut t = 0;
                            while t < n * DELTA + 1000 {
                                tokio::time::sleep(Duration::from_secs(5)).await;
                                t += 5;
                                flush(&mut tw, &shared);
                                bury(&mut shared.lock().unwrap());
                            }
                        }
                    }
                    _ => n_skipped += 1,
                }
            }
            for _ in 0..3 {
                settle().await;
                flush(&mut tw, &shared);
            }
            daser.stop();
            daser.join().await;
            let (n_started, n_timeout) = { let sh = shared.lock().unwrap(); (sh.n_started, sh.n_timeout) };
            let nontrivial = n_started >= 1;
            for p in ["C33", "C34"] {
                sum.case(p, if nontrivial { Some(format!("{}", serde_json::to_string(&case["ops"]).unwrap())) } else { None },
                         || json!({"dir": "spec->impl", "ops": n_done, "skipped": n_skipped, "started": n_started,
                                   "timed_out_blocks": n_timeout, "want_to_prune": n_want, "disconnects": n_disc}));
            }
        }
    });
    let nev = tw.finish();
    sum.set("events", json!(nev));
    sum.write(args.opt("summary").unwrap_or("/dev/stdout"));
}

/// C34 with the real clock moving: headers `delta` seconds apart, four stored blocks inside the sampling window,
/// one sampling slot.  The harness withholds the answers of the block in progress while real time passes, so the
/// blocks waiting in the queue leave the window; when the slot becomes free the worker must not start them.
/// The clock is sampled as now = floor(x + 0.5), x = (real now - base) / delta, which makes `now - h < k` exactly
/// the code's window test; the harness only acts while the fractional part is away from the rounding point.
pub fn record_aging(args: &Args) {
    let runs = args.opt_u64("runs", 2);
    let delta = args.opt_u64("delta", 2);
    let n = 12u64;
    let k = 4u64;
    let mut tw = TraceWriter::create(args.opt("out").expect("--out"));
    let mut sum = Summary::new("daser-aging");
    h_common::QUIET_ALL.store(true, std::sync::atomic::Ordering::Relaxed);
    let rt = tokio::runtime::Builder::new_current_thread().enable_all().start_paused(true).build().unwrap();
    rt.block_on(async {
        for run in 0..runs {
            let t0 = std::time::SystemTime::now();
            let now = Time::now();
            let base = (now - Duration::from_secs(n * delta)).unwrap();
            let base_sys = t0 - Duration::from_secs(n * delta);
            let clock = || -> u64 {
                loop {
                    let x = std::time::SystemTime::now().duration_since(base_sys).unwrap().as_secs_f64() / delta as f64 + 0.5;
                    let frac = x - x.floor();
                    if (0.15..0.85).contains(&frac) {
                        return x.floor() as u64;
                    }
                    std::thread::sleep(Duration::from_millis(50));
                }
            };
            let mut g = ExtendedHeaderGenerator::new();
            g.set_time(base, Duration::from_secs(delta));
            let mut chain: Vec<ExtendedHeader> = vec![];
            let mut edss: Vec<ExtendedDataSquare> = vec![];
            for _ in 0..n {
                let eds = generate_dummy_eds(2, AppVersion::V2);
                let dah = DataAvailabilityHeader::from_eds(&eds);
                chain.push(g.next_with_dah(dah));
                edss.push(eds);
            }
            let (p2p, handle) = w::mocked_p2p();
            let shared = Arc::new(Mutex::new(Shared { handle, pending: vec![], graveyard: vec![], log: vec![], sub: None, n_started: 0, n_timeout: 0, fatal: false }));
            let sh2 = shared.clone();
            let hook: crate::recstore::Hook = Arc::new(move |c: Call<'_>| {
                let mut sh = sh2.lock().unwrap();
                drain_events(&mut sh);
                drain_cmds(&mut sh);
                match c {
                    Call::Meta(h, cids, ok) => {
                        let shares: Vec<Value> = cids.iter().map(|c| match sid(c) {
                            Some((hh, r, cc)) if hh == h => json!([r, cc]),
                            _ => json!([65535, 65535]),
                        }).collect();
                        sh.log.push(json!({"name": "meta", "h": h, "shares": shares, "ok": ok as u8}));
                    }
                    Call::Mark(h, ok) => sh.log.push(json!({"name": "mark", "h": h, "ok": ok as u8})),
                    _ => {}
                }
            });
            let store = Arc::new(RecStore::new(InMemoryStore::new(), hook));
            let events = Events::new();
            shared.lock().unwrap().sub = Some(events.subscribe());
            let wsamp = Duration::from_millis(((k - 1) * delta) * 1000 + delta * 500);
            let mut cur = clock();
            tw.emit(json!({"name": "reset", "run": run, "now": cur}));
            let tail = n - (k - 1);
            store.inner.insert(chain[(tail - 1) as usize..n as usize].to_vec()).await.unwrap();
            for h in tail..=n {
                tw.emit(json!({"name": "insert", "h": h, "w": 2}));
            }
            let daser = VDaser::start(&p2p, store.clone(), &events, wsamp, 1, 0).unwrap();
            let flush = |tw: &mut TraceWriter, shared: &Arc<Mutex<Shared>>| -> usize {
                let mut sh = shared.lock().unwrap();
                drain_events(&mut sh);
                drain_cmds(&mut sh);
                let n = sh.log.len();
                for v in sh.log.drain(..) {
                    tw.emit(v);
                }
                n
            };
            shared.lock().unwrap().handle.announce_peer_connected();
            tw.emit(json!({"name": "connect"}));
            let mut started_old = 0u64;
            // per block in progress: let `wait` ticks pass before answering it
            for wait in [2u64, 2, 1, 1] {
                loop {
                    settle().await;
                    if flush(&mut tw, &shared) == 0 {
                        break;
                    }
                }
                if shared.lock().unwrap().pending.is_empty() || shared.lock().unwrap().fatal {
                    break;
                }
                let target = cur + wait;
                while cur < target {
                    std::thread::sleep(Duration::from_millis(300));
                    let c2 = clock();
                    if c2 != cur {
                        cur = c2;
                        tw.emit(json!({"name": "tick", "now": cur}));
                    }
                }
                // answer the whole block in progress; the clock is read (away from a rounding point) right before
                // the last answer goes out, the worker reacts within milliseconds under that same clock value
                loop {
                    let next = {
                        let mut sh = shared.lock().unwrap();
                        if sh.pending.is_empty() { None } else { Some(sh.pending.swap_remove(0)) }
                    };
                    let Some((h, r, c, cid, tx)) = next else { break };
                    let last = shared.lock().unwrap().pending.is_empty();
                    if last {
                        let c2 = clock();
                        if c2 != cur {
                            cur = c2;
                            tw.emit(json!({"name": "tick", "now": cur}));
                        }
                    }
                    tw.emit(json!({"name": "ans", "h": h, "r": r, "c": c}));
                    let _ = tx.send(Ok(block_bytes(&edss[(h - 1) as usize], &cid, r, c)));
                    if last {
                        break;
                    }
                }
                for _ in 0..3 {
                    settle().await;
                    flush(&mut tw, &shared);
                }
                // a block whose age is already k or more must not have been started
                let sh = shared.lock().unwrap();
                started_old += sh.pending.iter().filter(|x| cur - x.0 >= k).count() as u64;
            }
            for _ in 0..3 {
                settle().await;
                flush(&mut tw, &shared);
            }
            daser.stop();
            daser.join().await;
            let n_started = shared.lock().unwrap().n_started;
            sum.case("C34", Some(format!("aging/{run}")), || json!({"mode": "aging", "delta_s": delta, "started": n_started,
                     "final_clock": cur, "requests_for_blocks_older_than_the_window": started_old}));
        }
    });
    let nev = tw.finish();
    sum.set("events", json!(nev));
    sum.write(args.opt("summary").unwrap_or("/dev/stdout"));
}
