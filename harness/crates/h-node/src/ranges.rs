//! BlockRanges (C17, C18): replay of the TLC transition table, and recording of random
//! histories for trace validation.

use h_common::{catch, read_cases, Args, Summary, TraceWriter};
use lumina_node::block_ranges::{BlockRange, BlockRanges};
use lumina_node::verif::ranges as hook;
use rand::rngs::StdRng;
use rand::{Rng, SeedableRng};
use serde_json::json;
use smallvec::SmallVec;

type R = Vec<(u64, u64)>;

fn runs_of_mask(mask: u64) -> R {
    let mut out = vec![];
    let mut h = 1u64;
    while h <= 63 {
        if mask & (1 << (h - 1)) != 0 {
            let lo = h;
            while h <= 63 && mask & (1 << (h - 1)) != 0 {
                h += 1;
            }
            out.push((lo, h - 1));
        } else {
            h += 1;
        }
    }
    out
}

fn shift_runs(r: &R, shift: u64) -> Option<R> {
    r.iter().map(|(a, b)| Some((a.checked_add(shift)?, b.checked_add(shift)?))).collect()
}

fn emb(h: u64, shift: u64) -> Option<u64> {
    if h == 0 { Some(0) } else { h.checked_add(shift) }
}

fn build(r: &R) -> BlockRanges {
    let v: SmallVec<[BlockRange; 2]> = r.iter().map(|(a, b)| *a..=*b).collect();
    BlockRanges::from_vec(v).expect("canonical runs")
}

fn repr(b: &BlockRanges) -> R {
    b.as_ref().iter().map(|r| (*r.start(), *r.end())).collect()
}

/// Complement of canonical runs within 1..=u64::MAX.
fn complement(r: &R) -> R {
    let mut out = vec![];
    let mut next = 1u64;
    let mut done = false;
    for (a, b) in r {
        if *a > next {
            out.push((next, a - 1));
        }
        match b.checked_add(1) {
            Some(n) => next = n,
            None => {
                done = true;
                break;
            }
        }
    }
    if !done {
        out.push((next, u64::MAX));
    }
    out
}

fn count_runs(mask: u64) -> usize {
    runs_of_mask(mask).len()
}

fn opt_res(res: &[u64], shift: u64) -> Option<u64> {
    res.first().map(|v| v + shift)
}

/// Check the balanced-partition relation (property layer for `partitions`).
fn partition_ok(s: &R, got: &Option<(BlockRanges, u64, BlockRanges)>) -> Result<(), String> {
    let total: u128 = s.iter().map(|(a, b)| (*b - *a) as u128 + 1).sum();
    match got {
        None => {
            if total == 0 { Ok(()) } else { Err("None for non-empty set".into()) }
        }
        Some((l, m, r)) => {
            if total == 0 {
                return Err("Some for empty set".into());
            }
            let lr = repr(l);
            let rr = repr(r);
            if !canonical(&lr) || !canonical(&rr) {
                return Err("partition halves not canonical".into());
            }
            // expected halves: S below m, S above m
            let mut el = vec![];
            let mut er = vec![];
            let mut has_m = false;
            for (a, b) in s {
                if *a <= *m && *m <= *b {
                    has_m = true;
                }
                if *a < *m {
                    el.push((*a, (*b).min(*m - 1)));
                }
                if *b > *m {
                    er.push(((*a).max(*m + 1), *b));
                }
            }
            if !has_m {
                return Err("middle not a member".into());
            }
            if lr != el || rr != er {
                return Err(format!("halves are not S below/above middle: {lr:?} {m} {rr:?}"));
            }
            let ll: u128 = lr.iter().map(|(a, b)| (*b - *a) as u128 + 1).sum();
            let rl: u128 = rr.iter().map(|(a, b)| (*b - *a) as u128 + 1).sum();
            if ll.abs_diff(rl) > 1 {
                return Err(format!("unbalanced {ll} vs {rl}"));
            }
            Ok(())
        }
    }
}

fn canonical(r: &R) -> bool {
    let mut prev: Option<u64> = None;
    for (a, b) in r {
        if *a == 0 || a > b {
            return false;
        }
        if let Some(p) = prev {
            // sorted, disjoint, non-adjacent
            if p.checked_add(1).is_none_or(|n| n >= *a) {
                return false;
            }
        }
        prev = Some(*b);
    }
    true
}

#[derive(Debug, PartialEq, Clone)]
enum Obs {
    Unit(bool),              // Ok / Err
    Bool(bool),
    Num(u64),
    Opt(Option<u64>),
    Set(R),
    Flags(Option<(bool, bool)>),
    Part(Result<(), String>),
}

/// Apply operation `name` on `b`; return observation.
fn apply(b: &mut BlockRanges, name: &str, x: u64, y: u64, t: &R, pre: &R) -> Obs {
    match name {
        "insert_relaxed" => Obs::Unit(b.insert_relaxed(x..=y).is_ok()),
        "remove_relaxed" => Obs::Unit(b.remove_relaxed(x..=y).is_ok()),
        "union" => {
            *b = b.clone() | build(t);
            Obs::Unit(true)
        }
        "difference" => {
            *b = b.clone() - build(t);
            Obs::Unit(true)
        }
        "intersection" => {
            *b = b.clone() & build(t);
            Obs::Unit(true)
        }
        "complement" => {
            *b = !b.clone();
            Obs::Unit(true)
        }
        "pop_head" => Obs::Opt(b.pop_head()),
        "pop_tail" => Obs::Opt(b.pop_tail()),
        "contains" => Obs::Bool(b.contains(x)),
        "len" => Obs::Num(b.len()),
        "is_empty" => Obs::Bool(b.is_empty()),
        "head" => Obs::Opt(b.head()),
        "tail" => Obs::Opt(b.tail()),
        "headn" => Obs::Set(repr(&hook::headn(b, x))),
        "tailn" => Obs::Set(repr(&hook::tailn(b, x))),
        "edges" => Obs::Set(repr(&hook::edges(b))),
        "left_of" => Obs::Opt(hook::left_of(b, x)),
        "right_of" => Obs::Opt(hook::right_of(b, x)),
        "partitions" => Obs::Part(partition_ok(pre, &hook::partitions(b))),
        "check_insertion_constraints" => Obs::Flags(b.check_insertion_constraints(x..=y).ok()),
        _ => h_common::tool_error(&format!("unknown op {name}")),
    }
}

pub fn replay(args: &Args) {
    let cases = read_cases(args.pos(2));
    let n = args.opt_u64("n", 6);
    let mut sum = Summary::new("ranges");
    let shifts = [0u64, u64::MAX - n, u64::MAX - n - 1];
    for c in &cases {
        let name = c["op"].as_str().unwrap();
        let s = c["s"].as_u64().unwrap();
        let x = c["x"].as_u64().unwrap();
        let y = c["y"].as_u64().unwrap();
        let t = c["t"].as_u64().unwrap();
        let post = c["post"].as_u64().unwrap();
        let res: Vec<u64> = c["res"].as_array().unwrap().iter().map(|v| v.as_u64().unwrap()).collect();
        let prop = if name == "check_insertion_constraints" { "C18" } else { "C17" };
        if (name == "left_of" || name == "right_of") && x == 0 {
            continue; // 0 is not a height; the operation's argument is a height
        }
        for (si, shift) in shifts.iter().copied().enumerate() {
            let is_count = name == "headn" || name == "tailn";
            let (Some(pre), Some(tr), Some(ex), Some(ey)) = (
                shift_runs(&runs_of_mask(s), shift),
                shift_runs(&runs_of_mask(t), shift),
                if is_count { Some(x) } else { emb(x, shift) },
                emb(y, shift),
            ) else {
                continue; // not representable in this embedding
            };
            let mut exp_post = shift_runs(&runs_of_mask(post), shift).unwrap();
            if name == "complement" {
                exp_post = complement(&pre);
            }
            let expected = match name {
                "insert_relaxed" | "remove_relaxed" => Obs::Unit(res[0] == 1),
                "union" | "difference" | "intersection" | "complement" => Obs::Unit(true),
                "pop_head" | "pop_tail" | "head" | "tail" | "left_of" | "right_of" => Obs::Opt(opt_res(&res, shift)),
                "contains" | "is_empty" => Obs::Bool(res[0] == 1),
                "len" => Obs::Num(res[0]),
                "headn" | "tailn" | "edges" => Obs::Set(shift_runs(&runs_of_mask(res[0]), shift).unwrap()),
                "partitions" => Obs::Part(Ok(())),
                "check_insertion_constraints" => {
                    Obs::Flags(if res[0] == 1 { Some((res[1] == 1, res[2] == 1)) } else { None })
                }
                _ => unreachable!(),
            };
            let key = if count_runs(s) >= 2 { Some(format!("{name}/{s}/{x}/{y}/{t}/{si}")) } else { None };
            sum.case(prop, key, || json!({"case": c, "shift": shift.to_string()}));
            let pre2 = pre.clone();
            let tr2 = tr.clone();
            let out = catch(move || {
                let mut b = build(&pre2);
                let o = apply(&mut b, name, ex, ey, &tr2, &pre2);
                (o, repr(&b))
            });
            let bad = match &out {
                Err(p) => Some(format!("panic: {p}")),
                Ok((o, st)) => {
                    if *o != expected {
                        Some(format!("result {o:?}, set semantics gives {expected:?}"))
                    } else if *st != exp_post {
                        Some(format!("representation after op {st:?}, expected canonical {exp_post:?}"))
                    } else {
                        None
                    }
                }
            };
            if let Some(why) = bad {
                sum.violation(prop, json!({"case": c, "shift": shift.to_string(), "why": why}));
            }
        }
    }
    sum.write(args.opt("summary").unwrap_or("/dev/stdout"));
}

// ---------------------------------------------------------------------------------------------
// impl -> spec: random histories inside a window [base+1, base+W], heights logged relative.

fn rel(r: &R, base: u64, w: u64) -> Option<Vec<[u64; 2]>> {
    r.iter()
        .map(|(a, b)| {
            if *a > base && *b <= base + w { Some([a - base, b - base]) } else { None }
        })
        .collect()
}

fn rand_set(rng: &mut StdRng, base: u64, w: u64) -> R {
    let mut out = vec![];
    let mut h = 1u64;
    while h <= w {
        if rng.gen_bool(0.3) {
            let len = rng.gen_range(1..=8).min(w - h + 1);
            out.push((base + h, base + (h + len - 1)));
            h += len + rng.gen_range(1..=6);
        } else {
            h += rng.gen_range(1..=10);
        }
    }
    out
}

pub fn record(args: &Args) {
    let seed = args.opt_u64("seed", 1);
    let runs = args.opt_u64("runs", 8);
    let ops = args.opt_u64("ops", 300);
    let w = args.opt_u64("w", 200);
    let mut tw = TraceWriter::create(args.opt("out").expect("--out"));
    let mut sum = Summary::new("ranges-record");
    let mut rng = StdRng::seed_from_u64(seed);
    let bases = [0u64, 1 << 32, 1 << 63, u64::MAX - w, u64::MAX - w - 1];
    let names = [
        "insert_relaxed", "insert_relaxed", "insert_relaxed", "remove_relaxed", "remove_relaxed", "union",
        "difference", "intersection", "complement", "pop_head", "pop_tail", "contains", "len", "is_empty",
        "head", "tail", "headn", "tailn", "edges", "left_of", "right_of", "partitions",
        "check_insertion_constraints", "check_insertion_constraints",
    ];
    for run in 0..runs {
        let base = bases[(run as usize) % bases.len()];
        tw.emit(json!({"name": "reset", "base": base.to_string()}));
        let mut b = BlockRanges::new();
        for _ in 0..ops {
            let name = names[rng.gen_range(0..names.len())];
            // arguments relative to base; mostly near existing boundaries
            let pick = |rng: &mut StdRng, b: &BlockRanges| -> u64 {
                let rs = repr(b);
                if !rs.is_empty() && rng.gen_bool(0.6) {
                    let (a, e) = rs[rng.gen_range(0..rs.len())];
                    let edge = if rng.gen_bool(0.5) { a } else { e };
                    let d = rng.gen_range(0..=4) as i64 - 2;
                    let v = edge as i128 + d as i128;
                    (v.clamp(base as i128 + 1, (base as u128 + w as u128).min(u64::MAX as u128) as i128)) as u64
                } else {
                    base + rng.gen_range(1..=w)
                }
            };
            let (x, y): (u64, u64) = match name {
                "insert_relaxed" | "remove_relaxed" | "check_insertion_constraints" => {
                    let a = pick(&mut rng, &b);
                    let len = rng.gen_range(0..=12);
                    let e = a.saturating_add(len).min(base.saturating_add(w));
                    match rng.gen_range(0..20) {
                        0 => (0, e),         // invalid: start 0
                        1 => (e.max(a + 0) , a.saturating_sub(1).max(1)), // likely invalid: start > end
                        _ => (a, e),
                    }
                }
                "headn" | "tailn" => (rng.gen_range(0..=w + 1), 0),
                "contains" | "left_of" | "right_of" => (pick(&mut rng, &b), 0),
                _ => (0, 0),
            };
            let t: R = match name {
                "union" | "difference" | "intersection" => rand_set(&mut rng, base, w),
                _ => vec![],
            };
            let pre = repr(&b);
            let mut b2 = b.clone();
            let t2 = t.clone();
            let pre2 = pre.clone();
            let out = catch(move || {
                let o = apply(&mut b2, name, x, y, &t2, &pre2);
                (o, b2)
            });
            let (o, nb) = match out {
                Ok(v) => v,
                Err(p) => {
                    tw.emit(json!({"name": "panic", "op": name, "why": p}));
                    continue;
                }
            };
            // project relative to the window
            let relv = |v: u64| if v == 0 { 0 } else { v - base };
            let mut ev = json!({"name": name, "x": if name=="headn"||name=="tailn" {x} else {relv(x)}, "y": relv(y)});
            let st_full = repr(&nb);
            let (st_in, outside): (R, bool) = if name == "complement" {
                // everything outside the window must be present, inside is logged
                let inside: R = st_full
                    .iter()
                    .filter_map(|(a, e)| {
                        let lo = (*a).max(base + 1);
                        let hi = (*e).min(base.saturating_add(w));
                        if lo <= hi { Some((lo, hi)) } else { None }
                    })
                    .collect();
                let exp = complement(&pre);
                (inside, st_full == exp || {
                    // outside part equal to the expected outside part
                    let f = |r: &R| -> R { r.iter().filter(|(a, e)| *e <= base || *a > base.saturating_add(w)).cloned().collect() };
                    f(&st_full) == f(&exp) && canonical(&st_full)
                })
            } else {
                (st_full.clone(), true)
            };
            let Some(st_rel) = rel(&st_in, base, w) else {
                tw.emit(json!({"name": "escaped-window", "op": name}));
                continue;
            };
            ev["st"] = json!(st_rel);
            if name == "complement" {
                ev["outside"] = json!(if outside { 1 } else { 0 });
                // the model complements within the window: restore the window content afterwards
            }
            ev["t"] = json!(rel(&t, base, w).unwrap());
            ev["res"] = match &o {
                Obs::Unit(ok) => json!([if *ok { 1 } else { 0 }]),
                Obs::Bool(v) => json!([if *v { 1 } else { 0 }]),
                Obs::Num(n) => json!([n]),
                Obs::Opt(None) => json!([]),
                Obs::Opt(Some(v)) => json!([v - base]),
                Obs::Set(r) => json!(rel(r, base, w).unwrap_or_default()),
                Obs::Flags(None) => json!([0]),
                Obs::Flags(Some((l, r))) => json!([1, *l as u8, *r as u8]),
                Obs::Part(_) => match hook::partitions(&b) {
                    None => json!([]),
                    Some((l, m, r)) => json!([rel(&repr(&l), base, w).unwrap_or_default(), m - base, rel(&repr(&r), base, w).unwrap_or_default()]),
                },
            };
            let prop = if name == "check_insertion_constraints" { "C18" } else { "C17" };
            let key = if pre.len() >= 2 { Some(format!("{run}/{}", tw.events)) } else { None };
            sum.case(prop, key, || ev.clone());
            tw.emit(ev);
            // keep the history inside the window: after complement intersect with the window
            b = nb;
            if name == "complement" {
                b = build(&st_in);
            }
        }
    }
    let n = tw.finish();
    sum.set("events", json!(n));
    sum.set("runs", json!(runs));
    sum.write(args.opt("summary").unwrap_or("/dev/stdout"));
}
