//! C37: the real `BroadcastingStore` driven the way the syncer drives it; a subscriber task
//! collects the broadcast heights; every operation is logged for Trace_Subscriptions.

use std::sync::{Arc, Mutex};

use celestia_types::test_utils::ExtendedHeaderGenerator;
use h_common::{Args, Summary, TraceWriter};
use lumina_node::store::{InMemoryStore, Store};
use lumina_node::verif::workers::VBroadcastingStore;
use rand::rngs::StdRng;
use rand::seq::SliceRandom;
use rand::{Rng, SeedableRng};
use serde_json::json;
use tokio::sync::broadcast::error::RecvError;

use crate::session::settle;

pub fn record(args: &Args) {
    let seed = args.opt_u64("seed", 1);
    let runs = args.opt_u64("runs", 20);
    let n = args.opt_u64("n", 120);
    let mut tw = TraceWriter::create(args.opt("out").expect("--out"));
    let mut sum = Summary::new("subs-record");
    let mut rng = StdRng::seed_from_u64(seed);
    h_common::QUIET_ALL.store(true, std::sync::atomic::Ordering::Relaxed);
    let rt = tokio::runtime::Builder::new_current_thread().enable_all().start_paused(true).build().unwrap();
    let mut g = ExtendedHeaderGenerator::new();
    let chain = g.next_many_empty(n + 40);
    let hdr = |h: u64| chain[(h - 1) as usize].clone();
    rt.block_on(async {
        for run in 0..runs {
            tw.emit(json!({"name": "reset", "run": run}));
            let store = Arc::new(InMemoryStore::new());
            let mut bs = VBroadcastingStore::new(store.clone());
            let got: Arc<Mutex<Vec<u64>>> = Arc::new(Mutex::new(vec![]));
            let lagged: Arc<Mutex<u64>> = Arc::new(Mutex::new(0));
            let mut rx = bs.subscribe();
            let (g2, l2) = (got.clone(), lagged.clone());
            let sub = tokio::spawn(async move {
                loop {
                    match rx.recv().await {
                        Ok(h) => g2.lock().unwrap().push(h.height()),
                        Err(RecvError::Lagged(k)) => *l2.lock().unwrap() += k,
                        Err(RecvError::Closed) => break,
                    }
                }
            });
            let take = |got: &Arc<Mutex<Vec<u64>>>| -> Vec<u64> { std::mem::take(&mut *got.lock().unwrap()) };
            // first head
            let head0 = rng.gen_range(2..=n / 3);
            store.insert(hdr(head0)).await.unwrap();
            bs.init_broadcast(hdr(head0));
            settle().await;
            let mut last_sent = head0;
            let dl = take(&got);
            if let Some(x) = dl.last() {
                last_sent = *x;
            }
            tw.emit(json!({"name": "init", "h": head0, "dl": dl}));
            // plan: a random partition of head0+1..top into ranges, announced in shuffled order,
            // interleaved with historical ranges, inadmissible ranges and re-initialisations
            let top = rng.gen_range(head0 + 5..=n);
            let mut parts: Vec<(u64, u64)> = vec![];
            let mut lo = head0 + 1;
            while lo <= top {
                let len = rng.gen_range(1..=12).min(top - lo + 1);
                parts.push((lo, lo + len - 1));
                lo += len;
            }
            // order: mostly ascending with local shuffles (the store only admits ranges that touch
            // stored data or lie above the store head)
            if rng.gen_bool(0.7) {
                for i in (1..parts.len()).rev() {
                    if rng.gen_bool(0.35) {
                        parts.swap(i, i - 1);
                    }
                }
            } else {
                parts.shuffle(&mut rng);
            }
            let mut hist_next = head0 - 1; // next historical height going down
            let (mut n_hist, mut n_reinit, mut n_rejected, mut n_pending) = (0, 0, 0, 0);
            let mut queue: std::collections::VecDeque<(u64, u64)> = parts.into();
            let mut retries = 0;
            while let Some((lo, hi)) = queue.pop_front() {
                // interleave other operations
                match rng.gen_range(0..10) {
                    0 | 1 if hist_next >= 1 => {
                        let len = rng.gen_range(1..=5).min(hist_next);
                        let (hlo, hhi) = (hist_next + 1 - len, hist_next);
                        let r = bs.announce_insert((hlo..=hhi).map(hdr).collect()).await;
                        settle().await;
                        tw.emit(json!({"name": "insert", "lo": hlo, "hi": hhi, "res": r.is_ok() as u8, "dl": take(&got)}));
                        if r.is_ok() {
                            hist_next = hlo - 1;
                        }
                        n_hist += 1;
                    }
                    2 => {
                        // re-initialisation: with the store head, or with a new head above it
                        let sh = store.head_height().await.unwrap();
                        let h = if rng.gen_bool(0.5) { sh } else { (sh + rng.gen_range(1..=3)).min(n + 30) };
                        // a head inside a not yet announced range would make that range un-insertable
                        let clash = queue.iter().chain([(lo, hi)].iter()).any(|(a, b)| *a <= h && h <= *b);
                        if !clash {
                            let ok = h == sh || store.insert(hdr(h)).await.is_ok();
                            if ok {
                                bs.init_broadcast(hdr(h));
                                settle().await;
                                tw.emit(json!({"name": "init", "h": h, "dl": take(&got)}));
                                n_reinit += 1;
                            }
                        }
                    }
                    _ => {}
                }
                // the caller's contract: a range never crosses last_sent
                if lo <= last_sent && last_sent <= hi {
                    continue;
                }
                let before = take(&got);
                debug_assert!(before.is_empty());
                let r = bs.announce_insert((lo..=hi).map(hdr).collect()).await;
                settle().await;
                let dl = take(&got);
                if let Some(x) = dl.last() {
                    last_sent = *x;
                }
                if r.is_ok() && dl.is_empty() {
                    n_pending += 1;
                }
                tw.emit(json!({"name": "insert", "lo": lo, "hi": hi, "res": r.is_ok() as u8, "dl": dl}));
                if r.is_err() {
                    n_rejected += 1;
                    if retries < 200 {
                        retries += 1;
                        queue.push_back((lo, hi)); // try again later (the syncer would re-request)
                    }
                }
            }
            drop(bs);
            let _ = sub.await;
            let lag = *lagged.lock().unwrap();
            if lag > 0 {
                tw.emit(json!({"name": "lagged", "n": lag}));
            }
            let nontrivial = n_hist > 0 && n_reinit > 0 && n_pending > 0;
            sum.case("C37", if nontrivial { Some(format!("{run}")) } else { None },
                     || json!({"head0": head0, "top": top, "historical": n_hist, "reinits": n_reinit, "rejected": n_rejected, "pending_inserts": n_pending}));
        }
    });
    let nev = tw.finish();
    sum.set("events", json!(nev));
    sum.write(args.opt("summary").unwrap_or("/dev/stdout"));
}

/// spec -> impl: perform TLC-generated operation lists (Gen_Subscriptions) on the real
/// BroadcastingStore and record what the subscriber received, for Trace_Subscriptions.
pub fn replay(args: &Args) {
    let cases = h_common::read_cases(args.pos(2));
    let mut tw = TraceWriter::create(args.opt("out").expect("--out"));
    let mut sum = Summary::new("subs-replay");
    h_common::QUIET_ALL.store(true, std::sync::atomic::Ordering::Relaxed);
    let rt = tokio::runtime::Builder::new_current_thread().enable_all().start_paused(true).build().unwrap();
    let mut g = ExtendedHeaderGenerator::new();
    let chain = g.next_many_empty(40);
    let hdr = |h: u64| chain[(h - 1) as usize].clone();
    rt.block_on(async {
        for (ci, c) in cases.iter().enumerate() {
            tw.emit(json!({"name": "reset", "run": ci}));
            let store = Arc::new(InMemoryStore::new());
            let mut bs = VBroadcastingStore::new(store.clone());
            let got: Arc<Mutex<Vec<u64>>> = Arc::new(Mutex::new(vec![]));
            let mut rx = bs.subscribe();
            let g2 = got.clone();
            let sub = tokio::spawn(async move {
                while let Ok(h) = rx.recv().await {
                    g2.lock().unwrap().push(h.height());
                }
            });
            let take = |got: &Arc<Mutex<Vec<u64>>>| -> Vec<u64> { std::mem::take(&mut *got.lock().unwrap()) };
            let mut last_sent = 0u64;
            let mut n_ops = 0;
            for op in c["ops"].as_array().unwrap() {
                let (a, b) = (op["a"].as_u64().unwrap(), op["b"].as_u64().unwrap());
                match op["name"].as_str().unwrap() {
                    "init" => {
                        // try_init: insert the head unless it is the store head already; a refused
                        // insert aborts the initialisation (the model's InitBroadcast is then disabled,
                        // so TLC never generates it)
                        let sh = store.head_height().await.unwrap_or(0);
                        if sh != a && store.insert(hdr(a)).await.is_err() {
                            continue;
                        }
                        bs.init_broadcast(hdr(a));
                        settle().await;
                        let dl = take(&got);
                        if let Some(x) = dl.last() {
                            last_sent = *x;
                        }
                        tw.emit(json!({"name": "init", "h": a, "dl": dl}));
                    }
                    _ => {
                        // the caller's contract (checked by a debug_assert in the code)
                        if last_sent == 0 || (a <= last_sent && last_sent <= b) {
                            continue;
                        }
                        let r = bs.announce_insert((a..=b).map(hdr).collect()).await;
                        settle().await;
                        let dl = take(&got);
                        if let Some(x) = dl.last() {
                            last_sent = *x;
                        }
                        tw.emit(json!({"name": "insert", "lo": a, "hi": b, "res": r.is_ok() as u8, "dl": dl}));
                    }
                }
                n_ops += 1;
            }
            drop(bs);
            let _ = sub.await;
            sum.case("C37", Some(format!("{}", c["ops"])), || json!({"ops": c["ops"], "performed": n_ops}));
        }
    });
    let nev = tw.finish();
    sum.set("events", json!(nev));
    sum.write(args.opt("summary").unwrap_or("/dev/stdout"));
}
