//! C36: the pruner's window-edge search, replayed over the TLC table of
//! (stored set, cutoff, admissible previous answers) -> allowed answers.

use std::collections::BTreeMap;
use std::time::Duration;

use celestia_types::test_utils::ExtendedHeaderGenerator;
use h_common::{read_cases, Args, Summary};
use lumina_node::block_ranges::BlockRanges;
use lumina_node::store::{InMemoryStore, Store};
use lumina_node::verif::workers::WindowSearch;
use serde_json::{json, Value};
use tendermint::Time;

fn runs_of_mask(mask: u64) -> Vec<(u64, u64)> {
    let mut out = vec![];
    let mut h = 1u64;
    while h <= 63 {
        if mask & (1 << (h - 1)) != 0 {
            let lo = h;
            while h <= 63 && mask & (1 << (h - 1)) != 0 {
                h += 1;
            }
            out.push((lo, h - 1));
        } else {
            h += 1;
        }
    }
    out
}

pub fn replay(args: &Args) {
    let cases = read_cases(args.pos(2));
    let n = args.opt_u64("n", 5);
    let mut sum = Summary::new("windowsearch");
    let rt = tokio::runtime::Builder::new_current_thread().enable_all().build().unwrap();
    h_common::QUIET_ALL.store(true, std::sync::atomic::Ordering::Relaxed);
    // group by stored set
    let mut by_s: BTreeMap<u64, Vec<&Value>> = BTreeMap::new();
    for c in &cases {
        by_s.entry(c["s"].as_u64().unwrap()).or_default().push(c);
    }
    let base = (Time::now() - Duration::from_secs(1_000_000)).unwrap();
    let mut g = ExtendedHeaderGenerator::new();
    g.set_time(base, Duration::from_secs(2));
    let chain = g.next_many_empty(n + 1); // header h has time base + 2h seconds
    // (stored mask, cutoff) -> allowed answers, for the sequences in which the store shrinks between two searches
    let mut index: std::collections::HashMap<(u64, u64), Vec<u64>> = Default::default();
    for c in &cases {
        index.insert((c["s"].as_u64().unwrap(), c["c"].as_u64().unwrap()),
                     c["allowed"].as_array().unwrap().iter().map(|v| v.as_u64().unwrap()).collect());
    }
    let max_cut = cases.iter().map(|c| c["c"].as_u64().unwrap()).max().unwrap_or(0);
    rt.block_on(async {
        // the worker's real pattern: ONE cache over increasing cutoffs while the pruner removes what the search
        // found (the answer alone, or everything up to it) -- the cache then holds entries for heights that are gone
        for (s, _) in by_s.iter() {
            for variant in 0..2u8 {
                let store = InMemoryStore::new();
                for (a, b) in &runs_of_mask(*s) {
                    store.insert(chain[(*a - 1) as usize..*b as usize].to_vec()).await.expect("build store");
                }
                let mut mask = *s;
                let mut cache = WindowSearch::new();
                let mut prev: Option<u64> = None;
                for cut in 0..=max_cut {
                    if mask == 0 {
                        break;
                    }
                    let Some(allowed) = index.get(&(mask, cut)) else { continue };
                    let stored: BlockRanges = store.get_stored_header_ranges().await.unwrap();
                    let cutoff = (base + Duration::from_secs(cut)).unwrap();
                    // the pruner keeps ONE cache for its two windows, each with its own previous answer: a search
                    // without a previous answer (slow path) on the cache the other searches filled
                    for mode in [0u8, 2] {
                        let g2 = catch_find(&mut cache, &store, &stored, &cutoff, None, mode).await;
                        sum.case("C36", Some(format!("seq-none/{s}/{variant}/{cut}/{mode}")), || json!({"s0": s, "mask": mask, "c": cut, "prev": 0, "mode": mode, "cache": "shared-while-pruning"}));
                        match g2 {
                            Err(e) => sum.violation("C36", json!({"s0": s, "mask": mask, "c": cut, "prev": 0, "why": format!("error/panic: {e}"),
                                        "class": {"kind": "error", "mode": mode, "cache": "shared-while-pruning"}})),
                            Ok(None) => {}
                            Ok(Some(r)) => {
                                let rr = r.unwrap_or(0);
                                if !allowed.contains(&rr) {
                                    sum.violation("C36", json!({"s0": s, "mask": mask, "c": cut, "prev": 0, "cache": "shared-while-pruning",
                                        "why": format!("answer {rr} not among the allowed answers {allowed:?} (stored mask {mask} after removals from {s}, cutoff {cut}, times 2h, no previous answer, one cache across the calls)"),
                                        "class": {"kind": "wrong-answer", "mode": mode, "cache": "shared-while-pruning"}}));
                                }
                            }
                        }
                    }
                    let got = catch_find(&mut cache, &store, &stored, &cutoff, prev, 0).await;
                    let key = Some(format!("seq/{s}/{variant}/{cut}"));
                    sum.case("C36", key, || json!({"s0": s, "mask": mask, "c": cut, "prev": prev, "cache": "shared-while-pruning"}));
                    match got {
                        Err(e) => sum.violation("C36", json!({"s0": s, "mask": mask, "c": cut, "prev": prev, "why": format!("error/panic: {e}"),
                                    "class": {"kind": "error", "mode": 0, "cache": "shared-while-pruning"}})),
                        Ok(None) => {}
                        Ok(Some(r)) => {
                            let rr = r.unwrap_or(0);
                            if !allowed.contains(&rr) {
                                sum.violation("C36", json!({"s0": s, "mask": mask, "c": cut, "prev": prev, "cache": "shared-while-pruning",
                                    "why": format!("answer {rr} not among the allowed answers {allowed:?} (stored mask {mask} after removals from {s}, cutoff {cut}, times 2h, prev {prev:?}, one cache across the calls)"),
                                    "class": {"kind": "wrong-answer", "mode": 0, "cache": "shared-while-pruning"}}));
                                break;
                            }
                            if let Some(h) = r {
                                if prev < Some(h) {
                                    prev = Some(h);
                                }
                                // the pruner removes the answer (variant 0) or everything up to it (variant 1)
                                let lo = if variant == 0 { h } else { 1 };
                                for x in lo..=h {
                                    if mask & (1 << (x - 1)) != 0 {
                                        store.remove_height(x).await.expect("remove");
                                        mask &= !(1 << (x - 1));
                                    }
                                }
                            }
                        }
                    }
                }
            }
        }
        for (s, cs) in by_s {
            let store = InMemoryStore::new();
            let runs = runs_of_mask(s);
            for (a, b) in &runs {
                store.insert(chain[(*a - 1) as usize..*b as usize].to_vec()).await.expect("build store");
            }
            let stored: BlockRanges = store.get_stored_header_ranges().await.unwrap();
            let mut cs = cs;
            cs.sort_by_key(|c| c["c"].as_u64().unwrap());
            // one cache shared over increasing cutoffs (as the worker does), and fresh caches
            let mut shared = WindowSearch::new();
            let mut shared_prev: Option<u64> = None;
            for c in cs {
                let cut = c["c"].as_u64().unwrap();
                let cutoff = (base + Duration::from_secs(cut)).unwrap();
                let allowed: Vec<u64> = c["allowed"].as_array().unwrap().iter().map(|v| v.as_u64().unwrap()).collect();
                let prevs: Vec<u64> = c["prevs"].as_array().unwrap().iter().map(|v| v.as_u64().unwrap()).collect();
                let check = |label: &str, prev: u64, mode: u8, got: Result<Option<Option<u64>>, String>, sum: &mut Summary| {
                    let key = if runs.len() >= 2 { Some(format!("{s}/{cut}/{prev}/{mode}/{label}")) } else { None };
                    sum.case("C36", key, || json!({"case": c, "prev": prev, "mode": mode, "cache": label}));
                    match got {
                        Err(e) => sum.violation("C36", json!({"case": c, "prev": prev, "mode": mode, "why": format!("error/panic: {e}"),
                                    "class": {"kind": "error", "mode": mode}})),
                        Ok(None) => {} // fast path undecided
                        Ok(Some(r)) => {
                            let r = r.unwrap_or(0);
                            if !allowed.contains(&r) {
                                sum.violation("C36", json!({"case": c, "prev": prev, "mode": mode, "cache": label,
                                    "why": format!("answer {r} not among the allowed answers {allowed:?} (stored mask {s}, cutoff {cut}, times 2h, prev {prev})"),
                                    "class": {"kind": "wrong-answer", "mode": mode}}));
                            }
                        }
                    }
                };
                for prev in prevs {
                    let p = if prev == 0 { None } else { Some(prev) };
                    for mode in [0u8, 1, 2] {
                        let mut fresh = WindowSearch::new();
                        let got = catch_find(&mut fresh, &store, &stored, &cutoff, p, mode).await;
                        check("fresh", prev, mode, got, &mut sum);
                    }
                }
                // the worker's pattern: shared cache, previous = last real answer
                let got = catch_find(&mut shared, &store, &stored, &cutoff, shared_prev, 0).await;
                if let Ok(Some(r)) = &got {
                    if r.is_some() && r > &shared_prev {
                        shared_prev = *r;
                    }
                }
                check("shared", shared_prev.unwrap_or(0), 0, got, &mut sum);
            }
        }
    });
    sum.write(args.opt("summary").unwrap_or("/dev/stdout"));
}

async fn catch_find(
    ws: &mut WindowSearch,
    store: &InMemoryStore,
    stored: &BlockRanges,
    cutoff: &Time,
    prev: Option<u64>,
    mode: u8,
) -> Result<Option<Option<u64>>, String> {
    use futures::FutureExt;
    match std::panic::AssertUnwindSafe(ws.find(store, stored, cutoff, prev, mode)).catch_unwind().await {
        Ok(r) => r,
        Err(e) => Err(format!(
            "panic: {}",
            e.downcast_ref::<String>().cloned().or_else(|| e.downcast_ref::<&str>().map(|s| s.to_string())).unwrap_or_default()
        )),
    }
}
