//! A `Store` that delegates to an inner store and reports selected calls to a callback at call
//! time (the linearization point: the callback runs after the inner call returned, before the
//! result is handed back).

use std::fmt::Display;
use std::sync::Arc;

use async_trait::async_trait;
use celestia_types::hash::Hash;
use celestia_types::ExtendedHeader;
use cid::Cid;
use libp2p::identity::Keypair;
use lumina_node::block_ranges::BlockRanges;
use lumina_node::store::{SamplingMetadata, Store, StoreError, VerifiedExtendedHeaders};

pub enum Call<'a> {
    Meta(u64, &'a [Cid], bool),
    Mark(u64, bool),
    Remove(u64, bool),
    Insert(bool),
}

pub type Hook = Arc<dyn Fn(Call<'_>) + Send + Sync>;

pub struct RecStore<S: Store> {
    pub inner: S,
    pub hook: Hook,
    /// a removal (played by the harness in the pruner's role) that happens *between two store calls* of the
    /// component under test: one shot, see `Armed`
    pub armed: std::sync::Mutex<Option<Armed>>,
    /// heights removed by an armed injection, in order (the harness logs them as `prune` events)
    pub injected: std::sync::Mutex<Vec<u64>>,
}

/// Where the armed removal strikes.
#[derive(Clone, Copy, Debug, PartialEq)]
pub enum Point {
    /// between a read of the stored ranges and a read of the pruned ranges (whichever comes second)
    BetweenRangeReads,
    /// right before `get_by_height(h)` answers, removing `h` itself when `h <= max`
    HeightRead,
}

#[derive(Clone, Copy, Debug)]
pub struct Armed {
    pub point: Point,
    /// BetweenRangeReads: the height to remove; HeightRead: the highest height that may be removed
    pub height: u64,
    pub seen_stored: bool,
    pub seen_pruned: bool,
}

impl<S: Store> RecStore<S> {
    pub fn new(inner: S, hook: Hook) -> Self {
        RecStore { inner, hook, armed: Default::default(), injected: Default::default() }
    }
    pub fn arm(&self, point: Point, height: u64) {
        *self.armed.lock().unwrap() = Some(Armed { point, height, seen_stored: false, seen_pruned: false });
    }
    async fn strike(&self, h: u64) {
        if self.inner.has_at(h).await && self.inner.remove_height(h).await.is_ok() {
            self.injected.lock().unwrap().push(h);
        }
    }
    async fn on_range_read(&self, stored: bool) {
        let target = {
            let mut g = self.armed.lock().unwrap();
            match g.as_mut() {
                Some(a) if a.point == Point::BetweenRangeReads => {
                    let other_seen = if stored { a.seen_pruned } else { a.seen_stored };
                    if other_seen {
                        let h = a.height;
                        *g = None;
                        Some(h)
                    } else {
                        if stored { a.seen_stored = true } else { a.seen_pruned = true }
                        None
                    }
                }
                _ => None,
            }
        };
        if let Some(h) = target {
            self.strike(h).await;
        }
    }
    async fn on_height_read(&self, h: u64) {
        let go = {
            let mut g = self.armed.lock().unwrap();
            match *g {
                Some(a) if a.point == Point::HeightRead && h <= a.height => {
                    *g = None;
                    true
                }
                _ => false,
            }
        };
        if go {
            self.strike(h).await;
        }
    }
}

impl<S: Store> std::fmt::Debug for RecStore<S> {
    fn fmt(&self, f: &mut std::fmt::Formatter<'_>) -> std::fmt::Result {
        write!(f, "RecStore({:?})", self.inner)
    }
}

type Result<T, E = StoreError> = std::result::Result<T, E>;

#[async_trait]
impl<S: Store> Store for RecStore<S> {
    async fn get_head(&self) -> Result<ExtendedHeader> {
        self.inner.get_head().await
    }
    async fn get_by_hash(&self, hash: &Hash) -> Result<ExtendedHeader> {
        self.inner.get_by_hash(hash).await
    }
    async fn get_by_height(&self, height: u64) -> Result<ExtendedHeader> {
        self.on_height_read(height).await;
        self.inner.get_by_height(height).await
    }
    async fn wait_new_head(&self) -> u64 {
        self.inner.wait_new_head().await
    }
    async fn wait_height(&self, height: u64) -> Result<()> {
        self.inner.wait_height(height).await
    }
    async fn head_height(&self) -> Result<u64> {
        self.inner.head_height().await
    }
    async fn has(&self, hash: &Hash) -> bool {
        self.inner.has(hash).await
    }
    async fn has_at(&self, height: u64) -> bool {
        self.inner.has_at(height).await
    }
    async fn update_sampling_metadata(&self, height: u64, cids: Vec<Cid>) -> Result<()> {
        let r = self.inner.update_sampling_metadata(height, cids.clone()).await;
        (self.hook)(Call::Meta(height, &cids, r.is_ok()));
        r
    }
    async fn get_sampling_metadata(&self, height: u64) -> Result<Option<SamplingMetadata>> {
        self.inner.get_sampling_metadata(height).await
    }
    async fn mark_as_sampled(&self, height: u64) -> Result<()> {
        let r = self.inner.mark_as_sampled(height).await;
        (self.hook)(Call::Mark(height, r.is_ok()));
        r
    }
    async fn insert<R>(&self, headers: R) -> Result<()>
    where
        R: TryInto<VerifiedExtendedHeaders> + Send,
        <R as TryInto<VerifiedExtendedHeaders>>::Error: Display,
    {
        let r = self.inner.insert(headers).await;
        (self.hook)(Call::Insert(r.is_ok()));
        r
    }
    async fn get_stored_header_ranges(&self) -> Result<BlockRanges> {
        self.on_range_read(true).await;
        self.inner.get_stored_header_ranges().await
    }
    async fn get_sampled_ranges(&self) -> Result<BlockRanges> {
        self.inner.get_sampled_ranges().await
    }
    async fn get_pruned_ranges(&self) -> Result<BlockRanges> {
        self.on_range_read(false).await;
        self.inner.get_pruned_ranges().await
    }
    async fn remove_height(&self, height: u64) -> Result<()> {
        let r = self.inner.remove_height(height).await;
        (self.hook)(Call::Remove(height, r.is_ok()));
        r
    }
    async fn get_identity(&self) -> Result<Keypair> {
        self.inner.get_identity().await
    }
    async fn close(self) -> Result<()> {
        self.inner.close().await
    }
}
