//! Header stores (C19, C20, C21): seeded random histories run on InMemoryStore and RedbStore,
//! every operation logged with its result kind and the complete observable projection of the
//! store, for validation by spec/Trace_Store.tla.

use std::collections::HashMap;
use std::time::Duration;

use celestia_types::hash::Hash;
use celestia_types::test_utils::{unverify, ExtendedHeaderGenerator};
use celestia_types::ExtendedHeader;
use cid::Cid;
use futures::FutureExt;
use h_common::{Args, Summary, TraceWriter};
use lumina_node::store::{EitherStore, InMemoryStore, RedbStore, Store, StoreError, StoreInsertionError};
use multihash::Multihash;
use rand::rngs::StdRng;
use rand::seq::SliceRandom;
use rand::{Rng, SeedableRng};
use serde_json::{json, Value};
use tendermint::Time;
use tendermint_proto::Protobuf;

pub const R_OK: u64 = 1;
pub const R_NOT_FOUND: u64 = 2;
pub const R_VERIFICATION: u64 = 3;
pub const R_CONSTRAINTS: u64 = 4;
pub const R_NEIGHBORS: u64 = 5;
pub const R_HASH_EXISTS: u64 = 6;
pub const R_OTHER: u64 = 9;

pub fn code<T>(r: &Result<T, StoreError>) -> u64 {
    match r {
        Ok(_) => R_OK,
        Err(StoreError::NotFound) => R_NOT_FOUND,
        Err(StoreError::InsertionFailed(e)) => match e {
            StoreInsertionError::HeadersVerificationFailed(_) => R_VERIFICATION,
            StoreInsertionError::ConstraintsNotMet(_) => R_CONSTRAINTS,
            StoreInsertionError::NeighborsVerificationFailed(_) => R_NEIGHBORS,
            StoreInsertionError::HashExists(_) => R_HASH_EXISTS,
        },
        Err(_) => R_OTHER,
    }
}

/// Interning of headers / hashes into small integers for the trace.
#[derive(Default)]
pub struct Intern {
    headers: HashMap<Vec<u8>, u64>,
    pub by_id: Vec<ExtendedHeader>,
    hashes: HashMap<Vec<u8>, u64>,
    pub tag_hashes: Vec<Hash>,
    pub base_secs: i64,
}

impl Intern {
    fn hash_id(&mut self, bytes: &[u8]) -> u64 {
        let n = self.hashes.len() as u64 + 1;
        *self.hashes.entry(bytes.to_vec()).or_insert(n)
    }
    pub fn tag(&mut self, h: &Hash) -> u64 {
        let before = self.hashes.len();
        let id = self.hash_id(h.as_bytes());
        if self.hashes.len() > before {
            self.tag_hashes.push(*h);
        }
        id
    }
    /// Returns (id, Some(descriptor)) when the header is new.
    pub fn header(&mut self, h: &ExtendedHeader) -> (u64, Option<Value>) {
        let key = h.clone().encode_vec();
        if let Some(id) = self.headers.get(&key) {
            return (*id, None);
        }
        let id = self.headers.len() as u64 + 1;
        self.headers.insert(key, id);
        self.by_id.push(h.clone());
        let tag = self.tag(&h.hash());
        let parent = self.tag(&h.last_header_hash());
        let vs = self.hash_id(h.header.validators_hash.as_bytes());
        let nvs = self.hash_id(h.header.next_validators_hash.as_bytes());
        let cid = self.hash_id(h.chain_id().as_str().as_bytes());
        let t = h.time().unix_timestamp() - self.base_secs;
        (id, Some(json!({"id": id, "h": h.height(), "tag": tag, "parent": parent, "vs": vs, "nvs": nvs, "t": t, "cid": cid})))
    }
    pub fn lookup(&self, h: &ExtendedHeader) -> u64 {
        self.headers.get(&h.clone().encode_vec()).copied().unwrap_or(0)
    }
}

fn ranges_json(r: &lumina_node::block_ranges::BlockRanges) -> Value {
    json!(r.as_ref().iter().map(|x| [*x.start(), *x.end()]).collect::<Vec<_>>())
}

pub fn cid_of(n: u64) -> Cid {
    let mh = Multihash::<64>::wrap(0x12, &[n as u8; 32]).unwrap();
    Cid::new_v1(0x55, mh)
}

pub fn cid_num(c: &Cid) -> u64 {
    c.hash().digest()[0] as u64
}

/// Every observable query of the store, as JSON.
pub async fn project<S: Store>(s: &S, it: &Intern, max_h: u64) -> Value {
    let stored = s.get_stored_header_ranges().await.unwrap();
    let sampled = s.get_sampled_ranges().await.unwrap();
    let pruned = s.get_pruned_ranges().await.unwrap();
    let head = match s.get_head().await {
        Ok(h) => json!([it.lookup(&h)]),
        Err(_) => json!([]),
    };
    let hh = match s.head_height().await {
        Ok(h) => json!([h]),
        Err(_) => json!([]),
    };
    let mut byh = vec![];
    let mut hasat = vec![];
    let mut meta = vec![];
    let mut metanone = vec![];
    for h in 0..=max_h + 1 {
        if let Ok(x) = s.get_by_height(h).await {
            byh.push(json!([h, it.lookup(&x), x.height()]));
        }
        if s.has_at(h).await {
            hasat.push(h);
        }
        match s.get_sampling_metadata(h).await {
            Ok(Some(m)) => {
                let mut cs: Vec<u64> = m.cids.iter().map(cid_num).collect();
                cs.sort();
                meta.push(json!([h, cs]));
            }
            Ok(None) => metanone.push(h),
            Err(_) => {}
        }
    }
    let mut byhash = vec![];
    let mut has = vec![];
    for (i, tg) in it.tag_hashes.iter().enumerate() {
        let tag = it.hashes[&tg.as_bytes().to_vec()];
        let _ = i;
        if let Ok(x) = s.get_by_hash(tg).await {
            byhash.push(json!([tag, it.lookup(&x)]));
        }
        if s.has(tg).await {
            has.push(tag);
        }
    }
    // get_range over every stored run, the run extended by one on either side, and open ends
    let mut rng = vec![];
    let mut qs: Vec<(u64, u64)> = vec![];
    for r in stored.as_ref() {
        let (a, b) = (*r.start(), *r.end());
        qs.push((a, b));
        qs.push((a, b + 1));
        if a > 1 {
            qs.push((a - 1, b));
        }
        if b > a {
            qs.push((a + 1, b));
        }
    }
    for (a, b) in qs {
        match s.get_range(a..=b).await {
            Ok(hs) => rng.push(json!([a, b, 1, hs.iter().map(|h| it.lookup(h)).collect::<Vec<_>>()])),
            Err(_) => rng.push(json!([a, b, 0, []])),
        }
    }
    let open_all: Value = match s.get_range(..).await {
        Ok(hs) => json!([1, hs.iter().map(|h| it.lookup(h)).collect::<Vec<_>>()]),
        Err(_) => json!([0, []]),
    };
    json!({"stored": ranges_json(&stored), "sampled": ranges_json(&sampled), "pruned": ranges_json(&pruned),
           "head": head, "hh": hh, "byh": byh, "hasat": hasat, "byhash": byhash, "has": has,
           "meta": meta, "metanone": metanone, "rng": rng, "all": open_all})
}

#[derive(Clone, Debug)]
pub enum Op {
    Insert(Vec<ExtendedHeader>),
    Remove(u64),
    Mark(u64),
    Meta(u64, Vec<u64>),
}

pub async fn apply<S: Store>(s: &S, op: &Op) -> u64 {
    match op {
        Op::Insert(b) => code(&s.insert(b.clone()).await),
        Op::Remove(h) => code(&s.remove_height(*h).await),
        Op::Mark(h) => code(&s.mark_as_sampled(*h).await),
        Op::Meta(h, cs) => code(&s.update_sampling_metadata(*h, cs.iter().map(|c| cid_of(*c)).collect()).await),
    }
}

/// The header universe of one history.
pub struct Universe {
    pub a: Vec<ExtendedHeader>,          // honest chain, a[i] has height i+1
    pub forks: Vec<Vec<ExtendedHeader>>, // each a chain sharing `a` below its first height
    pub len: u64,
    /// generator with the chain's key, its clock after the end of the chain
    pub g: ExtendedHeaderGenerator,
    pub after: Time,
}

pub fn universe(rng: &mut StdRng, len: u64, base: Time) -> Universe {
    let mut g = ExtendedHeaderGenerator::new();
    g.set_time(base, Duration::from_secs(1));
    let mut gens = vec![g.clone()];
    let mut a = vec![];
    for _ in 0..len {
        a.push(g.next_empty());
        gens.push(g.clone());
    }
    let mut forks = vec![];
    for _ in 0..4 {
        let k = rng.gen_range(1..len) as usize; // fork's first height is k+1
        let mut f = gens[k].fork();
        let n = (len as usize - k).min(rng.gen_range(2..=12));
        forks.push((0..n).map(|_| f.next_empty()).collect());
    }
    let after = (base + Duration::from_secs(2 * len + 10)).unwrap();
    g.set_time(after, Duration::from_secs(1));
    Universe { a, forks, len, g, after }
}

fn edges(r: &[(u64, u64)]) -> Vec<u64> {
    r.iter().flat_map(|(a, b)| [*a, *b]).collect()
}

/// Draw the next operation, biased towards the interesting places of the current state.
pub fn gen_op(
    rng: &mut StdRng,
    u: &Universe,
    stored: &[(u64, u64)],
    stored_hashes: &HashMap<u64, Hash>,
    pruned: &[(u64, u64)],
) -> Op {
    let g = &u.g;
    let len = u.len;
    let near = |rng: &mut StdRng| -> u64 {
        let e = edges(stored);
        if !e.is_empty() && rng.gen_bool(0.7) {
            let x = *e.choose(rng).unwrap() as i64 + rng.gen_range(-2..=2);
            x.clamp(0, len as i64 + 1) as u64
        } else {
            rng.gen_range(0..=len + 1)
        }
    };
    let slice = |chain: &[ExtendedHeader], first_h: u64, lo: u64, n: u64| -> Vec<ExtendedHeader> {
        // heights lo..lo+n-1 of a chain whose element 0 has height first_h
        (lo..lo + n)
            .filter_map(|h| h.checked_sub(first_h).and_then(|i| chain.get(i as usize)).cloned())
            .collect()
    };
    match rng.gen_range(0..100) {
        0..=54 => {
            // insert
            let kind = rng.gen_range(0..100);
            let n = rng.gen_range(1..=8);
            // choose a start: mostly admissible placements (above head, touching a range from
            // either side, filling a gap exactly or partially), sometimes anywhere
            let mut n = n;
            let mut cands: Vec<(u64, u64)> = vec![];
            if let Some(last) = stored.last() {
                if last.1 < len {
                    cands.push((last.1 + 1, n));
                    cands.push((last.1 + 1 + rng.gen_range(1..3), n)); // new head range with a gap
                }
                let first = stored[0];
                if first.0 > 1 {
                    let m = n.min(first.0 - 1);
                    cands.push((first.0 - m, m));
                }
                for i in 0..stored.len() - 1 {
                    let (lo, hi) = (stored[i].1 + 1, stored[i + 1].0 - 1);
                    let gap = hi - lo + 1;
                    cands.push((lo, gap)); // exact fill
                    let m = n.min(gap);
                    cands.push((lo, m)); // left aligned
                    cands.push((hi + 1 - m, m)); // right aligned
                }
            } else {
                cands.push((rng.gen_range(1..=len), n));
            }
            // batches that cover a pruned island with a margin on either side (re-insertion after
            // removal: the island must leave the pruned set)
            for (a, b) in pruned {
                let lo = a.saturating_sub(rng.gen_range(0..3)).max(1);
                let hi = (*b + rng.gen_range(0..3)).min(len);
                cands.push((lo, hi - lo + 1));
                // ... reaching up to the stored range above it / down to the one below it, so that the
                // batch is admissible and the island lies strictly inside it
                let up = stored.iter().map(|r| r.0).filter(|x| *x > *b).min();
                let dn = stored.iter().map(|r| r.1).filter(|x| *x < *a).max();
                if let Some(up) = up {
                    let lo2 = a.saturating_sub(rng.gen_range(1..3)).max(dn.map(|d| d + 1).unwrap_or(1));
                    if up - 1 >= lo2 && up - lo2 <= 14 {
                        cands.push((lo2, up - lo2));
                        cands.push((lo2, up - lo2));
                    }
                }
                if let Some(dn) = dn {
                    let hi2 = (*b + rng.gen_range(1..3)).min(up.map(|u| u - 1).unwrap_or(len));
                    if hi2 > dn && hi2 - dn <= 14 {
                        cands.push((dn + 1, hi2 - dn));
                    }
                }
            }
            let start = if !cands.is_empty() && rng.gen_bool(0.75) {
                let c = *cands.choose(rng).unwrap();
                n = c.1.max(1);
                c.0
            } else {
                near(rng).max(1)
            };
            let mut b = slice(&u.a, 1, start, n.min(12));
            match kind {
                0..=44 => {}
                45..=59 => {
                    // fork slice
                    let f = u.forks.choose(rng).unwrap();
                    let fh = f[0].height();
                    let lo = if rng.gen_bool(0.5) { fh } else { fh + rng.gen_range(0..f.len() as u64) };
                    b = slice(f, fh, lo, n.min(6));
                    if rng.gen_bool(0.3) && lo == fh {
                        // prefix from the honest chain then the fork
                        let mut p = slice(&u.a, 1, fh.saturating_sub(2).max(1), fh - fh.saturating_sub(2).max(1));
                        p.extend(b);
                        b = p;
                    }
                }
                60..=74 => {
                    // a header advertising an already used hash at first / middle / last position
                    if !b.is_empty() {
                        let pos = match rng.gen_range(0..3) {
                            0 => 0,
                            1 => b.len() / 2,
                            _ => b.len() - 1,
                        };
                        // The altered header does not validate (its advertised hash is not its
                        // header hash), so it is only ever used in batches that must be rejected:
                        // the donor hash is currently stored, or belongs to an earlier header of
                        // the same batch.  (Stores do not validate; inserting a never-seen
                        // non-validating header is outside the store's contract.)
                        let donor_hash = if !stored.is_empty() && (pos == 0 || rng.gen_bool(0.8)) {
                            let r = stored.choose(rng).unwrap();
                            let donor = rng.gen_range(r.0..=r.1);
                            stored_hashes.get(&donor).copied()
                        } else if pos > 0 {
                            Some(b[rng.gen_range(0..pos)].hash())
                        } else {
                            None
                        };
                        let Some(donor_hash) = donor_hash else {
                            return Op::Insert(b);
                        };
                        b[pos].commit.block_id.hash = donor_hash;
                        // rebuild the rest of the batch on top of the altered header
                        for i in pos + 1..b.len() {
                            // next_of() does not advance the generator clock: give every
                            // successor its own, later, time
                            let mut gg = g.clone();
                            let t = (u.after + Duration::from_secs(i as u64)).unwrap();
                            gg.set_time(t, Duration::from_secs(1));
                            b[i] = gg.next_of(&b[i - 1]);
                        }
                        if rng.gen_bool(0.3) && pos + 1 < b.len() {
                            b.truncate(pos + 2);
                        }
                    }
                }
                75..=77 => {
                    if !b.is_empty() {
                        let i = rng.gen_range(0..b.len());
                        unverify(&mut b[i]);
                    }
                }
                78..=86 => {
                    // headers that keep their advertised hash but do not link to one neighbour: the first
                    // header points to another parent (lower link), or the last one announces another next
                    // validator set (upper link).  Only the store's neighbour verification can notice.
                    // (such headers do not validate, so -- like the duplicate-hash family -- they are only
                    // used where the batch must be rejected: the neighbour in question is stored)
                    if !b.is_empty() {
                        let is_stored = |h: u64| stored.iter().any(|(a, e)| *a <= h && h <= *e);
                        let lo = b[0].height();
                        let hi = b[b.len() - 1].height();
                        let lower = lo > 1 && is_stored(lo - 1);
                        let upper = is_stored(hi + 1);
                        if lower && (!upper || rng.gen_bool(0.5)) {
                            if let Some(id) = b[0].header.last_block_id.as_mut() {
                                id.hash = celestia_types::hash::Hash::Sha256(rng.r#gen());
                            }
                        } else if upper {
                            let k = b.len() - 1;
                            b[k].header.next_validators_hash = celestia_types::hash::Hash::Sha256(rng.r#gen());
                        }
                        // Two independent defects in one batch (error precedence is part of the abstract model:
                        // constraints, then neighbours, then the hash index): the batch does not link to a stored
                        // neighbour AND one of its headers advertises a hash that is already stored or is repeated
                        // inside the batch.  Placed at the far end from the broken link.
                        if (lower || upper) && rng.gen_bool(0.4) {
                            let broke_lower = lower && b[0].header.last_block_id.map(|id| id.hash) != u.a.get((lo - 1) as usize).and_then(|h| h.header.last_block_id.map(|id| id.hash));
                            let pos = if broke_lower { b.len() - 1 } else { 0 };
                            let donor_hash = if pos > 0 && rng.gen_bool(0.3) {
                                Some(b[rng.gen_range(0..pos)].hash())
                            } else if !stored.is_empty() {
                                let r = stored.choose(rng).unwrap();
                                stored_hashes.get(&rng.gen_range(r.0..=r.1)).copied()
                            } else {
                                None
                            };
                            if let Some(d) = donor_hash {
                                b[pos].commit.block_id.hash = d;
                                TWO_DEFECT_BATCHES.fetch_add(1, std::sync::atomic::Ordering::Relaxed);
                            }
                        }
                    }
                }
                87..=90 => {
                    b.shuffle(rng);
                }
                91..=96 => {
                    // hole inside the batch
                    // (right after the first header, in the middle, or before the last one)
                    if b.len() >= 3 {
                        let i = match rng.gen_range(0..3) {
                            0 => 1,
                            1 => b.len() / 2,
                            _ => b.len() - 2,
                        };
                        b.remove(i);
                    }
                }
                _ => b.clear(),
            }
            Op::Insert(b)
        }
        55..=74 => {
            // mostly near a range edge; sometimes eat away the shortest stored run (its heights become a
            // pruned island whose neighbours were never synced)
            if !stored.is_empty() && rng.gen_bool(0.3) {
                let r = stored.iter().min_by_key(|r| r.1 - r.0).unwrap();
                Op::Remove(if rng.gen_bool(0.5) { r.0 } else { r.1 })
            } else {
                Op::Remove(near(rng))
            }
        }
        75..=86 => Op::Mark(near(rng)),
        _ => {
            let k = rng.gen_range(1..=3);
            Op::Meta(near(rng), (0..k).map(|_| rng.gen_range(1..=6)).collect())
        }
    }
}

/// Two batches to insert CONCURRENTLY (from two threads at the same instant).  Whatever the schedule, the outcome
/// must be explained by one of the two sequential orders (Trace_Store "par" events).  Families: the same batch
/// twice; overlapping batches; an honest batch and an adjacent batch of a fork (only one of them can be stored);
/// the two halves that close a gap; an independent pair.
pub fn gen_par(rng: &mut StdRng, u: &Universe, stored: &[(u64, u64)], interfering_only: bool) -> Option<(Vec<ExtendedHeader>, Vec<ExtendedHeader>)> {
    let len = u.len;
    let hon = |lo: u64, hi: u64| -> Vec<ExtendedHeader> { (lo..=hi).filter(|h| *h >= 1 && *h <= len).map(|h| u.a[(h - 1) as usize].clone()).collect() };
    // a free stretch next to the stored ranges: above the head, or the gap below the top range
    let head = stored.last().map(|r| r.1).unwrap_or(0);
    let (lo, hi) = if head + 2 <= len && rng.gen_bool(0.6) {
        (head + 1, (head + rng.gen_range(2..=8)).min(len))
    } else if let Some(top) = stored.last() {
        let below = if stored.len() >= 2 { stored[stored.len() - 2].1 } else { 0 };
        if top.0 >= below + 3 { ((top.0 - rng.gen_range(2..=6).min(top.0 - below - 1)).max(below + 1), top.0 - 1) } else { return None }
    } else {
        (1.max(len / 2), (len / 2 + 6).min(len))
    };
    if hi < lo + 1 {
        return None;
    }
    let mid = rng.gen_range(lo..hi);
    let fam = if interfering_only { *[1, 1, 2, 2, 4].choose(rng).unwrap() } else { rng.gen_range(0..5) };
    let pair = match fam {
        0 => (hon(lo, hi), hon(lo, hi)),
        1 => (hon(lo, mid), hon(lo.max(2) - 1, hi)),
        2 => (hon(mid, hi), hon(lo, mid)),
        3 => (hon(lo, mid), hon(mid + 1, hi)),
        _ => {
            // honest lower part, fork upper part (heights above the fork's first one, so that it links to the fork)
            let f = u.forks.iter().filter(|f| f.len() >= 2).find(|f| { let first = f[0].height(); first < hi && first + 1 >= lo });
            match f {
                Some(f) => {
                    let first = f[0].height();
                    let cut = (first + 1).max(lo + 1).min(hi);
                    let upper: Vec<ExtendedHeader> = f.iter().filter(|h| h.height() >= cut && h.height() <= hi).cloned().collect();
                    if upper.is_empty() { (hon(lo, mid), hon(mid + 1, hi)) } else { (hon(lo, cut - 1), upper) }
                }
                None => (hon(lo, mid), hon(mid + 1, hi)),
            }
        }
    };
    if pair.0.is_empty() || pair.1.is_empty() { None } else { Some(pair) }
}

static TWO_DEFECT_BATCHES: std::sync::atomic::AtomicU64 = std::sync::atomic::AtomicU64::new(0);

async fn history<S: Store>(
    s: &S,
    backend: &str,
    seed: u64,
    run: u64,
    ops: u64,
    len: u64,
    tw: &mut TraceWriter,
    sum: &mut Summary,
) -> (Vec<u64>, Vec<String>, Vec<String>) {
    let mut rng = StdRng::seed_from_u64(seed.wrapping_mul(1_000_003).wrapping_add(run));
    // the sampling metadata as returned (sorted, multiplicities kept) after every sequential operation: the two
    // back-ends conform to ONE model, so they must agree with each other on it
    let mut metas: Vec<String> = vec![];
    // everything else of the projection: as long as the two back-ends agree on it, they went through the same
    // operations (also after a concurrent pair) and must agree on the metadata too
    let mut sigs: Vec<String> = vec![];
    let now = Time::now();
    let base = (now - Duration::from_secs(1_000_000)).unwrap();
    let mut it = Intern { base_secs: base.unix_timestamp(), ..Default::default() };
    // the universe must be identical for both backends: generator keys are random, but the trace
    // only carries interned ids, which are assigned in order of first use.
    let u = universe(&mut rng, len, base);
    tw.emit(json!({"name": "reset", "backend": backend, "run": run}));
    let mut results = vec![];
    let mut had_fail_insert = false;
    let mut had_remove = false;
    let mut reinsert = false;
    for _ in 0..ops {
        let stored: Vec<(u64, u64)> =
            s.get_stored_header_ranges().await.unwrap().as_ref().iter().map(|r| (*r.start(), *r.end())).collect();
        let pruned = s.get_pruned_ranges().await.unwrap();
        let mut stored_hashes = HashMap::new();
        for (a, b) in &stored {
            for h in *a..=*b {
                if let Ok(Ok(x)) = std::panic::AssertUnwindSafe(s.get_by_height(h)).catch_unwind().await {
                    stored_hashes.insert(h, x.hash());
                }
            }
        }
        let pruned_runs: Vec<(u64, u64)> = pruned.as_ref().iter().map(|r| (*r.start(), *r.end())).collect();
        if rng.gen_bool(0.07) {
            if let Some((a, b)) = gen_par(&mut rng, &u, &stored, false) {
                let mut ids = (vec![], vec![]);
                for (batch, out) in [(&a, &mut ids.0), (&b, &mut ids.1)] {
                    for h in batch {
                        let (id, d) = it.header(h);
                        if let Some(d) = d {
                            tw.emit(json!({"name": "hdr", "d": d}));
                        }
                        out.push(id);
                    }
                }
                let (ra, rb) = insert_concurrently(s, a, b);
                let mut ev = json!({"name": "par", "a": ids.0, "b": ids.1, "ra": ra, "rb": rb});
                if ra == 99 || rb == 99 {
                    ev["name"] = json!("panic");
                    ev["op"] = json!("concurrent-insert");
                    ev["why"] = json!("a concurrent insert panicked");
                    tw.emit(ev);
                    sum.add("panics", 1);
                    break;
                }
                match std::panic::AssertUnwindSafe(project(s, &it, len)).catch_unwind().await {
                    Ok(st) => ev["st"] = st,
                    Err(_) => {
                        ev["name"] = json!("panic");
                        ev["op"] = json!("query-after-concurrent-insert");
                        ev["why"] = json!("query panicked");
                        tw.emit(ev);
                        sum.add("panics", 1);
                        break;
                    }
                }
                // from here on the two back-ends may legitimately be in different states (either order is allowed)
                results.push(777);
                sum.add("concurrent_insert_pairs", 1);
                if ra != R_OK || rb != R_OK {
                    sum.add("concurrent_insert_pairs_with_a_refusal", 1);
                }
                for p in ["C19", "C20", "C21"] {
                    sum.case(p, Some(format!("{backend}/{run}/{}", tw.events)), || ev.clone());
                }
                tw.emit(ev);
                continue;
            }
        }
        let op = gen_op(&mut rng, &u, &stored, &stored_hashes, &pruned_runs);
        let mut ev = match &op {
            Op::Insert(b) => {
                let mut ids = vec![];
                for h in b {
                    let (id, d) = it.header(h);
                    if let Some(d) = d {
                        tw.emit(json!({"name": "hdr", "d": d}));
                    }
                    ids.push(id);
                }
                json!({"name": "insert", "b": ids})
            }
            Op::Remove(h) => json!({"name": "remove", "h": h}),
            Op::Mark(h) => json!({"name": "mark", "h": h}),
            Op::Meta(h, cs) => json!({"name": "meta", "h": h, "cs": cs}),
        };
        let op2 = op.clone();
        let r = match std::panic::AssertUnwindSafe(apply(s, &op2)).catch_unwind().await {
            Ok(r) => r,
            Err(e) => {
                let why = e.downcast_ref::<String>().cloned().or_else(|| e.downcast_ref::<&str>().map(|s| s.to_string())).unwrap_or_default();
                ev["name"] = json!("panic");
                ev["op"] = json!(format!("{:?}", match &op { Op::Insert(_) => "insert", Op::Remove(_) => "remove", Op::Mark(_) => "mark", Op::Meta(..) => "meta" }));
                ev["why"] = json!(why);
                tw.emit(ev);
                sum.add("panics", 1);
                break;
            }
        };
        results.push(r);
        match (&op, r) {
            (Op::Insert(b), R_OK) => {
                if b.iter().any(|h| pruned.contains(h.height())) {
                    reinsert = true;
                }
            }
            (Op::Insert(_), _) => had_fail_insert = true,
            (Op::Remove(_), R_OK) => had_remove = true,
            _ => {}
        }
        ev["res"] = json!(r);
        // the projection queries run under catch too: a store left inconsistent by the operation may
        // panic in a later query, which is an observation, not a harness failure
        match std::panic::AssertUnwindSafe(project(s, &it, len)).catch_unwind().await {
            Ok(st) => {
                metas.push(st["meta"].to_string());
                sigs.push(format!("{}|{}|{}|{}|{}", st["stored"], st["sampled"], st["pruned"], st["byh"], st["metanone"]));
                ev["st"] = st
            }
            Err(e) => {
                let why = e.downcast_ref::<String>().cloned().or_else(|| e.downcast_ref::<&str>().map(|s| s.to_string())).unwrap_or_default();
                ev["res"] = json!(r);
                ev["name"] = json!("panic");
                ev["op"] = json!("query-after-op");
                ev["why"] = json!(why);
                tw.emit(ev);
                sum.add("panics", 1);
                break;
            }
        }
        let key = if r != R_OK { Some(format!("{backend}/{run}/{}", tw.events)) } else { None };
        for p in ["C19", "C20", "C21"] {
            let k = if p == "C20" { key.clone() } else { Some(format!("{backend}/{run}/{}", tw.events)) };
            sum.case(p, k, || ev.clone());
        }
        tw.emit(ev);
    }
    if had_fail_insert && had_remove && reinsert {
        sum.add("histories_with_failed_insert_removal_and_reinsertion", 1);
    }
    (results, metas, sigs)
}

/// Run two arbitrary operations from two OS threads released by a spinning start line.
fn apply_concurrently<S: Store>(s: &S, x: &Op, y: &Op, spin_x: u32, spin_y: u32) -> (u64, u64) {
    use std::sync::atomic::{AtomicBool, AtomicU32, Ordering};
    // a spinning start line: both threads are released within nanoseconds of each other, then each burns its
    // own small random head start, so that the runs scan the relative timings of the two operations
    let (ready, go) = (AtomicU32::new(0), AtomicBool::new(false));
    std::thread::scope(|sc| {
        let hx = sc.spawn(|| {
            let rt = tokio::runtime::Builder::new_current_thread().enable_all().build().unwrap();
            ready.fetch_add(1, Ordering::SeqCst);
            while !go.load(Ordering::Acquire) {
                std::hint::spin_loop();
            }
            for i in 0..spin_x {
                std::hint::black_box(i);
            }
            rt.block_on(apply(s, x))
        });
        let hy = sc.spawn(|| {
            let rt = tokio::runtime::Builder::new_current_thread().enable_all().build().unwrap();
            ready.fetch_add(1, Ordering::SeqCst);
            while !go.load(Ordering::Acquire) {
                std::hint::spin_loop();
            }
            for i in 0..spin_y {
                std::hint::black_box(i);
            }
            rt.block_on(apply(s, y))
        });
        while ready.load(Ordering::SeqCst) < 2 {
            std::hint::spin_loop();
        }
        go.store(true, Ordering::Release);
        (hx.join().unwrap_or(99), hy.join().unwrap_or(99))
    })
}

/// Two inserts at the same instant.
fn insert_concurrently<S: Store>(s: &S, a: Vec<ExtendedHeader>, b: Vec<ExtendedHeader>) -> (u64, u64) {
    let n = (a.len() as u32 * 7919 + b.len() as u32 * 104729) % 3000;
    apply_concurrently(s, &Op::Insert(a), &Op::Insert(b), n, 3000 - n)
}

/// Many short histories, each: a stored range, then ONE pair of interfering inserts issued concurrently (overlapping
/// batches, honest + fork).  A race between two writers needs the right instant; volume gives it the chance.
async fn par_stress<S: Store>(mk: &mut dyn FnMut() -> S, backend: &str, seed: u64, rounds: u64, len: u64, tw: &mut TraceWriter, sum: &mut Summary) {
    let mut rng = StdRng::seed_from_u64(seed.wrapping_mul(7_000_003) ^ 0x9a7);
    let now = Time::now();
    let base = (now - Duration::from_secs(1_000_000)).unwrap();
    let u = universe(&mut rng, len, base);
    for round in 0..rounds {
        let s = mk();
        let mut it = Intern { base_secs: base.unix_timestamp(), ..Default::default() };
        tw.emit(json!({"name": "reset", "backend": backend, "run": 5000 + round}));
        let p = rng.gen_range(1..len / 2);
        let q = if round % 2 == 1 { (p + 11).min(len - 5) } else { p + rng.gen_range(0..4) };
        let pre: Vec<ExtendedHeader> = (p..=q).map(|h| u.a[(h - 1) as usize].clone()).collect();
        let mut emit_ids = |batch: &Vec<ExtendedHeader>, it: &mut Intern, tw: &mut TraceWriter| -> Vec<u64> {
            let mut ids = vec![];
            for h in batch {
                let (id, d) = it.header(h);
                if let Some(d) = d {
                    tw.emit(json!({"name": "hdr", "d": d}));
                }
                ids.push(id);
            }
            ids
        };
        let ids = emit_ids(&pre, &mut it, tw);
        let r = code(&s.insert(pre).await);
        tw.emit(json!({"name": "insert", "b": ids, "res": r, "st": project(&s, &it, len).await}));
        if round % 2 == 1 {
            // the node's real concurrency: the syncer inserts next to / the pruner removes / the sampler marks and
            // records metadata on the same heights at the same instant
          let mut top = q;
          for target0 in p..=q {
            // (a tiny random head start for one side varies the instant at which the two meet)
            let above: Vec<ExtendedHeader> = (top + 1..=(top + rng.gen_range(1..=2)).min(len)).map(|h| u.a[(h - 1) as usize].clone()).collect();
            let target = if rng.gen_bool(0.8) { target0 } else { top + 1 };
            let other = match rng.gen_range(0..3) {
                0 => Op::Remove(target),
                1 => Op::Mark(target),
                _ => Op::Meta(target, vec![rng.gen_range(1..=6), rng.gen_range(1..=6)]),
            };
            let (x, y) = match rng.gen_range(0..4) {
                0 if !above.is_empty() => (Op::Insert(above), other),
                1 => (Op::Remove(target), Op::Mark(target)),
                2 => (Op::Remove(target), Op::Meta(target, vec![rng.gen_range(1..=6)])),
                _ if !above.is_empty() => (other, Op::Insert(above)),
                _ => (Op::Mark(target), Op::Meta(target, vec![rng.gen_range(1..=6)])),
            };
            let mut enc = |o: &Op, it: &mut Intern, tw: &mut TraceWriter| -> Value {
                match o {
                    Op::Insert(b) => json!({"k": "insert", "b": emit_ids(b, it, tw), "h": 0, "cs": []}),
                    Op::Remove(h) => json!({"k": "remove", "b": [], "h": h, "cs": []}),
                    Op::Mark(h) => json!({"k": "mark", "b": [], "h": h, "cs": []}),
                    Op::Meta(h, cs) => json!({"k": "meta", "b": [], "h": h, "cs": cs}),
                }
            };
            let (ex, ey) = (enc(&x, &mut it, tw), enc(&y, &mut it, tw));
            let (rx, ry) = apply_concurrently(&s, &x, &y, rng.gen_range(0..3000), rng.gen_range(0..3000));
            let mut ev = json!({"name": "par2", "x": ex, "y": ey, "rx": rx, "ry": ry, "ra": rx, "rb": ry});
            if rx == 99 || ry == 99 {
                ev["name"] = json!("panic");
                ev["op"] = json!("concurrent-operations");
                ev["why"] = json!("a concurrent operation panicked");
                tw.emit(ev);
                sum.add("panics", 1);
                continue;
            }
            match std::panic::AssertUnwindSafe(project(&s, &it, len)).catch_unwind().await {
                Ok(st) => ev["st"] = st,
                Err(_) => {
                    ev["name"] = json!("panic");
                    ev["op"] = json!("query-after-concurrent-operations");
                    ev["why"] = json!("query panicked");
                    tw.emit(ev);
                    sum.add("panics", 1);
                    continue;
                }
            }
            sum.add("concurrent_mixed_pairs", 1);
            for pr in ["C19", "C20", "C21"] {
                sum.case(pr, Some(format!("{backend}/stress2/{round}/{target0}")), || ev.clone());
            }
            if let Some(r) = ev["st"]["stored"].as_array().and_then(|a| a.last()).and_then(|r| r[1].as_u64()) {
                top = top.max(r);
            }
            tw.emit(ev);
          }
            continue;
        }
        let Some((a, b)) = gen_par(&mut rng, &u, &[(p, q)], true) else { continue };
        let (ia, ib) = (emit_ids(&a, &mut it, tw), emit_ids(&b, &mut it, tw));
        let (ra, rb) = insert_concurrently(&s, a, b);
        let mut ev = json!({"name": "par", "a": ia, "b": ib, "ra": ra, "rb": rb});
        if ra == 99 || rb == 99 {
            ev["name"] = json!("panic");
            ev["op"] = json!("concurrent-insert");
            ev["why"] = json!("a concurrent insert panicked");
            tw.emit(ev);
            sum.add("panics", 1);
            continue;
        }
        match std::panic::AssertUnwindSafe(project(&s, &it, len)).catch_unwind().await {
            Ok(st) => ev["st"] = st,
            Err(_) => {
                ev["name"] = json!("panic");
                ev["op"] = json!("query-after-concurrent-insert");
                ev["why"] = json!("query panicked");
                tw.emit(ev);
                sum.add("panics", 1);
                continue;
            }
        }
        sum.add("concurrent_insert_pairs", 1);
        sum.add("concurrent_interfering_pairs", 1);
        for pr in ["C19", "C20", "C21"] {
            sum.case(pr, Some(format!("{backend}/stress/{round}")), || ev.clone());
        }
        tw.emit(ev);
    }
}

pub fn record(args: &Args) {
    let seed = args.opt_u64("seed", 1);
    let runs = args.opt_u64("runs", 4);
    let ops = args.opt_u64("ops", 300);
    let len = args.opt_u64("len", 60);
    let file_backed = args.opt("redb-file").is_some();
    let out = args.opt("out").expect("--out").to_string();
    let mut tw = TraceWriter::create(&out);
    let mut sum = Summary::new("store-record");
    let rt = tokio::runtime::Builder::new_current_thread().enable_all().build().unwrap();
    h_common::QUIET_ALL.store(true, std::sync::atomic::Ordering::Relaxed);
    let mut disagreements = vec![];
    let mut meta_disagreements = vec![];
    rt.block_on(async {
        for run in 0..runs {
            // every other run goes through `EitherStore` (the type the node binary uses to choose a back-end at run
            // time): Left(mem) / Right(redb) must answer exactly as the wrapped store does
            let either = run % 2 == 1;
            let mem = InMemoryStore::new();
            let (r1, m1, g1) = if either {
                let e: EitherStore<InMemoryStore, RedbStore> = EitherStore::Left(mem);
                history(&e, "mem", seed, run, ops, len, &mut tw, &mut sum).await
            } else {
                history(&mem, "mem", seed, run, ops, len, &mut tw, &mut sum).await
            };
            let redb = if file_backed {
                let p = format!("{}/store-{run}.redb", args.opt("redb-file").unwrap());
                let _ = std::fs::remove_file(&p);
                RedbStore::open(&p).await.unwrap()
            } else {
                RedbStore::in_memory().await.unwrap()
            };
            let (r2, m2, g2) = if either {
                let e: EitherStore<InMemoryStore, RedbStore> = EitherStore::Right(redb);
                history(&e, "redb", seed, run, ops, len, &mut tw, &mut sum).await
            } else {
                history(&redb, "redb", seed, run, ops, len, &mut tw, &mut sum).await
            };
            let upto = r1.iter().position(|x| *x == 777).unwrap_or(r1.len()).min(r2.iter().position(|x| *x == 777).unwrap_or(r2.len()));
            let same_upto = (0..g1.len().min(g2.len())).find(|i| g1[*i] != g2[*i]).unwrap_or(g1.len().min(g2.len()));
            if let Some(i) = (0..same_upto.min(m1.len()).min(m2.len())).find(|i| m1[*i] != m2[*i]) {
                meta_disagreements.push(json!({"run": run, "op_index": i, "mem": m1[i], "redb": m2[i]}));
            }
            if let Some(i) = (0..upto).find(|i| r1[*i] != r2[*i]) {
                disagreements.push(json!({"run": run, "op_index": i, "mem": r1[i], "redb": r2[i]}));
            }
        }
        let stress = args.opt_u64("stress", 0);
        if stress > 0 {
            par_stress(&mut || InMemoryStore::new(), "mem", seed, stress, len.min(40), &mut tw, &mut sum).await;
            let mut redbs: Vec<RedbStore> = vec![];
            for _ in 0..stress / 4 {
                redbs.push(RedbStore::in_memory().await.unwrap());
            }
            par_stress(&mut || redbs.pop().unwrap(), "redb", seed, stress / 4, len.min(40), &mut tw, &mut sum).await;
        }
    });
    let n = tw.finish();
    sum.set("events", json!(n));
    sum.set("runs", json!(runs * 2));
    sum.set("runs_through_either_store", json!(runs / 2 * 2));
    sum.set("two_defect_batches", json!(TWO_DEFECT_BATCHES.load(std::sync::atomic::Ordering::Relaxed)));
    sum.set("backend_result_disagreements", json!(disagreements));
    sum.set("backend_metadata_disagreements", json!(meta_disagreements));
    sum.write(args.opt("summary").unwrap_or("/dev/stdout"));
}
