//! C26 / C27: the real `HeaderSession` (and `P2p::get_verified_headers_range`) over the mocked P2p
//! command channel.  `record`: seeded adversarial responders, every request / answer logged for
//! Trace_HeaderSession.  `replay` (model "vrange"): the TLC table of C27 cases.

use std::time::Duration;

use celestia_types::test_utils::ExtendedHeaderGenerator;
use celestia_types::ExtendedHeader;
use h_common::{read_cases, Args, Summary, TraceWriter};
use lumina_node::test_utils::MockP2pHandle;
use lumina_node::verif::workers::{self as w, MockCmd};
use rand::rngs::StdRng;
use rand::{Rng, SeedableRng};
use serde_json::{json, Value};
use tokio::sync::oneshot;

type Responder = oneshot::Sender<Result<Vec<ExtendedHeader>, lumina_node::node::P2pError>>;

/// Let every other task run until it blocks (paused clock: the sleep completes only then).
pub async fn settle() {
    tokio::time::sleep(Duration::from_millis(1)).await;
}

fn origin_amount(req: &celestia_proto::p2p::pb::HeaderRequest) -> (u64, u64) {
    use celestia_proto::p2p::pb::header_request::Data;
    match &req.data {
        Some(Data::Origin(h)) => (*h, req.amount),
        _ => (0, req.amount),
    }
}

fn drain(handle: &mut MockP2pHandle, pending: &mut Vec<(u64, u64, Responder)>, tw: Option<&mut TraceWriter>) {
    let mut tw = tw;
    while let Some(cmd) = w::try_recv_cmd(handle) {
        if let MockCmd::HeaderEx { request, respond_to } = cmd {
            let (h, amt) = origin_amount(&request);
            if let Some(tw) = tw.as_deref_mut() {
                tw.emit(json!({"name": "req", "h": h, "amt": amt}));
            }
            pending.push((h, amt, respond_to));
        }
    }
}

fn spans_of(hs: &[ExtendedHeader]) -> Vec<[u64; 2]> {
    let mut out: Vec<[u64; 2]> = vec![];
    for h in hs {
        let x = h.height();
        match out.last_mut() {
            Some(l) if l[1] + 1 == x => l[1] = x,
            _ => out.push([x, x]),
        }
    }
    out
}

pub fn record(args: &Args) {
    let seed = args.opt_u64("seed", 1);
    let runs = args.opt_u64("runs", 30);
    let max_len = args.opt_u64("maxlen", 300);
    let mut tw = TraceWriter::create(args.opt("out").expect("--out"));
    let mut sum = Summary::new("session-record");
    let mut rng = StdRng::seed_from_u64(seed);
    h_common::QUIET_ALL.store(true, std::sync::atomic::Ordering::Relaxed);
    let rt = tokio::runtime::Builder::new_current_thread().enable_all().start_paused(true).build().unwrap();
    let mut g = ExtendedHeaderGenerator::new();
    let chain = g.next_many_empty(max_len + 60);
    let specials = [1u64, 7, 8, 9, 16, 63, 64, 65, 128, 511, 512, 513, 520, 600, 1000, 2000];
    rt.block_on(async {
        for run in 0..runs {
            let len = if run % 5 == 1 {
                // long ranges: more than MAX_CONCURRENT_REQS batches of MAX_AMOUNT_PER_REQ
                rng.gen_range(513..=max_len.max(514))
            } else if run % 3 == 0 {
                let s: Vec<u64> = specials.iter().copied().filter(|x| *x <= max_len).collect();
                s[rng.gen_range(0..s.len())]
            } else {
                rng.gen_range(1..=max_len)
            };
            let lo = rng.gen_range(1..=50u64);
            let (p2p, mut handle) = w::mocked_p2p();
            tw.emit(json!({"name": "start", "lo": lo, "len": len}));
            let p2 = p2p.clone();
            let task = tokio::spawn(async move { w::header_session_run(&p2, lo..=lo + len - 1).await });
            let mut pending: Vec<(u64, u64, Responder)> = vec![];
            // per-run adversary profile
            let p_prefix = [0.0, 0.1, 0.3, 0.6][rng.gen_range(0..4)];
            let p_err = [0.0, 0.05, 0.2][rng.gen_range(0..3)];
            let p_fatal = if rng.gen_bool(0.1) { 0.02 } else { 0.0 };
            let mut interactions = 0u64;
            let (mut n_empty, mut n_partial, mut n_err) = (0, 0, 0);
            let budget = 3 * len + 200;
            loop {
                settle().await;
                drain(&mut handle, &mut pending, Some(&mut tw));
                if task.is_finished() {
                    break;
                }
                if pending.is_empty() {
                    // neither finished nor asking: stuck
                    tw.emit(json!({"name": "stuck"}));
                    break;
                }
                let i = rng.gen_range(0..pending.len());
                let (h, amt, tx) = pending.swap_remove(i);
                interactions += 1;
                let calm = interactions > budget;
                let serve = |k: u64| -> Vec<ExtendedHeader> { chain[(h - 1) as usize..(h - 1 + k) as usize].to_vec() };
                if !calm && rng.gen_bool(p_fatal) {
                    tw.emit(json!({"name": "fatal", "h": h, "amt": amt}));
                    let _ = tx.send(Err(w::header_ex_error("worker_died")));
                } else if !calm && rng.gen_bool(p_err) {
                    n_err += 1;
                    tw.emit(json!({"name": "hxerr", "h": h, "amt": amt}));
                    let kinds = ["not_found", "invalid_response", "outbound_failure"];
                    let _ = tx.send(Err(w::header_ex_error(kinds[rng.gen_range(0..3)])));
                } else if !calm && amt > 0 && rng.gen_bool(p_prefix) {
                    let k = rng.gen_range(0..amt);
                    if k == 0 { n_empty += 1 } else { n_partial += 1 }
                    tw.emit(json!({"name": "resp", "h": h, "amt": amt, "k": k}));
                    let _ = tx.send(Ok(serve(k)));
                } else {
                    tw.emit(json!({"name": "resp", "h": h, "amt": amt, "k": amt}));
                    let _ = tx.send(Ok(serve(amt)));
                }
            }
            let res = task.await;
            let ev = match res {
                Ok(Ok(hs)) => json!({"name": "finish", "ok": 1, "spans": spans_of(&hs), "count": hs.len()}),
                Ok(Err(e)) => json!({"name": "finish", "ok": 0, "spans": [], "err": e.to_string()}),
                Err(e) => json!({"name": "panic", "why": e.to_string()}),
            };
            let nontrivial = n_empty >= 1 && n_partial >= 1 && n_err >= 1;
            sum.case("C26", if nontrivial { Some(format!("{run}")) } else { None },
                     || json!({"lo": lo, "len": len, "interactions": interactions, "empty": n_empty, "partial": n_partial, "errors": n_err, "finish": ev}));
            tw.emit(ev);
        }
    });
    let n = tw.finish();
    sum.set("events", json!(n));
    sum.set("runs", json!(runs));
    sum.write(args.opt("summary").unwrap_or("/dev/stdout"));
}

/// C27: `get_verified_headers_range(from, amount)` against a responder that answers like the real
/// header-ex client.  Cases come from Gen_VerifiedRange (height symbolic `h`, amount as
/// {"v": n} or {"max_minus": k}); expected class from the spec.
pub fn replay_vrange(args: &Args) {
    let cases = read_cases(args.pos(2));
    let mut sum = Summary::new("vrange");
    h_common::QUIET_ALL.store(true, std::sync::atomic::Ordering::Relaxed);
    let rt = tokio::runtime::Builder::new_current_thread().enable_all().start_paused(true).build().unwrap();
    let mut g = ExtendedHeaderGenerator::new();
    let chain = g.next_many_empty(700);
    rt.block_on(async {
        for c in &cases {
            let h = c["h"].as_u64().unwrap();
            let amount: u64 = match c["amount"].get("max_minus") {
                Some(k) => u64::MAX - k.as_u64().unwrap(),
                None => c["amount"]["v"].as_u64().unwrap(),
            };
            let expect = c["expect"].as_str().unwrap();
            h_common::current_case(c);
            let serve_all = c["serve"].as_u64().unwrap_or(1) == 1;
            let from = chain[(h - 1) as usize].clone();
            let (p2p, mut handle) = w::mocked_p2p();
            let p2 = p2p.clone();
            let task = tokio::spawn(async move { p2.get_verified_headers_range(&from, amount).await });
            let mut pending: Vec<(u64, u64, Responder)> = vec![];
            let mut interactions = 0u64;
            let limit = 400u64;
            loop {
                settle().await;
                drain(&mut handle, &mut pending, None);
                if task.is_finished() || interactions >= limit {
                    break;
                }
                if pending.is_empty() {
                    break;
                }
                let (o, amt, tx) = pending.remove(0);
                interactions += 1;
                // the real client: invalid request -> InvalidRequest; missing -> HeaderNotFound
                let ans = if amt == 0 || o == 0 {
                    Err(w::header_ex_error("invalid_request"))
                } else if !serve_all || o as usize > chain.len() {
                    Err(w::header_ex_error("not_found"))
                } else {
                    let end = ((o - 1 + amt) as usize).min(chain.len());
                    Ok(chain[(o - 1) as usize..end].to_vec())
                };
                let _ = tx.send(ans);
            }
            let finished = task.is_finished();
            let outcome: Value = if finished {
                match task.await {
                    Ok(Ok(hs)) => json!({"kind": "ok", "spans": spans_of(&hs)}),
                    Ok(Err(e)) => json!({"kind": "err", "err": e.to_string()}),
                    Err(e) => json!({"kind": "panic", "why": e.to_string()}),
                }
            } else {
                task.abort();
                json!({"kind": "running", "interactions": interactions})
            };
            let kind = outcome["kind"].as_str().unwrap().to_string();
            sum.case("C27", Some(format!("{h}/{}/{expect}", c["amount"])), || json!({"case": c, "outcome": outcome.clone(), "interactions": interactions}));
            let mut bad: Option<String> = None;
            if kind == "panic" {
                bad = Some(format!("panic: {}", outcome["why"]));
            } else {
                match expect {
                    // amount 0: returns promptly = without a single responder interaction beyond a
                    // small constant; here: must have finished and issued no request
                    "prompt" => {
                        if !finished {
                            bad = Some(format!("did not return for amount 0 after {interactions} responder interactions"));
                        } else if interactions > 0 {
                            bad = Some(format!("amount 0 needed {interactions} responder interactions"));
                        }
                    }
                    // fully served: exactly those headers
                    "exact" => {
                        let want = json!([[h + 1, h + amount]]);
                        if kind != "ok" || outcome["spans"] != want {
                            bad = Some(format!("served fully but returned {outcome}, wanted heights {want}"));
                        }
                    }
                    // anything but a panic
                    "nopanic" => {}
                    _ => {}
                }
            }
            if let Some(why) = bad {
                sum.violation("C27", json!({"case": c, "why": why, "class": {"expect": expect, "outcome": kind}}));
            }
        }
    });
    sum.write(args.opt("summary").unwrap_or("/dev/stdout"));
}
