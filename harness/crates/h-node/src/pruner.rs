//! C35: the real `Pruner` over a recording store and a recording blockstore with a scripted
//! daser (grants / refuses `want_to_prune` by seed, refuses what it "is sampling").  Store
//! calls and blockstore calls are logged at call time for spec/Trace_Pruner.tla.

use std::collections::{BTreeMap, BTreeSet};
use std::sync::{Arc, Mutex};
use std::time::Duration;

use blockstore::Blockstore;
use celestia_types::test_utils::ExtendedHeaderGenerator;
use cid::CidGeneric;
use h_common::{Args, Summary, TraceWriter};
use lumina_node::blockstore::InMemoryBlockstore;
use lumina_node::store::{InMemoryStore, Store};
use lumina_node::verif::workers::{self as w, Events, MockDaserCmd, VDaser, VPruner};
use rand::rngs::StdRng;
use rand::seq::SliceRandom;
use rand::{Rng, SeedableRng};
use serde_json::{json, Value};
use tendermint::Time;

use crate::recstore::{Call, RecStore};
use crate::store::{cid_num, cid_of};

const DELTA: u64 = 100;

struct RecBlockstore {
    inner: InMemoryBlockstore,
    log: Arc<Mutex<Vec<Value>>>,
    /// stop the pruner (cancellation, as Node::stop does) right after the n-th blockstore removal, i.e. in the
    /// middle of removing a block: whatever the worker does then, a header must not go before its CIDs
    stop_at: Mutex<Option<(u64, Arc<VPruner>)>>,
    removals: std::sync::atomic::AtomicU64,
}

impl Blockstore for RecBlockstore {
    async fn get<const S: usize>(&self, cid: &CidGeneric<S>) -> blockstore::Result<Option<Vec<u8>>> {
        self.inner.get(cid).await
    }
    async fn put_keyed<const S: usize>(&self, cid: &CidGeneric<S>, data: &[u8]) -> blockstore::Result<()> {
        self.inner.put_keyed(cid, data).await
    }
    async fn remove<const S: usize>(&self, cid: &CidGeneric<S>) -> blockstore::Result<()> {
        let r = self.inner.remove(cid).await;
        let n = cid.hash().digest()[0] as u64 + 256 * cid.hash().digest()[1] as u64;
        self.log.lock().unwrap().push(json!({"name": "bsremove", "c": n, "ok": r.is_ok() as u8}));
        let k = self.removals.fetch_add(1, std::sync::atomic::Ordering::SeqCst) + 1;
        if let Some((at, pruner)) = self.stop_at.lock().unwrap().as_ref() {
            if *at == k {
                pruner.stop();
            }
        }
        r
    }
    async fn has<const S: usize>(&self, cid: &CidGeneric<S>) -> blockstore::Result<bool> {
        self.inner.has(cid).await
    }
    async fn close(self) -> blockstore::Result<()> {
        self.inner.close().await
    }
}

fn ranges_of(set: &BTreeSet<u64>) -> Vec<[u64; 2]> {
    let mut out: Vec<[u64; 2]> = vec![];
    for h in set {
        match out.last_mut() {
            Some(l) if l[1] + 1 == *h => l[1] = *h,
            _ => out.push([*h, *h]),
        }
    }
    out
}

/// CID number c for height h, index i (unique per (h,i)); cid_of() uses the low byte only, so a
/// two-byte scheme is built here.
fn mk_cid(h: u64, i: u64) -> cid::Cid {
    let n = h * 4 + i; // < 65536 for h < 16384
    let mut d = [0u8; 32];
    d[0] = (n % 256) as u8;
    d[1] = (n / 256) as u8;
    let mh = multihash::Multihash::<64>::wrap(0x12, &d).unwrap();
    cid::Cid::new_v1(0x55, mh)
}

pub fn record(args: &Args) {
    let _ = (cid_of, cid_num);
    let seed = args.opt_u64("seed", 1);
    let runs = args.opt_u64("runs", 10);
    let n = args.opt_u64("n", 40);
    let ks = args.opt_u64("wsamp", 10);
    let kp = args.opt_u64("wprune", 5);
    // spec -> impl: initial configurations enumerated by TLC (spec/Gen_Pruner.tla) instead of random ones
    let cases: Option<Vec<Value>> = args.opt("cases").map(h_common::read_cases);
    let runs = cases.as_ref().map(|c| c.len() as u64).unwrap_or(runs);
    let mut tw = TraceWriter::create(args.opt("out").expect("--out"));
    let mut sum = Summary::new("pruner-record");
    let mut rng = StdRng::seed_from_u64(seed ^ 0x9a11);
    h_common::QUIET_ALL.store(true, std::sync::atomic::Ordering::Relaxed);
    let rt = tokio::runtime::Builder::new_current_thread().enable_all().start_paused(true).build().unwrap();
    rt.block_on(async {
        for run in 0..runs {
            let now = Time::now();
            let base = (now - Duration::from_secs(n * DELTA)).unwrap();
            let mut g = ExtendedHeaderGenerator::new();
            g.set_time(base, Duration::from_secs(DELTA));
            let chain = g.next_many_empty(n);
            let log: Arc<Mutex<Vec<Value>>> = Arc::new(Mutex::new(vec![]));
            let l2 = log.clone();
            let hook: crate::recstore::Hook = Arc::new(move |c: Call<'_>| {
                if let Call::Remove(h, ok) = c {
                    l2.lock().unwrap().push(json!({"name": "remove", "h": h, "ok": ok as u8}));
                }
            });
            let store = Arc::new(RecStore::new(InMemoryStore::new(), hook));
            let bs = Arc::new(RecBlockstore { inner: InMemoryBlockstore::new(), log: log.clone(), stop_at: Mutex::new(None),
                                              removals: Default::default() });
            let mut stored: BTreeSet<u64> = BTreeSet::new();
            let mut pruned: BTreeSet<u64> = BTreeSet::new();
            let mut sampled: BTreeSet<u64> = BTreeSet::new();
            let mut meta: BTreeMap<u64, Vec<u64>> = BTreeMap::new();
            let mut bstore: Vec<u64> = vec![];
            let ongoing: BTreeSet<u64>;
            // grant policy of the scripted daser: None = coin, Some(b) = always b
            let mut policy: Option<bool> = None;
            if let Some(cs) = &cases {
                // c[h]: 0 never synced, 1 pruned, 2 stored, 3 stored + metadata, 4 stored + metadata + sampled
                let c: Vec<u64> = cs[run as usize]["cfg"].as_array().unwrap().iter().map(|x| x.as_u64().unwrap()).collect();
                let pol = cs[run as usize]["pol"].as_u64().unwrap();
                let mut h = 1u64;
                while h <= n {
                    if c[(h - 1) as usize] == 0 {
                        h += 1;
                        continue;
                    }
                    let mut e = h;
                    while e < n && c[e as usize] != 0 {
                        e += 1;
                    }
                    store.inner.insert(chain[(h - 1) as usize..e as usize].to_vec()).await.unwrap();
                    stored.extend(h..=e);
                    h = e + 1;
                }
                for x in 1..=n {
                    let v = c[(x - 1) as usize];
                    if v == 1 {
                        store.inner.remove_height(x).await.unwrap();
                        stored.remove(&x);
                        pruned.insert(x);
                    }
                }
                log.lock().unwrap().clear();
                for x in 1..=n {
                    let v = c[(x - 1) as usize];
                    if v >= 3 {
                        let k = 1 + x % 2;
                        let cids: Vec<cid::Cid> = (0..k).map(|i| mk_cid(x, i)).collect();
                        store.inner.update_sampling_metadata(x, cids.clone()).await.unwrap();
                        for (i, cc) in cids.iter().enumerate() {
                            bs.inner.put_keyed(cc, b"x").await.unwrap();
                            bstore.push(x * 4 + i as u64);
                        }
                        meta.insert(x, (0..k).map(|i| x * 4 + i).collect());
                    }
                    if v == 4 {
                        store.inner.mark_as_sampled(x).await.unwrap();
                        sampled.insert(x);
                    }
                }
                // pol 0: everything granted; 1: everything refused; 2: the oldest unsampled stored block is being
                // sampled (refused), the rest granted; 3: the newest unsampled one is
                let uns: Vec<u64> = stored.iter().filter(|x| !sampled.contains(x)).copied().collect();
                ongoing = match pol {
                    2 => uns.first().copied().into_iter().collect(),
                    3 => uns.last().copied().into_iter().collect(),
                    _ => BTreeSet::new(),
                };
                policy = Some(pol != 1);
            } else {
            // ---- random store: ranges with gaps, pruned holes, sampled marks, metadata + blocks
            // the lowest synced height: near 1, anywhere, or around the window edges (an edge of the
            // synced ranges inside the sampling window must survive)
            let mut h = match rng.gen_range(0..4) {
                0 => rng.gen_range(1..6),
                1 => rng.gen_range(1..n.saturating_sub(3).max(2)),
                2 => rng.gen_range(n.saturating_sub(ks + 3).max(1)..=n.saturating_sub(ks.saturating_sub(3)).max(1).min(n)),
                _ => rng.gen_range(n.saturating_sub(kp + 3).max(1)..=n.saturating_sub(kp.saturating_sub(3)).max(1).min(n)),
            };
            while h <= n {
                let len = rng.gen_range(1..=10).min(n - h + 1);
                store.inner.insert(chain[(h - 1) as usize..(h - 1 + len) as usize].to_vec()).await.unwrap();
                stored.extend(h..h + len);
                h += len + if rng.gen_bool(0.5) { 0 } else { rng.gen_range(1..4) };
            }
            for x in stored.clone() {
                if rng.gen_bool(0.08) {
                    store.inner.remove_height(x).await.unwrap();
                    stored.remove(&x);
                    pruned.insert(x);
                }
            }
            log.lock().unwrap().clear();
            for x in &stored {
                if rng.gen_bool(0.55) {
                    let k = rng.gen_range(1..=3);
                    let cids: Vec<cid::Cid> = (0..k).map(|i| mk_cid(*x, i)).collect();
                    store.inner.update_sampling_metadata(*x, cids.clone()).await.unwrap();
                    for (i, c) in cids.iter().enumerate() {
                        bs.inner.put_keyed(c, b"x").await.unwrap();
                        bstore.push(*x * 4 + i as u64);
                    }
                    meta.insert(*x, (0..k).map(|i| *x * 4 + i).collect());
                    if rng.gen_bool(0.7) {
                        store.inner.mark_as_sampled(*x).await.unwrap();
                        sampled.insert(*x);
                    }
                }
            }
            // the scripted daser: blocks "being sampled" are refused, the rest by coin
            ongoing = stored.iter().filter(|x| !sampled.contains(x) && rng.gen_bool(0.15)).copied().collect();
            }
            let metav: Vec<Value> = meta.iter().map(|(h, c)| json!([h, c])).collect();
            tw.emit(json!({"name": "init", "run": run, "now": n, "stored": ranges_of(&stored), "sampled": ranges_of(&sampled),
                           "pruned": ranges_of(&pruned), "meta": metav, "bstore": bstore}));
            for x in &ongoing {
                tw.emit(json!({"name": "ongoing", "h": x, "on": 1}));
            }
            let (daser, mut dh) = VDaser::mocked();
            let events = Events::new();
            let wsamp = Duration::from_secs((ks - 1) * DELTA + DELTA / 2);
            let wprune = Duration::from_secs((kp - 1) * DELTA + DELTA / 2);
            // block_time is the pruner's idle sleep AND the period after which it recomputes its cached window
            // edges (measured on the real clock): every other run uses 1 ms, so that the cached edges are reused as
            // hints (C36 fast path) after the first removals; the others keep the first computation for the whole run
            let block_time = if run % 2 == 0 { Duration::from_millis(1) } else { Duration::from_millis(50) };
            let pruner = Arc::new(VPruner::start(&daser, store.clone(), bs.clone(), &events, block_time, wprune, wsamp));
            if run % 5 == 3 {
                *bs.stop_at.lock().unwrap() = Some((1 + run % 3, pruner.clone()));
            }
            let (mut n_removed, mut n_refused, mut n_granted) = (0u64, 0u64, 0u64);
            let mut idle = 0;
            for _step in 0..4000 {
                tokio::time::sleep(Duration::from_millis(5)).await;
                // daser commands
                let mut any;
                while let Ok(Some(cmd)) = tokio::time::timeout(Duration::from_millis(1), w::recv_daser_cmd(&mut dh)).await {
                    // flush store/blockstore calls made before this question
                    for v in log.lock().unwrap().drain(..) {
                        if v["name"] == "remove" {
                            n_removed += 1;
                        }
                        tw.emit(v);
                    }
                    match cmd {
                        MockDaserCmd::WantToPrune { height, respond_to } => {
                            let grant = !ongoing.contains(&height) && policy.unwrap_or_else(|| rng.gen_bool(0.7));
                            if grant { n_granted += 1 } else { n_refused += 1 }
                            tw.emit(json!({"name": "want", "h": height, "granted": grant as u8}));
                            let _ = respond_to.send(grant);
                        }
                        MockDaserCmd::UpdateHighestPrunableHeight(_) | MockDaserCmd::UpdateNumberOfPrunableBlocks(_) => {}
                    }
                }
                let drained: Vec<Value> = log.lock().unwrap().drain(..).collect();
                any = !drained.is_empty(); // progress = store / blockstore calls (questions alone repeat forever)
                for v in drained {
                    if v["name"] == "remove" {
                        n_removed += 1;
                    }
                    tw.emit(v);
                }
                // environment: occasionally a sampling finishes (mark) -- only sampled marks are added
                if cases.is_none() && rng.gen_bool(0.02) {
                    let cur = store.inner.get_stored_header_ranges().await.unwrap();
                    let hs: Vec<u64> = cur.as_ref().iter().flat_map(|r| r.clone()).collect();
                    if let Some(x) = hs.choose(&mut rng) {
                        if !ongoing.contains(x) {
                            store.inner.mark_as_sampled(*x).await.unwrap();
                            tw.emit(json!({"name": "mark", "h": x}));
                        }
                    }
                }
                if any {
                    idle = 0;
                } else {
                    idle += 1;
                    if idle == 20 && run % 2 == 0 {
                        // let the real clock pass the refresh period at least once after the last removal
                        std::thread::sleep(Duration::from_millis(2));
                    }
                    if idle > 60 {
                        break;
                    }
                }
            }
            pruner.stop();
            pruner.join().await;
            *bs.stop_at.lock().unwrap() = None;
            for v in log.lock().unwrap().drain(..) {
                tw.emit(v);
            }
            if let Some(cs) = &cases {
                // algorithmic layer: the design (Pruner.tla run to its fixpoint by TLC) leaves exactly `left`
                let cur = store.inner.get_stored_header_ranges().await.unwrap();
                let got: Vec<u64> = cur.as_ref().iter().flat_map(|r| r.clone()).collect();
                let want: Vec<u64> = cs[run as usize]["left"].as_array().unwrap().iter().map(|x| x.as_u64().unwrap()).collect();
                if got != want {
                    sum.drift("C35", json!({"what": "the real pruner left a different set than the design", "cfg": cs[run as usize]["cfg"],
                                             "pol": cs[run as usize]["pol"], "design": want, "real": got}));
                }
            }
            let nontrivial = if cases.is_some() { n_removed + n_refused + n_granted >= 1 } else { n_removed >= 3 && n_refused >= 1 && n_granted >= 1 };
            sum.case("C35", if nontrivial { Some(format!("{run}")) } else { None },
                     || json!({"n": n, "wsamp": ks, "wprune": kp, "removed": n_removed, "granted": n_granted, "refused": n_refused,
                               "ongoing": ongoing.len()}));
        }
    });
    let nev = tw.finish();
    sum.set("events", json!(nev));
    sum.write(args.opt("summary").unwrap_or("/dev/stdout"));
}
