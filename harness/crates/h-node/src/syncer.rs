//! C25 / C38 (and C24 end to end): the real `Syncer` worker over the mocked P2p, an in-memory
//! store and a scripted environment (honest chain, foreign chain, failures, header-sub, pruning,
//! disconnects).  Everything observable is logged for spec/Trace_Syncer.tla.

use std::collections::VecDeque;
use std::sync::Arc;
use std::time::Duration;

use celestia_types::test_utils::ExtendedHeaderGenerator;
use celestia_types::ExtendedHeader;
use h_common::{Args, Summary, TraceWriter};
use lumina_node::events::{EventSubscriber, NodeEvent};
use lumina_node::store::{InMemoryStore, Store};
use lumina_node::verif::workers::{self as w, Events, MockCmd, VSyncer};
use rand::rngs::StdRng;
use rand::{Rng, SeedableRng};
use serde_json::{json, Value};
use tendermint::Time;
use tokio::sync::oneshot;

use crate::recstore::{Point, RecStore};
use crate::session::settle;

type SStore = RecStore<InMemoryStore>;

type Responder = oneshot::Sender<Result<Vec<ExtendedHeader>, lumina_node::node::P2pError>>;
const DELTA: u64 = 100; // seconds between blocks

fn ranges_json(r: &lumina_node::block_ranges::BlockRanges) -> Value {
    json!(r.as_ref().iter().map(|x| [*x.start(), *x.end()]).collect::<Vec<_>>())
}

struct World {
    a: Vec<ExtendedHeader>,
    f: Vec<ExtendedHeader>,
    store: Arc<SStore>,
}

impl World {
    fn a(&self, h: u64) -> ExtendedHeader {
        self.a[(h - 1) as usize].clone()
    }
    async fn snapshot(&self, syncer: Option<&VSyncer<SStore>>) -> Value {
        let stored = self.store.inner.get_stored_header_ranges().await.unwrap();
        let pruned = self.store.inner.get_pruned_ranges().await.unwrap();
        let sampled = self.store.inner.get_sampled_ranges().await.unwrap();
        let mut foreign = vec![];
        for r in stored.as_ref() {
            for h in r.clone() {
                let x = self.store.inner.get_by_height(h).await.unwrap();
                if (h as usize) > self.a.len() || x.hash() != self.a[(h - 1) as usize].hash() {
                    foreign.push(h);
                }
            }
        }
        let subj = match syncer {
            Some(s) => s.info().await.map(|i| i.subjective_head).unwrap_or(0),
            None => 0,
        };
        json!({"stored": ranges_json(&stored), "pruned": ranges_json(&pruned), "sampled": ranges_json(&sampled),
               "foreign": foreign, "subj": subj})
    }
}

#[derive(Clone, Copy, PartialEq, Debug)]
enum Kind {
    Ok,
    Foreign,
    Fail,
}

pub fn record(args: &Args) {
    let seed = args.opt_u64("seed", 1);
    let runs = args.opt_u64("runs", 10);
    let n = args.opt_u64("n", 40);
    let batch = args.opt_u64("batch", 4);
    let k = args.opt_u64("wsamp", 10); // model WSamp (ticks): header h in window iff n - h < k
    let mode = args.opt("mode").unwrap_or("c25").to_string();
    let steps = args.opt_u64("steps", 60);
    let mut tw = TraceWriter::create(args.opt("out").expect("--out"));
    let mut sum = Summary::new("syncer-record");
    let mut rng = StdRng::seed_from_u64(seed ^ 0x5a5a);
    h_common::QUIET_ALL.store(true, std::sync::atomic::Ordering::Relaxed);
    let rt = tokio::runtime::Builder::new_current_thread().enable_all().start_paused(true).build().unwrap();
    rt.block_on(async {
        for run in 0..runs {
            // ---- world
            let now = Time::now();
            let base = (now - Duration::from_secs(n * DELTA)).unwrap();
            let (a, f) = two_chains(n, base, run % 2 == 1);
            let world = World { a, f, store: Arc::new(RecStore::new(InMemoryStore::new(), Arc::new(|_| {}))) };
            let wsamp = Duration::from_secs((k - 1) * DELTA + DELTA / 2);
            tw.emit(json!({"name": "reset", "run": run, "now": n}));

            // ---- prefill: what an earlier session left behind
            let mut net_head = rng.gen_range((n * 2 / 3).max(2)..=n - 2);
            if rng.gen_bool(0.7) {
                let top_hi = if rng.gen_bool(0.5) { net_head } else { rng.gen_range(net_head / 2..=net_head) };
                let top_lo = rng.gen_range(1..=top_hi);
                let mut segs = vec![(top_lo, top_hi)];
                if top_lo > 4 && rng.gen_bool(0.5) {
                    let hi = rng.gen_range(1..top_lo - 1);
                    let lo = rng.gen_range(1..=hi);
                    segs.insert(0, (lo, hi));
                }
                for (lo, hi) in &segs {
                    world.store.inner.insert((*lo..=*hi).map(|h| world.a(h)).collect::<Vec<_>>()).await.unwrap();
                }
                // sampled marks and pruning (the pruner's guarantee is respected: see `prunable`)
                for (lo, hi) in &segs {
                    for h in *lo..=*hi {
                        if rng.gen_bool(0.5) {
                            world.store.inner.mark_as_sampled(h).await.unwrap();
                        }
                    }
                }
                if mode != "c38" {
                    if rng.gen_bool(0.3) {
                        // the pruner has done all its work: nothing outside the sampling window is left
                        for (lo, hi) in &segs {
                            for h in *lo..=*hi {
                                if n - h >= k {
                                    world.store.inner.remove_height(h).await.unwrap();
                                }
                            }
                        }
                    } else {
                        let m = rng.gen_range(0..4);
                        for _ in 0..m {
                            try_prune(&world, &mut rng, n, k, true).await;
                        }
                    }
                }
            }
            tw.emit(json!({"name": "prefill", "netHead": net_head, "st": world.snapshot(None).await}));

            // ---- start
            let (p2p, mut handle) = w::mocked_p2p();
            let events = Events::new();
            let mut sub = events.subscribe();
            let syncer = VSyncer::start(&p2p, world.store.clone(), &events, batch, wsamp, Duration::from_secs(100_000_000)).unwrap();
            let mut connected = false;
            let mut plain_peer = false; // an additional untrusted peer is connected
            let mut trusted_here = false;
            let mut has_sub = false;
            let mut init_inflight = false; // head answered, FetchingHeadHeaderFinished not yet seen
            let mut pending: VecDeque<(u64, u64, Responder)> = VecDeque::new();
            // responders of cancelled batches are kept alive: a dropped responder looks like a dead P2p worker
            let mut graveyard: Vec<Responder> = vec![];
            let mut cur_kind = Kind::Ok;
            let mut cur_batch: Option<(u64, u64)> = None;
            let mut failed_seen = false;
            let (mut n_fetch, mut n_prune, mut n_foreign, mut n_disc, mut n_race) = (0u64, 0u64, 0u64, 0u64, 0u64);
            let (mut n_forked_head, mut n_sub_ignored) = (0u64, 0u64);
            let mut sub_known: Option<celestia_types::ExtendedHeader> = None; // header-sub's known head (as in P2p)
            let mut fatal = false;
            let total_steps = steps + 400; // honest tail
            let mut idle = 0;
            // some runs: the trusted peer leaves (an ordinary one stays) right after the first batch was
            // requested, then the environment is honest: syncing must still complete
            let early_leave = mode == "c38" && run % 3 == 1;
            let mut force_honest = false;
            for step in 0..total_steps {
                let adversarial = step < steps && !force_honest;
                if early_leave && !force_honest && n_fetch >= 1 && connected && trusted_here {
                    if !plain_peer {
                        w::set_peer_counts(&handle, 2, 1);
                        settle().await;
                        tw.emit(json!({"name": "plainjoin", "st": world.snapshot(Some(&syncer)).await}));
                    }
                    w::set_peer_counts(&handle, 1, 0);
                    trusted_here = false;
                    plain_peer = false;
                    settle().await;
                    tw.emit(json!({"name": "trustedleave", "st": world.snapshot(Some(&syncer)).await}));
                    force_honest = true;
                }
                settle().await;
                // 1. node events
                drain_events(&mut sub, &world, &syncer, &mut tw, &mut cur_batch, &mut cur_kind, &mut failed_seen,
                             &mut n_fetch, &mut fatal, &mut rng, adversarial, &mode, &mut init_inflight).await;
                if fatal {
                    break;
                }
                // 2. p2p commands
                let mut got_cmd = false;
                while let Some(cmd) = w::try_recv_cmd(&mut handle) {
                    got_cmd = true;
                    match cmd {
                        MockCmd::HeaderEx { request, respond_to } => {
                            use celestia_proto::p2p::pb::header_request::Data;
                            match request.data {
                                Some(Data::Origin(0)) => {
                                    // head request: trusted peers answer honestly (sometimes not at all)
                                    if adversarial && rng.gen_bool(0.15) {
                                        let _ = respond_to.send(Err(w::header_ex_error("not_found")));
                                    } else if adversarial && mode == "c38" && rng.gen_bool(0.5)
                                        && world.store.inner.head_height().await.ok() == Some(net_head)
                                    {
                                        // a forked head of exactly the stored head's height (the one place where the
                                        // store itself can tell a wrong head from the right one): the initialisation
                                        // must fail and be retried; nothing is stored, no header-sub is set up on it
                                        n_forked_head += 1;
                                        let _ = respond_to.send(Ok(vec![world.f[(net_head - 1) as usize].clone()]));
                                    } else {
                                        let _ = respond_to.send(Ok(vec![world.a(net_head)]));
                                        init_inflight = true;
                                    }
                                }
                                Some(Data::Origin(h)) => pending.push_back((h, request.amount, respond_to)),
                                _ => {
                                    let _ = respond_to.send(Err(w::header_ex_error("not_found")));
                                }
                            }
                        }
                        MockCmd::InitHeaderSub { head } => {
                            has_sub = true;
                            sub_known = Some(head);
                        }
                        _ => {}
                    }
                }
                // 3. answer one sub-request of the ongoing batch
                if let Some((h, amt, tx)) = pending.pop_front() {
                    got_cmd = true;
                    let kind = if adversarial { cur_kind } else { Kind::Ok };
                    let top = (h + amt - 1).min(n);
                    let ans = match kind {
                        Kind::Ok => {
                            if adversarial && rng.gen_bool(0.1) {
                                Err(w::header_ex_error("not_found")) // retried by the session
                            } else if adversarial && amt > 1 && rng.gen_bool(0.15) {
                                let kk = rng.gen_range(0..amt);
                                Ok((h..h + kk).map(|x| world.a(x)).collect())
                            } else {
                                Ok((h..=top).map(|x| world.a(x)).collect())
                            }
                        }
                        Kind::Foreign => Ok((h..=top).map(|x| world.f[(x - 1) as usize].clone()).collect()),
                        Kind::Fail => Err(w::header_ex_error("timeout")),
                    };
                    let _ = tx.send(ans);
                    continue;
                }
                if !got_cmd && cur_batch.is_none() {
                    tokio::time::sleep(Duration::from_millis(1200)).await;
                }
                // 4. environment (not while an initialisation is half way: the model's TryInit is atomic)
                if init_inflight {
                    continue;
                }
                if adversarial && cur_batch.is_none() || adversarial && rng.gen_bool(0.2) {
                    match rng.gen_range(0..10) {
                        0 | 1 if !connected => {
                            handle.announce_trusted_peer_connected();
                            connected = true;
                            trusted_here = true;
                            settle().await;
                            tw.emit(json!({"name": "connect", "st": world.snapshot(Some(&syncer)).await}));
                        }
                        2 if connected && rng.gen_bool(0.3) => {
                            handle.announce_all_peers_disconnected();
                            connected = false;
                            plain_peer = false;
                            trusted_here = false;
                            has_sub = false;
                            graveyard.extend(pending.drain(..).map(|x| x.2));
                            cur_batch = None;
                            n_disc += 1;
                            settle().await;
                            tw.emit(json!({"name": "disconnect", "st": world.snapshot(Some(&syncer)).await}));
                        }
                        3 | 4 if net_head < n => {
                            net_head += 1;
                            tw.emit(json!({"name": "newblock", "netHead": net_head}));
                            // header-sub as the real P2p worker runs it: a published header is forwarded to the syncer
                            // only if it verifies against the head the syncer initialised header-sub with (or the last
                            // forwarded one); anything else is ignored
                            let forwards = sub_known.as_ref().map_or(true, |k| k.verify(&world.a(net_head)).is_ok());
                            if connected && has_sub && !forwards {
                                n_sub_ignored += 1;
                            }
                            if connected && has_sub && forwards {
                                sub_known = Some(world.a(net_head));
                                handle.announce_new_head(world.a(net_head));
                                settle().await;
                                tw.emit(json!({"name": "headsub", "h": net_head, "st": world.snapshot(Some(&syncer)).await}));
                            }
                        }
                        3 | 4 | 5 | 6 if mode != "c38" && connected && has_sub && net_head < n && cur_batch.is_none() && rng.gen_bool(0.5) => {
                            // the pruner strikes *inside* the syncer's fetch_next_batch (which runs after every
                            // header-sub message): between its reads of the stored and the pruned ranges, or right
                            // before it looks at the header above the batch.  The removal itself is one the pruner
                            // may do (a header outside the windows).
                            let stored = world.store.inner.get_stored_header_ranges().await.unwrap();
                            let tail = stored.as_ref().last().map(|r| *r.start()).unwrap_or(0);
                            let old_max = n.saturating_sub(k);
                            if rng.gen_bool(0.5) {
                                if tail >= 1 && tail <= old_max {
                                    world.store.arm(Point::BetweenRangeReads, tail);
                                }
                            } else if old_max >= 1 {
                                world.store.arm(Point::HeightRead, old_max);
                            }
                            net_head += 1;
                            tw.emit(json!({"name": "newblock", "netHead": net_head}));
                            handle.announce_new_head(world.a(net_head));
                            settle().await;
                            *world.store.armed.lock().unwrap() = None;
                            let struck: Vec<u64> = world.store.injected.lock().unwrap().drain(..).collect();
                            let st = world.snapshot(Some(&syncer)).await;
                            for h in struck {
                                n_prune += 1;
                                n_race += 1;
                                tw.emit(json!({"name": "prune", "h": h, "race": 1, "st": st.clone()}));
                            }
                            tw.emit(json!({"name": "headsub", "h": net_head, "st": st}));
                        }
                        5 | 6 if mode != "c38" => {
                            if let Some(h) = try_prune(&world, &mut rng, n, k, false).await {
                                n_prune += 1;
                                tw.emit(json!({"name": "prune", "h": h, "st": world.snapshot(Some(&syncer)).await}));
                            }
                        }
                        7 if mode != "c38" => {
                            let stored = world.store.inner.get_stored_header_ranges().await.unwrap();
                            if let Some(r) = stored.as_ref().iter().next() {
                                let h = rng.gen_range(*r.start()..=*r.end());
                                world.store.inner.mark_as_sampled(h).await.unwrap();
                                tw.emit(json!({"name": "mark", "h": h, "st": world.snapshot(Some(&syncer)).await}));
                            }
                        }
                        5 | 6 | 8 if (mode == "c38" || true) && connected && trusted_here && !plain_peer && rng.gen_bool(0.6) => {
                            w::set_peer_counts(&handle, 2, 1);
                            plain_peer = true;
                            settle().await;
                            tw.emit(json!({"name": "plainjoin", "st": world.snapshot(Some(&syncer)).await}));
                        }
                        5 | 6 | 7 | 9 if connected && trusted_here && plain_peer && rng.gen_bool(0.6) => {
                            // only the trusted peer leaves: the syncer must keep fetching
                            w::set_peer_counts(&handle, 1, 0);
                            trusted_here = false;
                            plain_peer = false;
                            settle().await;
                            tw.emit(json!({"name": "trustedleave", "st": world.snapshot(Some(&syncer)).await}));
                        }
                        _ => {
                            if !connected {
                                handle.announce_trusted_peer_connected();
                                connected = true;
                                trusted_here = true;
                                settle().await;
                                tw.emit(json!({"name": "connect", "st": world.snapshot(Some(&syncer)).await}));
                            }
                        }
                    }
                } else if !adversarial {
                    if !connected {
                        handle.announce_trusted_peer_connected();
                        connected = true;
                        trusted_here = true;
                        settle().await;
                        tw.emit(json!({"name": "connect", "st": world.snapshot(Some(&syncer)).await}));
                    } else if !trusted_here {
                        // the honest phase owes the node a trusted peer: a syncer that has not initialised yet (or must
                        // initialise again) can not do so with ordinary peers only
                        w::set_peer_counts(&handle, 2, 1);
                        trusted_here = true;
                        plain_peer = true;
                        settle().await;
                        tw.emit(json!({"name": "trustedjoin", "st": world.snapshot(Some(&syncer)).await}));
                    } else if !got_cmd {
                        // let timers (backoff, 1 s init delay) fire
                        tokio::time::sleep(Duration::from_secs(70)).await;
                        idle += 1;
                        if idle > 6 {
                            break;
                        }
                    } else {
                        idle = 0;
                    }
                }
                if cur_kind == Kind::Foreign && cur_batch.is_some() {
                    n_foreign += 1;
                }
            }
            settle().await;
            drain_events(&mut sub, &world, &syncer, &mut tw, &mut cur_batch, &mut cur_kind, &mut failed_seen,
                         &mut n_fetch, &mut fatal, &mut rng, false, &mode, &mut init_inflight).await;
            tw.emit(json!({"name": "quiescent", "netHead": net_head, "check_live": (mode == "c38" && connected && trusted_here) as u8,
                           "st": world.snapshot(Some(&syncer)).await}));
            syncer.stop();
            syncer.join().await;
            let nontrivial = n_fetch >= 3 && (n_prune >= 1 || n_foreign >= 1 || n_disc >= 1);
            for p in ["C25", "C38", "C24"] {
                sum.case(p, if nontrivial { Some(format!("{mode}/{run}")) } else { None },
                         || json!({"mode": mode, "n": n, "batch": batch, "wsamp": k, "fetches": n_fetch, "prunes": n_prune, "racing_prunes": n_race,
                                   "foreign_answers": n_foreign, "disconnects": n_disc,
                                   "forked_head_answers": n_forked_head, "header_sub_ignored": n_sub_ignored}));
            }
        }
    });
    let nev = tw.finish();
    sum.set("events", json!(nev));
    sum.write(args.opt("summary").unwrap_or("/dev/stdout"));
}

/// Remove a stored header the pruner would be allowed to remove (C35): outside the sampling window
/// anything; inside it only sampled headers that are not an edge of the synced ranges.
/// `edge_bias`: prefer the tail of the top stored range (the interesting case for C25).
async fn try_prune(world: &World, rng: &mut StdRng, n: u64, k: u64, edge_bias: bool) -> Option<u64> {
    let stored = world.store.inner.get_stored_header_ranges().await.unwrap();
    let pruned = world.store.inner.get_pruned_ranges().await.unwrap();
    let sampled = world.store.inner.get_sampled_ranges().await.unwrap();
    let synced = pruned + &stored;
    let edges: Vec<u64> = synced.as_ref().iter().flat_map(|r| [*r.start(), *r.end()]).collect();
    let in_window = |h: u64| n - h < k;
    let mut cands: Vec<u64> = vec![];
    for r in stored.as_ref() {
        for h in r.clone() {
            if !in_window(h) || (sampled.contains(h) && !edges.contains(&h)) {
                cands.push(h);
            }
        }
    }
    if cands.is_empty() {
        return None;
    }
    let top_tail = stored.as_ref().last().map(|r| *r.start());
    let h = match top_tail {
        Some(t) if (edge_bias || rng.gen_bool(0.5)) && cands.contains(&t) => t,
        _ => cands[rng.gen_range(0..cands.len())],
    };
    world.store.inner.remove_height(h).await.unwrap();
    Some(h)
}

#[allow(clippy::too_many_arguments)]
async fn drain_events(
    sub: &mut EventSubscriber,
    world: &World,
    syncer: &VSyncer<SStore>,
    tw: &mut TraceWriter,
    cur_batch: &mut Option<(u64, u64)>,
    cur_kind: &mut Kind,
    failed_seen: &mut bool,
    n_fetch: &mut u64,
    fatal: &mut bool,
    rng: &mut StdRng,
    adversarial: bool,
    mode: &str,
    init_inflight: &mut bool,
) {
    while let Ok(info) = sub.try_recv() {
        match info.event {
            NodeEvent::FetchingHeadHeaderFinished { height, .. } => {
                *init_inflight = false;
                tw.emit(json!({"name": "tryinit", "h": height, "st": world.snapshot(Some(syncer)).await}));
            }
            NodeEvent::FetchingHeadersStarted { from_height, to_height } => {
                *cur_batch = Some((from_height, to_height));
                *failed_seen = false;
                *n_fetch += 1;
                *cur_kind = if mode == "aging" {
                    Kind::Fail
                } else if mode == "replay" {
                    *cur_kind
                } else if !adversarial {
                    Kind::Ok
                } else {
                    match rng.gen_range(0..10) {
                        0 | 1 => Kind::Fail,
                        2 | 3 if mode != "c25" => Kind::Foreign,
                        _ => Kind::Ok,
                    }
                };
                tw.emit(json!({"name": "fetch", "lo": from_height, "hi": to_height, "st": world.snapshot(Some(syncer)).await}));
            }
            NodeEvent::FetchingHeadersFailed { from_height, to_height, error, .. } => {
                if error.starts_with("Failed to store headers") {
                    // the store refused the batch; FetchingHeadersFinished follows
                    *failed_seen = true;
                } else {
                    // the session failed: no FetchingHeadersFinished will follow
                    tw.emit(json!({"name": "batch", "lo": from_height, "hi": to_height, "kind": "fail", "failed": 1,
                                   "st": world.snapshot(Some(syncer)).await}));
                    *cur_batch = None;
                }
            }
            NodeEvent::FetchingHeadersFinished { from_height, to_height, .. } => {
                let kind = match *cur_kind {
                    Kind::Ok => "ok",
                    Kind::Foreign => "foreign",
                    Kind::Fail => "fail",
                };
                tw.emit(json!({"name": "batch", "lo": from_height, "hi": to_height, "kind": kind, "failed": *failed_seen as u8,
                               "st": world.snapshot(Some(syncer)).await}));
                *cur_batch = None;
            }
            NodeEvent::AddedHeaderFromHeaderSub { .. } => {}
            NodeEvent::FatalSyncerError { error } => {
                tw.emit(json!({"name": "fatal", "why": error}));
                *fatal = true;
            }
            _ => {}
        }
    }
}

/// C25 with the real clock moving: headers `delta` seconds apart, a store whose tail is just inside
/// the sampling window, every batch below it fails; while real time passes the tail leaves the
/// window and the syncer must stop asking.  The clock is sampled as now = floor(x + 0.5),
/// x = (real now - base) / delta, which makes `now - h < k` exactly the code's window test; the driver
/// only acts while the fractional part is away from the rounding point.
pub fn record_aging(args: &Args) {
    let seed = args.opt_u64("seed", 1);
    let runs = args.opt_u64("runs", 2);
    let delta = args.opt_u64("delta", 2);
    let n = 12u64;
    let k = 4u64;
    let batch = 2u64;
    let mut tw = TraceWriter::create(args.opt("out").expect("--out"));
    let mut sum = Summary::new("syncer-aging");
    let mut rng = StdRng::seed_from_u64(seed ^ 0xa9e);
    h_common::QUIET_ALL.store(true, std::sync::atomic::Ordering::Relaxed);
    let rt = tokio::runtime::Builder::new_current_thread().enable_all().start_paused(true).build().unwrap();
    rt.block_on(async {
        for run in 0..runs {
            let t0 = std::time::SystemTime::now();
            let now = Time::now();
            let base = (now - Duration::from_secs(n * delta)).unwrap();
            let base_sys = t0 - Duration::from_secs(n * delta);
            let clock = |margin: bool| -> u64 {
                loop {
                    let x = std::time::SystemTime::now().duration_since(base_sys).unwrap().as_secs_f64() / delta as f64 + 0.5;
                    let frac = x - x.floor();
                    if !margin || (0.15..0.85).contains(&frac) {
                        return x.floor() as u64;
                    }
                    std::thread::sleep(Duration::from_millis(50));
                }
            };
            let mut ga = ExtendedHeaderGenerator::new();
            ga.set_time(base, Duration::from_secs(delta));
            let a = ga.next_many_empty(n);
            let world = World { a, f: vec![], store: Arc::new(RecStore::new(InMemoryStore::new(), Arc::new(|_| {}))) };
            let wsamp = Duration::from_millis(((k - 1) * delta) * 1000 + delta * 500);
            let mut cur = clock(true);
            tw.emit(json!({"name": "reset", "run": run, "now": cur}));
            // the tail of the stored range is the oldest header still inside the window
            let tail = n - (k - 1);
            world.store.inner.insert((tail..=n).map(|h| world.a(h)).collect::<Vec<_>>()).await.unwrap();
            tw.emit(json!({"name": "prefill", "netHead": n, "st": world.snapshot(None).await}));
            let (p2p, mut handle) = w::mocked_p2p();
            let events = Events::new();
            let mut sub = events.subscribe();
            let syncer = VSyncer::start(&p2p, world.store.clone(), &events, batch, wsamp, Duration::from_secs(100_000_000)).unwrap();
            handle.announce_trusted_peer_connected();
            settle().await;
            tw.emit(json!({"name": "connect", "st": world.snapshot(Some(&syncer)).await}));
            let mut pending: VecDeque<(u64, u64, Responder)> = VecDeque::new();
            let (mut cur_batch, mut cur_kind, mut failed_seen, mut n_fetch, mut fatal, mut inflight) = (None, Kind::Fail, false, 0u64, false, false);
            let mut idle = 0;
            let mut fetches_after_aging = 0u64;
            for _step in 0..400 {
                // let virtual timers run (try_init waits 1 s of virtual time); the worker reacts to the
                // previous answer here, i.e. at the real instant that answer was sent
                tokio::time::sleep(Duration::from_millis(300)).await;
                let before = n_fetch;
                drain_events(&mut sub, &world, &syncer, &mut tw, &mut cur_batch, &mut cur_kind, &mut failed_seen,
                             &mut n_fetch, &mut fatal, &mut rng, true, "aging", &mut inflight).await;
                if n_fetch > before && cur - tail >= k {
                    fetches_after_aging += 1;
                }
                let mut got = false;
                while let Some(cmd) = w::try_recv_cmd(&mut handle) {
                    got = true;
                    if let MockCmd::HeaderEx { request, respond_to } = cmd {
                        use celestia_proto::p2p::pb::header_request::Data;
                        match request.data {
                            Some(Data::Origin(0)) => {
                                let _ = respond_to.send(Ok(vec![world.a(n)]));
                            }
                            Some(Data::Origin(h)) => pending.push_back((h, request.amount, respond_to)),
                            _ => {}
                        }
                    }
                }
                if let Some((_h, _amt, tx)) = pending.pop_front() {
                    got = true;
                    // let real time pass, then read the clock (away from a rounding point) and only then
                    // send the failure: the worker reacts within milliseconds, under that same clock value
                    std::thread::sleep(Duration::from_millis(400 + rng.gen_range(0..300)));
                    let c2 = clock(true);
                    if c2 != cur {
                        cur = c2;
                        tw.emit(json!({"name": "tick", "now": cur}));
                    }
                    let _ = tx.send(Err(w::header_ex_error("timeout")));
                } else if idle > 3 {
                    std::thread::sleep(Duration::from_millis(300));
                    let c2 = clock(true);
                    if c2 != cur {
                        cur = c2;
                        tw.emit(json!({"name": "tick", "now": cur}));
                    }
                }
                if got { idle = 0 } else { idle += 1 }
                if idle > 12 && cur - tail >= k + 1 {
                    break;
                }
                if fatal {
                    break;
                }
            }
            settle().await;
            drain_events(&mut sub, &world, &syncer, &mut tw, &mut cur_batch, &mut cur_kind, &mut failed_seen,
                         &mut n_fetch, &mut fatal, &mut rng, true, "aging", &mut inflight).await;
            syncer.stop();
            syncer.join().await;
            for p in ["C25"] {
                sum.case(p, Some(format!("aging/{run}")), || json!({"mode": "aging", "delta_s": delta, "fetches": n_fetch,
                         "fetches_after_the_tail_left_the_window": fetches_after_aging}));
            }
        }
    });
    let nev = tw.finish();
    sum.set("events", json!(nev));
    sum.write(args.opt("summary").unwrap_or("/dev/stdout"));
}

/// C38 with slow sync in force (pruning window shorter than the sampling window): below the pruning window the
/// syncer only fetches while at most max(batch/2, 50) stored headers wait for the sampler.  The harness plays an
/// honest network and the sampler: whenever the worker is idle it marks some unsampled headers sampled and lets a
/// new head arrive (the re-check trigger).  At the end -- every stored header sampled, several heads later -- the
/// whole sampling window up to the head must be stored.
pub fn record_slow(args: &Args) {
    let seed = args.opt_u64("seed", 1);
    let runs = args.opt_u64("runs", 2);
    let n = args.opt_u64("n", 170);
    let batch = args.opt_u64("batch", 16);
    let k = args.opt_u64("wsamp", 130);
    let kp = args.opt_u64("wprune", 40);
    let mut tw = TraceWriter::create(args.opt("out").expect("--out"));
    let mut sum = Summary::new("syncer-slow");
    let mut rng = StdRng::seed_from_u64(seed ^ 0x510);
    h_common::QUIET_ALL.store(true, std::sync::atomic::Ordering::Relaxed);
    let rt = tokio::runtime::Builder::new_current_thread().enable_all().start_paused(true).build().unwrap();
    rt.block_on(async {
        for run in 0..runs {
            let now = Time::now();
            let base = (now - Duration::from_secs(n * DELTA)).unwrap();
            let (a, f) = two_chains(n, base, false);
            let world = World { a, f, store: Arc::new(RecStore::new(InMemoryStore::new(), Arc::new(|_| {}))) };
            let wsamp = Duration::from_secs((k - 1) * DELTA + DELTA / 2);
            let wprune = Duration::from_secs((kp - 1) * DELTA + DELTA / 2);
            let mut net_head = n - rng.gen_range(15..25);
            tw.emit(json!({"name": "reset", "run": run, "now": n}));
            tw.emit(json!({"name": "prefill", "netHead": net_head, "st": world.snapshot(None).await}));
            let (p2p, mut handle) = w::mocked_p2p();
            let events = Events::new();
            let mut sub = events.subscribe();
            let syncer = VSyncer::start(&p2p, world.store.clone(), &events, batch, wsamp, wprune).unwrap();
            handle.announce_trusted_peer_connected();
            settle().await;
            tw.emit(json!({"name": "connect", "st": world.snapshot(Some(&syncer)).await}));
            let mut pending: VecDeque<(u64, u64, Responder)> = VecDeque::new();
            let (mut cur_batch, mut cur_kind, mut failed_seen, mut n_fetch, mut fatal, mut inflight) = (None, Kind::Ok, false, 0u64, false, false);
            let (mut idle, mut has_sub, mut n_mark, mut cycles, mut held) = (0u32, false, 0u64, 0u64, 0u64);
            let mut calm_cycles = 0;
            for _step in 0..20000 {
                tokio::time::sleep(Duration::from_millis(300)).await;
                let before = n_fetch;
                drain_events(&mut sub, &world, &syncer, &mut tw, &mut cur_batch, &mut cur_kind, &mut failed_seen,
                             &mut n_fetch, &mut fatal, &mut rng, false, "slow", &mut inflight).await;
                if fatal {
                    break;
                }
                let mut got = n_fetch > before;
                while let Some(cmd) = w::try_recv_cmd(&mut handle) {
                    got = true;
                    match cmd {
                        MockCmd::HeaderEx { request, respond_to } => {
                            use celestia_proto::p2p::pb::header_request::Data;
                            match request.data {
                                Some(Data::Origin(0)) => {
                                    let _ = respond_to.send(Ok(vec![world.a(net_head)]));
                                }
                                Some(Data::Origin(h)) => pending.push_back((h, request.amount, respond_to)),
                                _ => {}
                            }
                        }
                        MockCmd::InitHeaderSub { .. } => has_sub = true,
                        _ => {}
                    }
                }
                if let Some((h, amt, tx)) = pending.pop_front() {
                    let top = (h + amt - 1).min(n);
                    let _ = tx.send(Ok((h..=top).map(|x| world.a(x)).collect()));
                    idle = 0;
                    continue;
                }
                if got || cur_batch.is_some() {
                    idle = 0;
                    continue;
                }
                idle += 1;
                if idle < 4 || !has_sub {
                    continue;
                }
                // the worker is idle: the sampler works, then a new head arrives
                idle = 0;
                cycles += 1;
                let stored = world.store.inner.get_stored_header_ranges().await.unwrap();
                let sampled = world.store.inner.get_sampled_ranges().await.unwrap();
                let mut uns: Vec<u64> = stored.as_ref().iter().flat_map(|r| r.clone()).filter(|h| !sampled.contains(*h)).collect();
                uns.reverse();
                let lowest_wanted = n - k + 1;
                let complete = (lowest_wanted..=net_head).all(|h| stored.contains(h));
                // the worker is idle although the window is not complete: something holds it back
                if !complete {
                    held += 1;
                }
                if uns.is_empty() && (complete || net_head >= n) {
                    calm_cycles += 1;
                    if calm_cycles >= 2 {
                        break;
                    }
                }
                let m = rng.gen_range(5..40).min(uns.len());
                for h in &uns[..m] {
                    world.store.inner.mark_as_sampled(*h).await.unwrap();
                    n_mark += 1;
                    tw.emit(json!({"name": "mark", "h": h, "st": world.snapshot(Some(&syncer)).await}));
                }
                if net_head < n {
                    net_head += 1;
                    tw.emit(json!({"name": "newblock", "netHead": net_head}));
                    handle.announce_new_head(world.a(net_head));
                    settle().await;
                    tw.emit(json!({"name": "headsub", "h": net_head, "st": world.snapshot(Some(&syncer)).await}));
                }
            }
            settle().await;
            drain_events(&mut sub, &world, &syncer, &mut tw, &mut cur_batch, &mut cur_kind, &mut failed_seen,
                         &mut n_fetch, &mut fatal, &mut rng, false, "slow", &mut inflight).await;
            // the obligations of the environment are met (honest answers, everything stored is sampled, heads kept
            // coming): the window must be there
            let stored = world.store.inner.get_stored_header_ranges().await.unwrap();
            let sampled = world.store.inner.get_sampled_ranges().await.unwrap();
            let all_sampled = stored.as_ref().iter().flat_map(|r| r.clone()).all(|h| sampled.contains(h));
            tw.emit(json!({"name": "quiescent", "check_live": (all_sampled && !fatal) as u8, "st": world.snapshot(Some(&syncer)).await}));
            syncer.stop();
            syncer.join().await;
            let nontrivial = held >= 1 && n_fetch >= 5;
            sum.case("C38", if nontrivial { Some(format!("slow/{run}")) } else { None },
                     || json!({"mode": "slow-sync", "n": n, "batch": batch, "wsamp": k, "wprune": kp, "fetches": n_fetch, "marks": n_mark,
                               "sampler_cycles": cycles, "cycles_with_the_syncer_held_back": held}));
        }
    });
    let nev = tw.finish();
    sum.set("events", json!(nev));
    sum.write(args.opt("summary").unwrap_or("/dev/stdout"));
}

/// spec -> impl: environment schedules generated by TLC (Gen_Syncer, simulation of Syncer.tla) are
/// performed on the real Syncer; what happens is recorded for Trace_Syncer like in `record`.
/// The honest chain and a foreign chain of the same heights and times.  The foreign chain is either signed by
/// another validator, or (`same_key`) a fork signed by the SAME validator: every header of it is then a valid
/// non-adjacent successor / predecessor of honest headers, only the hash links tell the chains apart.
pub fn two_chains(n: u64, base: Time, same_key: bool) -> (Vec<ExtendedHeader>, Vec<ExtendedHeader>) {
    let mut ga = ExtendedHeaderGenerator::new();
    ga.set_time(base, Duration::from_secs(DELTA));
    if !same_key {
        let a = ga.next_many_empty(n);
        let mut gf = ExtendedHeaderGenerator::new();
        gf.set_time(base, Duration::from_secs(DELTA));
        return (a, gf.next_many_empty(n));
    }
    let (mut a, mut f): (Vec<ExtendedHeader>, Vec<ExtendedHeader>) = (vec![], vec![]);
    for i in 0..n as usize {
        let h = ga.next_many_empty(1).pop().unwrap();
        let snap = ga.fork(); // its spoofed clock now shows h's time
        let fh = match std::panic::catch_unwind(std::panic::AssertUnwindSafe(|| if i == 0 { snap.another_of(&h) } else { snap.next_of(&f[i - 1]) })) {
            Ok(x) => x,
            Err(e) => { eprintln!("two_chains: generator panicked at i={i}: {:?}", e.downcast_ref::<String>()); std::process::exit(3) }
        };
        if !(fh.hash() != h.hash() && fh.height() == h.height()) { eprintln!("two_chains: bad fork header at i={i}: {} vs {}", fh.height(), h.height()); std::process::exit(3) }
        f.push(fh);
        a.push(h);
    }
    (a, f)
}

pub fn replay(args: &Args) {
    let cases = h_common::read_cases(args.pos(2));
    let n = args.opt_u64("n", 10);
    let batch = args.opt_u64("batch", 2);
    let k = args.opt_u64("wsamp", 5);
    let mut tw = TraceWriter::create(args.opt("out").expect("--out"));
    let mut sum = Summary::new("syncer-replay");
    let mut rng = StdRng::seed_from_u64(7);
    h_common::QUIET_ALL.store(true, std::sync::atomic::Ordering::Relaxed);
    let rt = tokio::runtime::Builder::new_current_thread().enable_all().start_paused(true).build().unwrap();
    rt.block_on(async {
        for (ci, c) in cases.iter().enumerate() {
            let now = Time::now();
            let base = (now - Duration::from_secs(n * DELTA)).unwrap();
            let (a, f) = two_chains(n, base, ci % 2 == 1);
            let world = World { a, f, store: Arc::new(RecStore::new(InMemoryStore::new(), Arc::new(|_| {}))) };
            let wsamp = Duration::from_secs((k - 1) * DELTA + DELTA / 2);
            tw.emit(json!({"name": "reset", "run": ci, "now": n}));
            let ops = c["ops"].as_array().unwrap();
            let mut net_head = ops[0]["h"].as_u64().unwrap();
            tw.emit(json!({"name": "prefill", "netHead": net_head, "st": world.snapshot(None).await}));
            let (p2p, mut handle) = w::mocked_p2p();
            let events = Events::new();
            let mut sub = events.subscribe();
            let syncer = VSyncer::start(&p2p, world.store.clone(), &events, batch, wsamp, Duration::from_secs(100_000_000)).unwrap();
            let mut pending: VecDeque<(u64, u64, Responder)> = VecDeque::new();
            let (mut cur_batch, mut cur_kind, mut failed_seen, mut n_fetch, mut fatal, mut inflight) = (None, Kind::Ok, false, 0u64, false, false);
            let (mut peers, mut trusted, mut has_sub) = (0u64, false, false);
            let mut graveyard: Vec<Responder> = vec![];
            // let the worker take its own steps: timers, head requests, node events
            macro_rules! quiesce {
                () => {
                    for _ in 0..6 {
                        tokio::time::sleep(Duration::from_millis(400)).await;
                        drain_events(&mut sub, &world, &syncer, &mut tw, &mut cur_batch, &mut cur_kind, &mut failed_seen,
                                     &mut n_fetch, &mut fatal, &mut rng, false, "replay", &mut inflight).await;
                        while let Some(cmd) = w::try_recv_cmd(&mut handle) {
                            match cmd {
                                MockCmd::HeaderEx { request, respond_to } => {
                                    use celestia_proto::p2p::pb::header_request::Data;
                                    match request.data {
                                        Some(Data::Origin(0)) => {
                                            let _ = respond_to.send(Ok(vec![world.a(net_head)]));
                                        }
                                        Some(Data::Origin(h)) => pending.push_back((h, request.amount, respond_to)),
                                        _ => {}
                                    }
                                }
                                MockCmd::InitHeaderSub { .. } => has_sub = true,
                                _ => {}
                            }
                        }
                    }
                };
            }
            quiesce!();
            let mut performed = 0;
            for op in &ops[1..] {
                let h = op["h"].as_u64().unwrap();
                match op["a"].as_str().unwrap() {
                    "connect" if peers == 0 => {
                        handle.announce_trusted_peer_connected();
                        peers = 1;
                        trusted = true;
                        settle().await;
                        tw.emit(json!({"name": "connect", "st": world.snapshot(Some(&syncer)).await}));
                    }
                    "disconnect" if peers > 0 => {
                        handle.announce_all_peers_disconnected();
                        peers = 0;
                        trusted = false;
                        has_sub = false;
                        graveyard.extend(pending.drain(..).map(|x| x.2));
                        cur_batch = None;
                        settle().await;
                        tw.emit(json!({"name": "disconnect", "st": world.snapshot(Some(&syncer)).await}));
                    }
                    "plainjoin" if peers == 1 => {
                        w::set_peer_counts(&handle, 2, trusted as u64);
                        peers = 2;
                        settle().await;
                        tw.emit(json!({"name": "plainjoin", "st": world.snapshot(Some(&syncer)).await}));
                    }
                    "trustedleave" if peers == 2 && trusted => {
                        w::set_peer_counts(&handle, 1, 0);
                        peers = 1;
                        trusted = false;
                        settle().await;
                        tw.emit(json!({"name": "trustedleave", "st": world.snapshot(Some(&syncer)).await}));
                    }
                    "newblock" if h <= n => {
                        net_head = h;
                        tw.emit(json!({"name": "newblock", "netHead": net_head}));
                    }
                    "headsub" if has_sub && peers > 0 => {
                        handle.announce_new_head(world.a(net_head));
                        settle().await;
                        tw.emit(json!({"name": "headsub", "h": net_head, "st": world.snapshot(Some(&syncer)).await}));
                    }
                    "prune" => {
                        if world.store.inner.has_at(h).await {
                            world.store.inner.remove_height(h).await.unwrap();
                            tw.emit(json!({"name": "prune", "h": h, "st": world.snapshot(Some(&syncer)).await}));
                        }
                    }
                    "mark" => {
                        if world.store.inner.has_at(h).await {
                            world.store.inner.mark_as_sampled(h).await.unwrap();
                            tw.emit(json!({"name": "mark", "h": h, "st": world.snapshot(Some(&syncer)).await}));
                        }
                    }
                    kind @ ("batch_ok" | "batch_foreign" | "batch_fail") => {
                        // answer every sub-request of the ongoing batch in this way
                        cur_kind = match kind {
                            "batch_ok" => Kind::Ok,
                            "batch_foreign" => Kind::Foreign,
                            _ => Kind::Fail,
                        };
                        let mut next_batch_seen = false;
                        for _ in 0..40 {
                            if next_batch_seen {
                                break;
                            }
                            let Some((hh, amt, tx)) = pending.pop_front() else { break };
                            let top = (hh + amt - 1).min(n);
                            let ans = match cur_kind {
                                Kind::Ok => Ok((hh..=top).map(|x| world.a(x)).collect()),
                                Kind::Foreign => Ok((hh..=top).map(|x| world.f[(x - 1) as usize].clone()).collect()),
                                Kind::Fail => Err(w::header_ex_error("timeout")),
                            };
                            let _ = tx.send(ans);
                            settle().await;
                            while let Some(cmd) = w::try_recv_cmd(&mut handle) {
                                if let MockCmd::HeaderEx { request, respond_to } = cmd {
                                    use celestia_proto::p2p::pb::header_request::Data;
                                    if let Some(Data::Origin(h2)) = request.data {
                                        if h2 == 0 {
                                            let _ = respond_to.send(Ok(vec![world.a(net_head)]));
                                        } else if cur_batch.is_some_and(|(lo, hi): (u64, u64)| lo <= h2 && h2 <= hi) && cur_kind != Kind::Fail {
                                            pending.push_back((h2, request.amount, respond_to));
                                        } else {
                                            // the worker has moved on to its next batch: that one is
                                            // answered by a later batch_* step of the schedule
                                            pending.push_back((h2, request.amount, respond_to));
                                            next_batch_seen = true;
                                        }
                                    }
                                }
                            }
                            if cur_kind == Kind::Fail {
                                break;
                            }
                        }
                    }
                    _ => continue,
                }
                performed += 1;
                // batch kinds recorded by drain_events use cur_kind at the time the batch ends
                let keep = cur_kind;
                quiesce!();
                cur_kind = keep;
                if fatal {
                    break;
                }
            }
            tw.emit(json!({"name": "quiescent", "netHead": net_head, "check_live": 0, "st": world.snapshot(Some(&syncer)).await}));
            syncer.stop();
            syncer.join().await;
            for p in ["C25", "C38", "C24"] {
                sum.case(p, Some(format!("{}", c["ops"])), || json!({"ops": ops, "performed": performed, "fetches": n_fetch}));
            }
        }
    });
    let nev = tw.finish();
    sum.set("events", json!(nev));
    sum.write(args.opt("summary").unwrap_or("/dev/stdout"));
}
