//! C22 — crash safety of the redb store (impl -> spec).
//!
//! A journaling in-memory `redb::StorageBackend` records every `write` / `set_len` / `sync_data`
//! call redb makes while a seeded history of store operations runs on a real `RedbStore`.
//! For every journal boundary after `RedbStore::new` returned on the fresh database (= every
//! point at which the process can die between two backend calls) the file image a crash would
//! leave is materialised
//!   * `synced`: only what was written before the last full `sync_data` survives,
//!   * `all`:    every write issued before the point survives,
//!   * `subset`: a seeded random subset of the whole writes after the last sync survives
//!               (an eventual sync is a write barrier: a write after it survives only if all
//!               writes before it do),
//! reopened through `Database::builder().create_with_backend` + `RedbStore::new`, and the
//! complete observable projection of the recovered store is logged.  spec/Trace_StoreCrash.tla
//! decides whether the recovered state is allowed.

use std::collections::HashMap;
use std::io;
use std::sync::{Arc, Mutex};
use std::time::Duration;

use futures::FutureExt;
use h_common::{Args, Summary, TraceWriter};
use lumina_node::store::{RedbStore, Store};
use rand::rngs::StdRng;
use rand::{Rng, SeedableRng};
use redb::{Database, StorageBackend};
use serde_json::{json, Value};
use tendermint::Time;

use crate::storelib::{apply, gen_op, project, universe, Intern, Op, Universe, R_OK};
use celestia_types::hash::Hash;
use rand::seq::SliceRandom;

#[derive(Clone, Debug)]
pub enum JOp {
    Write(u64, Vec<u8>),
    SetLen(u64),
    Sync(bool),
}

#[derive(Debug, Default)]
struct JInner {
    data: Vec<u8>,
    journal: Vec<JOp>,
    /// the harness is done with this image: further mutations fail (makes dropping cheap)
    dead: bool,
}

/// In-memory storage that behaves like a file and journals every mutating call.
#[derive(Debug, Clone, Default)]
pub struct JournalBackend(Arc<Mutex<JInner>>);

fn apply_jop(data: &mut Vec<u8>, op: &JOp) {
    match op {
        JOp::Write(off, bytes) => {
            let off = *off as usize;
            if data.len() < off + bytes.len() {
                data.resize(off + bytes.len(), 0);
            }
            data[off..off + bytes.len()].copy_from_slice(bytes);
        }
        JOp::SetLen(n) => data.resize(*n as usize, 0),
        JOp::Sync(_) => {}
    }
}

impl JournalBackend {
    pub fn from_image(data: Vec<u8>) -> Self {
        JournalBackend(Arc::new(Mutex::new(JInner { data, journal: vec![], dead: false })))
    }
    pub fn pos(&self) -> usize {
        self.0.lock().unwrap().journal.len()
    }
    pub fn kill(&self) {
        self.0.lock().unwrap().dead = true;
    }
    pub fn journal(&self) -> Vec<JOp> {
        self.0.lock().unwrap().journal.clone()
    }
}

impl StorageBackend for JournalBackend {
    fn len(&self) -> Result<u64, io::Error> {
        Ok(self.0.lock().unwrap().data.len() as u64)
    }
    fn read(&self, offset: u64, len: usize) -> Result<Vec<u8>, io::Error> {
        let g = self.0.lock().unwrap();
        let off = offset as usize;
        if off + len <= g.data.len() {
            Ok(g.data[off..off + len].to_vec())
        } else {
            Err(io::Error::new(io::ErrorKind::UnexpectedEof, "read past the end of the image"))
        }
    }
    fn set_len(&self, len: u64) -> Result<(), io::Error> {
        let mut g = self.0.lock().unwrap();
        if g.dead {
            return Err(io::Error::other("image discarded"));
        }
        let op = JOp::SetLen(len);
        apply_jop(&mut g.data, &op);
        g.journal.push(op);
        Ok(())
    }
    fn sync_data(&self, eventual: bool) -> Result<(), io::Error> {
        let mut g = self.0.lock().unwrap();
        if g.dead {
            return Err(io::Error::other("image discarded"));
        }
        g.journal.push(JOp::Sync(eventual));
        Ok(())
    }
    fn write(&self, offset: u64, data: &[u8]) -> Result<(), io::Error> {
        let mut g = self.0.lock().unwrap();
        if g.dead {
            return Err(io::Error::other("image discarded"));
        }
        let op = JOp::Write(offset, data.to_vec());
        apply_jop(&mut g.data, &op);
        g.journal.push(op);
        Ok(())
    }
}

fn panic_text(e: Box<dyn std::any::Any + Send>) -> String {
    e.downcast_ref::<String>().cloned().or_else(|| e.downcast_ref::<&str>().map(|s| s.to_string())).unwrap_or_else(|| "panic".into())
}

/// Projection of a store plus the persisted libp2p identity (1 = the identity created when the
/// database was first opened, 2 = any other).
async fn project_all(s: &RedbStore, it: &Intern, len: u64, ident: &str) -> Value {
    let mut st = project(s, it, len).await;
    let id = match s.get_identity().await {
        Ok(k) if k.public().to_peer_id().to_string() == ident => 1,
        Ok(_) => 2,
        Err(_) => 0,
    };
    st["ident"] = json!(id);
    st
}

/// Reopen an image as the node would after a restart and project it.
async fn recover(image: Vec<u8>, it: &Intern, len: u64, ident: &str) -> Value {
    let fut = async {
        let be = JournalBackend::from_image(image);
        let be2 = be.clone();
        let db = match std::panic::catch_unwind(std::panic::AssertUnwindSafe(|| Database::builder().create_with_backend(be))) {
            Ok(Ok(db)) => db,
            Ok(Err(e)) => return json!({"name": "recovered", "ok": 0, "stage": "database", "err": e.to_string()}),
            Err(e) => return json!({"name": "recovered", "ok": 0, "stage": "database-panic", "err": panic_text(e)}),
        };
        let dbg = std::env::var("H_REDB_DEBUG").is_ok();
        let t1 = std::time::Instant::now();
        let store = match RedbStore::new(Arc::new(db)).await {
            Ok(s) => s,
            Err(e) => return json!({"name": "recovered", "ok": 0, "stage": "store", "err": e.to_string()}),
        };
        let t2 = std::time::Instant::now();
        let st = project_all(&store, it, len, ident).await;
        let t3 = std::time::Instant::now();
        be2.kill();
        let _ = store.close().await;
        if dbg {
            eprintln!("store-new {:?} project {:?} close {:?}", t2 - t1, t3 - t2, t3.elapsed());
        }
        json!({"name": "recovered", "ok": 1, "st": st})
    };
    match std::panic::AssertUnwindSafe(fut).catch_unwind().await {
        Ok(v) => v,
        Err(e) => json!({"name": "recovered", "ok": 0, "stage": "panic", "err": panic_text(e)}),
    }
}

/// `gen_op` of the store histories, re-biased: crash points only exist inside operations that
/// reach the backend, so most removals / marks / metadata updates address a stored height and an
/// empty store is mostly inserted into (failing operations stay part of the histories).
fn gen_crash_op(rng: &mut StdRng, u: &Universe, stored: &[(u64, u64)], stored_hashes: &HashMap<u64, Hash>) -> Op {
    let in_store = |h: u64| stored.iter().any(|(a, b)| *a <= h && h <= *b);
    for _ in 0..20 {
        let op = gen_op(rng, u, stored, stored_hashes);
        let h = match &op {
            Op::Insert(_) => return op,
            Op::Remove(h) | Op::Mark(h) | Op::Meta(h, _) => *h,
        };
        if in_store(h) || rng.gen_bool(0.15) {
            return op;
        }
        if let Some(r) = stored.choose(rng) {
            let h = rng.gen_range(r.0..=r.1);
            return match op {
                Op::Remove(_) => Op::Remove(h),
                Op::Mark(_) => Op::Mark(h),
                Op::Meta(_, cs) => Op::Meta(h, cs),
                o => o,
            };
        }
    }
    gen_op(rng, u, stored, stored_hashes)
}

pub struct OpRec {
    pub jb: usize,
    pub je: usize,
    pub st: Value,
}

/// The unsynced tail of the journal at crash point `p`: (index after the last full sync, barriers).
fn last_full_sync(journal: &[JOp], p: usize) -> usize {
    (0..p).rev().find(|i| matches!(journal[*i], JOp::Sync(false))).map(|i| i + 1).unwrap_or(0)
}

/// A random allowed survivor set of journal[s..p]: with eventual syncs (barriers) inside, all
/// segments before a chosen barrier survive fully, a random subset of the next one survives.
fn random_survivors(rng: &mut StdRng, journal: &[JOp], s: usize, p: usize) -> Vec<usize> {
    let mut segs: Vec<Vec<usize>> = vec![vec![]];
    for i in s..p {
        match journal[i] {
            JOp::Sync(true) => segs.push(vec![]),
            JOp::Sync(false) => {}
            _ => segs.last_mut().unwrap().push(i),
        }
    }
    let k = rng.gen_range(0..segs.len());
    let mut keep: Vec<usize> = segs[..k].iter().flatten().copied().collect();
    let prob = [0.2, 0.5, 0.8][rng.gen_range(0..3)];
    keep.extend(segs[k].iter().copied().filter(|_| rng.gen_bool(prob)));
    keep
}

pub fn record(args: &Args) {
    let seed = args.opt_u64("seed", 1);
    let runs = args.opt_u64("runs", 4);
    let first = args.opt_u64("first-run", 0);
    let ops = args.opt_u64("ops", 10);
    let len = args.opt_u64("len", 14);
    let subsets = args.opt_u64("subsets", 2);
    let exhaustive = args.opt_u64("exhaustive", 0);
    let out = args.opt("out").expect("--out").to_string();
    let mut tw = TraceWriter::create(&out);
    let mut sum = Summary::new("storecrash-record");
    let rt = tokio::runtime::Builder::new_current_thread().enable_all().build().unwrap();
    h_common::QUIET_ALL.store(true, std::sync::atomic::Ordering::Relaxed);
    rt.block_on(async {
        for run in first..first + runs {
            one_history(seed, run, ops, len, subsets, exhaustive, &mut tw, &mut sum).await;
        }
    });
    let n = tw.finish();
    sum.set("events", json!(n));
    sum.set("runs", json!(runs));
    sum.write(args.opt("summary").unwrap_or("/dev/stdout"));
}

async fn one_history(seed: u64, run: u64, ops: u64, len: u64, subsets: u64, exhaustive: u64, tw: &mut TraceWriter, sum: &mut Summary) {
    let mut rng = StdRng::seed_from_u64(seed.wrapping_mul(1_000_003).wrapping_add(run));
    let base = (Time::now() - Duration::from_secs(1_000_000)).unwrap();
    let mut it = Intern { base_secs: base.unix_timestamp(), ..Default::default() };
    let u = universe(&mut rng, len, base);

    let be = JournalBackend::default();
    let db = Database::builder().create_with_backend(be.clone()).expect("fresh database");
    let store = RedbStore::new(Arc::new(db)).await.expect("fresh store");
    let ident = store.get_identity().await.unwrap().public().to_peer_id().to_string();
    let p0 = be.pos();

    tw.emit(json!({"name": "reset", "run": run, "p0": p0}));
    let mut hist: Vec<OpRec> = vec![];
    let st0 = project_all(&store, &it, len, &ident).await;
    tw.emit(json!({"name": "op", "i": 0, "op": "init", "res": R_OK, "jb": 0, "je": p0, "st": st0}));
    hist.push(OpRec { jb: 0, je: p0, st: st0 });

    let mut committed = 0u64;
    for i in 1..=ops {
        let stored: Vec<(u64, u64)> =
            store.get_stored_header_ranges().await.unwrap().as_ref().iter().map(|r| (*r.start(), *r.end())).collect();
        let mut stored_hashes = HashMap::new();
        for (a, b) in &stored {
            for h in *a..=*b {
                if let Ok(x) = store.get_by_height(h).await {
                    stored_hashes.insert(h, x.hash());
                }
            }
        }
        let op = gen_crash_op(&mut rng, &u, &stored, &stored_hashes);
        let (name, mut ev) = match &op {
            Op::Insert(b) => {
                let mut ids = vec![];
                for h in b {
                    let (id, d) = it.header(h);
                    if let Some(d) = d {
                        tw.emit(json!({"name": "hdr", "d": d}));
                    }
                    ids.push(id);
                }
                ("insert", json!({"b": ids}))
            }
            Op::Remove(h) => ("remove", json!({"h": h})),
            Op::Mark(h) => ("mark", json!({"h": h})),
            Op::Meta(h, cs) => ("meta", json!({"h": h, "cs": cs})),
        };
        let jb = be.pos();
        let r = match std::panic::AssertUnwindSafe(apply(&store, &op)).catch_unwind().await {
            Ok(r) => r,
            Err(e) => {
                // a panicking operation ends the history; crash points up to here are still examined
                sum.add("panics", 1);
                sum.set("last_panic", json!(panic_text(e)));
                break;
            }
        };
        let je = be.pos();
        let st = project_all(&store, &it, len, &ident).await;
        if st != hist.last().unwrap().st {
            committed += 1;
        }
        ev["name"] = json!("op");
        ev["i"] = json!(i);
        ev["op"] = json!(name);
        ev["res"] = json!(r);
        ev["jb"] = json!(jb);
        ev["je"] = json!(je);
        ev["st"] = st.clone();
        tw.emit(ev);
        hist.push(OpRec { jb, je, st });
    }
    sum.add("state_changing_ops", committed);
    sum.add("ops", hist.len() as u64 - 1);

    // ---- crash points ----
    let journal = be.journal();
    sum.add("journal_entries", (journal.len() - p0) as u64);
    sum.add("full_syncs", journal[p0..].iter().filter(|j| matches!(j, JOp::Sync(false))).count() as u64);
    sum.add("eventual_syncs", journal.iter().filter(|j| matches!(j, JOp::Sync(true))).count() as u64);
    let mut synced_img: Vec<u8> = vec![];
    let mut synced_upto = 0usize; // journal[..synced_upto] applied to synced_img
    let mut cache: HashMap<(usize, usize), Value> = HashMap::new(); // (s, p) with all of s..p kept -> recovered
    for p in p0..=journal.len() {
        let s = last_full_sync(&journal, p);
        while synced_upto < s {
            apply_jop(&mut synced_img, &journal[synced_upto]);
            synced_upto += 1;
        }
        let acked = (0..hist.len()).rev().find(|i| hist[*i].je <= p).unwrap();
        let infl = acked + 1 < hist.len() && hist[acked + 1].jb < p;
        let unsynced: Vec<usize> = (s..p).filter(|i| !matches!(journal[*i], JOp::Sync(_))).collect();
        let changing = infl && hist[acked].st != hist[acked + 1].st;
        let mut images: Vec<(&str, Vec<usize>)> = vec![("synced", vec![]), ("all", unsynced.clone())];
        let barriers = (s..p).any(|i| matches!(journal[i], JOp::Sync(true)));
        let k = unsynced.len();
        if k >= 2 && !barriers && k as u64 <= exhaustive && unsynced[k - 1] == p - 1 {
            // every survivor set that contains the newest write (the others were images of earlier
            // points), except the full set (= "all")
            for m in 0..(1u64 << (k - 1)) - 1 {
                let mut keep: Vec<usize> = (0..k - 1).filter(|b| m >> b & 1 == 1).map(|b| unsynced[b]).collect();
                keep.push(unsynced[k - 1]);
                images.push(("subset", keep));
            }
            sum.add("points_with_all_subsets", 1);
        } else if k >= 2 {
            for _ in 0..subsets {
                images.push(("subset", random_survivors(&mut rng, &journal, s, p)));
            }
            sum.add("points_with_sampled_subsets", 1);
        }
        for (mode, keep) in images {
            // identical images (nothing unsynced kept / everything kept) are recovered once
            let key = if keep.is_empty() { Some((s, s)) } else if mode == "all" { Some((s, p)) } else { None };
            let cached = key.and_then(|k| cache.get(&k).cloned());
            let rec = match cached {
                Some(v) => v,
                None => {
                    let mut img = synced_img.clone();
                    for i in &keep {
                        apply_jop(&mut img, &journal[*i]);
                    }
                    let t0 = std::time::Instant::now(); let sz = img.len();
                    let v = recover(img, &it, len, &ident).await;
                    if std::env::var("H_REDB_DEBUG").is_ok() { eprintln!("image {} bytes, recover {:?}", sz, t0.elapsed()); }
                    sum.add("images_reopened", 1);
                    if let Some(k) = key {
                        cache.insert(k, v.clone());
                    }
                    v
                }
            };
            let crash = json!({"name": "crash", "p": p, "mode": mode, "acked": acked, "infl": infl as u64,
                               "unsynced": unsynced.len(), "kept": keep.len()});
            let nontrivial = changing && !unsynced.is_empty();
            sum.case("C22", nontrivial.then(|| format!("{run}/{p}/{mode}/{keep:?}")), || json!({"crash": crash, "recovered_ok": rec["ok"]}));
            tw.emit(crash);
            tw.emit(rec);
        }
    }
    let _ = store.close().await;
}
