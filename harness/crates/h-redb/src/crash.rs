//! C22 — crash safety of the redb store (impl -> spec).
//!
//! A journaling in-memory `redb::StorageBackend` records every `write` / `set_len` / `sync_data`
//! call redb makes while a seeded history of store operations runs on a real `RedbStore`.
//! For every journal boundary after `RedbStore::new` returned on the fresh database (= every
//! point at which the process can die between two backend calls) the file image a crash would
//! leave is materialised
//!   * `synced`: only what was written before the last full `sync_data` survives,
//!   * `all`:    every write issued before the point survives,
//!   * `subset`: a subset of the whole writes after the last sync survives (enumerated while few
//!               writes are unsynced, seeded random beyond; an eventual sync is a write barrier: a
//!               write after it survives only if all writes before it do; a file-size change
//!               survives whenever a later call does - `subset-lostlen` images, where it does not,
//!               are beyond the property's fault model and only logged),
//! reopened through `Database::builder().create_with_backend` + `RedbStore::new`, and the
//! complete observable projection of the recovered store is logged.  spec/Trace_StoreCrash.tla
//! decides whether the recovered state is allowed.

use std::collections::HashMap;
use std::io;
use std::sync::{Arc, Mutex};
use std::time::Duration;

use futures::FutureExt;
use h_common::{Args, Summary, TraceWriter};
use lumina_node::store::{RedbStore, Store};
use rand::rngs::StdRng;
use rand::{Rng, SeedableRng};
use celestia_types::ExtendedHeader;
use redb::{Database, ReadableTable, StorageBackend, TableDefinition};
use tendermint_proto::Protobuf;
use serde_json::{json, Value};
use tendermint::Time;

use crate::storelib::{apply, cid_num, gen_op, project, universe, Intern, Op, Universe, R_OK};
use celestia_types::hash::Hash;
use rand::seq::SliceRandom;

#[derive(Clone, Debug)]
pub enum JOp {
    Write(u64, Vec<u8>),
    SetLen(u64),
    Sync(bool),
}

#[derive(Debug, Default)]
struct JInner {
    data: Vec<u8>,
    journal: Vec<JOp>,
    /// the harness is done with this image: further mutations fail (makes dropping cheap)
    dead: bool,
}

/// In-memory storage that behaves like a file and journals every mutating call.
#[derive(Debug, Clone, Default)]
pub struct JournalBackend(Arc<Mutex<JInner>>);

fn apply_jop(data: &mut Vec<u8>, op: &JOp) {
    match op {
        JOp::Write(off, bytes) => {
            let off = *off as usize;
            if data.len() < off + bytes.len() {
                data.resize(off + bytes.len(), 0);
            }
            data[off..off + bytes.len()].copy_from_slice(bytes);
        }
        JOp::SetLen(n) => data.resize(*n as usize, 0),
        JOp::Sync(_) => {}
    }
}

impl JournalBackend {
    pub fn from_image(data: Vec<u8>) -> Self {
        JournalBackend(Arc::new(Mutex::new(JInner { data, journal: vec![], dead: false })))
    }
    pub fn pos(&self) -> usize {
        self.0.lock().unwrap().journal.len()
    }
    pub fn kill(&self) {
        self.0.lock().unwrap().dead = true;
    }
    pub fn journal(&self) -> Vec<JOp> {
        self.0.lock().unwrap().journal.clone()
    }
}

impl StorageBackend for JournalBackend {
    fn len(&self) -> Result<u64, io::Error> {
        Ok(self.0.lock().unwrap().data.len() as u64)
    }
    fn read(&self, offset: u64, len: usize) -> Result<Vec<u8>, io::Error> {
        let g = self.0.lock().unwrap();
        let off = offset as usize;
        if off + len <= g.data.len() {
            Ok(g.data[off..off + len].to_vec())
        } else {
            Err(io::Error::new(io::ErrorKind::UnexpectedEof, "read past the end of the image"))
        }
    }
    fn set_len(&self, len: u64) -> Result<(), io::Error> {
        let mut g = self.0.lock().unwrap();
        if g.dead {
            return Err(io::Error::other("image discarded"));
        }
        let op = JOp::SetLen(len);
        apply_jop(&mut g.data, &op);
        g.journal.push(op);
        Ok(())
    }
    fn sync_data(&self, eventual: bool) -> Result<(), io::Error> {
        let mut g = self.0.lock().unwrap();
        if g.dead {
            return Err(io::Error::other("image discarded"));
        }
        g.journal.push(JOp::Sync(eventual));
        Ok(())
    }
    fn write(&self, offset: u64, data: &[u8]) -> Result<(), io::Error> {
        let mut g = self.0.lock().unwrap();
        if g.dead {
            return Err(io::Error::other("image discarded"));
        }
        let op = JOp::Write(offset, data.to_vec());
        apply_jop(&mut g.data, &op);
        g.journal.push(op);
        Ok(())
    }
}

fn panic_text(e: Box<dyn std::any::Any + Send>) -> String {
    e.downcast_ref::<String>().cloned().or_else(|| e.downcast_ref::<&str>().map(|s| s.to_string())).unwrap_or_else(|| "panic".into())
}

const HEIGHTS_TABLE: TableDefinition<'static, &[u8], u64> = TableDefinition::new("STORE.HEIGHTS");
const HEADERS_TABLE: TableDefinition<'static, u64, &[u8]> = TableDefinition::new("STORE.HEADERS");
const SAMPLING_METADATA_TABLE: TableDefinition<'static, u64, &[u8]> = TableDefinition::new("STORE.SAMPLING_METADATA");

/// The per-height / per-hash part of the projection for long chains, read in ONE read
/// transaction from the tables the corresponding Store queries read (get_by_height / has_at:
/// STORE.HEADERS; get_by_hash / has: STORE.HEIGHTS then STORE.HEADERS; get_sampling_metadata:
/// STORE.HEADERS then STORE.SAMPLING_METADATA) instead of thousands of single queries.
fn project_tables(s: &RedbStore, it: &Intern, st: &mut Value) -> Vec<u64> {
    let db = s.raw_db();
    let tx = db.begin_read().expect("read tx");
    let headers = tx.open_table(HEADERS_TABLE).expect("headers table");
    let heights = tx.open_table(HEIGHTS_TABLE).expect("heights table");
    let sampling = tx.open_table(SAMPLING_METADATA_TABLE).expect("sampling table");
    let mut id_at: HashMap<u64, u64> = HashMap::new();
    let (mut byh, mut hasat, mut meta, mut metanone) = (vec![], vec![], vec![], vec![]);
    let _: &Vec<u64> = &meta;
    for row in headers.iter().expect("iter") {
        let (k, v) = row.expect("row");
        let h = k.value();
        let (id, hh) = match it.headers.get(v.value()) {
            Some(id) => (*id, it.by_id[*id as usize - 1].height()),
            None => (0, ExtendedHeader::decode(v.value()).map(|x| x.height()).unwrap_or(0)),
        };
        id_at.insert(h, id);
        byh.push(json!([h, id, hh]));
        hasat.push(h);
        // rows of the metadata table are decoded through the Store query by the caller
        match sampling.get(h).expect("get") {
            Some(_) => meta.push(h),
            None => metanone.push(h),
        }
    }
    let (mut byhash, mut has) = (vec![], vec![]);
    for row in heights.iter().expect("iter") {
        let (k, v) = row.expect("row");
        let tag = it.hashes.get(k.value()).copied().unwrap_or(0);
        if let Some(id) = id_at.get(&v.value()) {
            byhash.push((tag, *id));
            has.push(tag);
        }
    }
    byhash.sort();
    has.sort();
    st["byh"] = json!(byh);
    st["hasat"] = json!(hasat);
    st["metanone"] = json!(metanone);
    st["byhash"] = json!(byhash.iter().map(|(t, i)| json!([t, i])).collect::<Vec<_>>());
    st["has"] = json!(has);
    meta
}

fn to_ranges(v: &Value) -> Value {
    let mut xs: Vec<u64> = v.as_array().unwrap().iter().map(|x| x.as_u64().unwrap()).collect();
    xs.sort();
    let mut out: Vec<[u64; 2]> = vec![];
    for x in xs {
        match out.last_mut() {
            Some(l) if l[1] + 1 == x => l[1] = x,
            _ => out.push([x, x]),
        }
    }
    json!(out)
}

/// Run-length form of the projection (a long chain is a handful of runs): `byh` as
/// [first height, last height, first header id] (ids ascending with the heights), `byhash` as
/// [first tag, last tag, first header id], `hasat` / `has` / `metanone` as ranges.  A header
/// stored under a height that is not its own goes to `byh_bad` (must be empty).
fn compress(st: &mut Value) {
    let mut runs: Vec<[u64; 3]> = vec![];
    let mut bad = vec![];
    let mut rows: Vec<[u64; 3]> = st["byh"].as_array().unwrap().iter().map(|r| [r[0].as_u64().unwrap(), r[1].as_u64().unwrap(), r[2].as_u64().unwrap()]).collect();
    rows.sort();
    for [h, id, hh] in rows {
        if hh != h {
            bad.push(json!([h, id, hh]));
        }
        match runs.last_mut() {
            Some(l) if l[1] + 1 == h && id != 0 && l[2] != 0 && l[2] + (h - l[0]) == id => l[1] = h,
            _ => runs.push([h, h, id]),
        }
    }
    st["byh"] = json!(runs);
    st["byh_bad"] = json!(bad);
    let mut hruns: Vec<[u64; 3]> = vec![];
    let mut rows: Vec<[u64; 2]> = st["byhash"].as_array().unwrap().iter().map(|r| [r[0].as_u64().unwrap(), r[1].as_u64().unwrap()]).collect();
    rows.sort();
    for [t, id] in rows {
        match hruns.last_mut() {
            Some(l) if l[1] + 1 == t && id != 0 && l[2] != 0 && l[2] + (t - l[0]) == id => l[1] = t,
            _ => hruns.push([t, t, id]),
        }
    }
    st["byhash"] = json!(hruns);
    for k in ["hasat", "has", "metanone"] {
        st[k] = to_ranges(&st[k]);
    }
}

/// Projection of a store plus the persisted libp2p identity (1 = the identity created when the
/// database was first opened, 2 = any other).
async fn project_all(s: &RedbStore, it: &Intern, len: u64, ident: &str, fast: bool) -> Value {
    let mut st = if fast {
        // range / head queries through the Store API, the per-height part from the tables
        let rj = |r: lumina_node::block_ranges::BlockRanges| json!(r.as_ref().iter().map(|x| [*x.start(), *x.end()]).collect::<Vec<_>>());
        let mut st = json!({
            "stored": rj(s.get_stored_header_ranges().await.unwrap()),
            "sampled": rj(s.get_sampled_ranges().await.unwrap()),
            "pruned": rj(s.get_pruned_ranges().await.unwrap()),
            "head": match s.get_head().await { Ok(h) => json!([it.lookup(&h)]), Err(_) => json!([]) },
            "hh": match s.head_height().await { Ok(h) => json!([h]), Err(_) => json!([]) },
        });
        let with_meta = project_tables(s, it, &mut st);
        let mut meta = vec![];
        for h in with_meta {
            if let Ok(Some(m)) = s.get_sampling_metadata(h).await {
                let mut cs: Vec<u64> = m.cids.iter().map(cid_num).collect();
                cs.sort();
                meta.push(json!([h, cs]));
            }
        }
        st["meta"] = json!(meta);
        st
    } else {
        project(s, it, len).await
    };
    compress(&mut st);
    let id = match s.get_identity().await {
        Ok(k) if k.public().to_peer_id().to_string() == ident => 1,
        Ok(_) => 2,
        Err(_) => 0,
    };
    st["ident"] = json!(id);
    st
}

/// Reopen an image as the node would after a restart and project it.
async fn recover(image: Vec<u8>, it: &Intern, len: u64, ident: &str, fast: bool) -> Value {
    let fut = async {
        let be = JournalBackend::from_image(image);
        let be2 = be.clone();
        let db = match std::panic::catch_unwind(std::panic::AssertUnwindSafe(|| Database::builder().create_with_backend(be))) {
            Ok(Ok(db)) => db,
            Ok(Err(e)) => return json!({"name": "recovered", "ok": 0, "stage": "database", "err": e.to_string()}),
            Err(e) => return json!({"name": "recovered", "ok": 0, "stage": "database-panic", "err": panic_text(e)}),
        };
        let dbg = std::env::var("H_REDB_DEBUG").is_ok();
        let t1 = std::time::Instant::now();
        let store = match RedbStore::new(Arc::new(db)).await {
            Ok(s) => s,
            Err(e) => return json!({"name": "recovered", "ok": 0, "stage": "store", "err": e.to_string()}),
        };
        let t2 = std::time::Instant::now();
        let st = project_all(&store, it, len, ident, fast).await;
        let t3 = std::time::Instant::now();
        be2.kill();
        let _ = store.close().await;
        if dbg {
            eprintln!("store-new {:?} project {:?} close {:?}", t2 - t1, t3 - t2, t3.elapsed());
        }
        json!({"name": "recovered", "ok": 1, "st": st})
    };
    match std::panic::AssertUnwindSafe(fut).catch_unwind().await {
        Ok(v) => v,
        Err(e) => json!({"name": "recovered", "ok": 0, "stage": "panic", "err": panic_text(e)}),
    }
}

/// `gen_op` of the store histories, re-biased: crash points only exist inside operations that
/// reach the backend, so most removals / marks / metadata updates address a stored height and an
/// empty store is mostly inserted into (failing operations stay part of the histories).
fn gen_crash_op(rng: &mut StdRng, u: &Universe, stored: &[(u64, u64)], stored_hashes: &HashMap<u64, Hash>) -> Op {
    let in_store = |h: u64| stored.iter().any(|(a, b)| *a <= h && h <= *b);
    for _ in 0..20 {
        let op = gen_op(rng, u, stored, stored_hashes);
        let h = match &op {
            Op::Insert(_) => return op,
            Op::Remove(h) | Op::Mark(h) | Op::Meta(h, _) => *h,
        };
        if in_store(h) || rng.gen_bool(0.45) {
            return op;
        }
        if let Some(r) = stored.choose(rng) {
            let h = rng.gen_range(r.0..=r.1);
            return match op {
                Op::Remove(_) => Op::Remove(h),
                Op::Mark(_) => Op::Mark(h),
                Op::Meta(_, cs) => Op::Meta(h, cs),
                o => o,
            };
        }
    }
    gen_op(rng, u, stored, stored_hashes)
}

/// Operations of the long-chain histories: inserts of several hundred headers in one call
/// (one operation = one atomic unit whatever its size), placed as a new head range, adjacent to or
/// filling the space between stored ranges, sometimes overlapping (rejected); small operations and
/// removals / marks / metadata updates in between.
fn gen_big_op(rng: &mut StdRng, u: &Universe, stored: &[(u64, u64)], stored_hashes: &HashMap<u64, Hash>) -> Op {
    let len = u.len;
    let roll = rng.gen_range(0..100);
    if roll < 60 || stored.is_empty() {
        let n: u64 = if rng.gen_bool(0.7) { *[257u64, 300, 600, 1025].choose(rng).unwrap() } else { rng.gen_range(257..=700) };
        let mut cands: Vec<(u64, u64)> = vec![]; // (start, amount)
        if let (Some(first), Some(last)) = (stored.first(), stored.last()) {
            if last.1 < len {
                cands.push((last.1 + 1, n.min(len - last.1)));
                let gap = rng.gen_range(1..=300);
                if last.1 + gap < len {
                    cands.push((last.1 + 1 + gap, n.min(len - last.1 - gap)));
                }
            }
            if first.0 > 1 {
                let m = n.min(first.0 - 1);
                cands.push((first.0 - m, m));
            }
            for w in stored.windows(2) {
                let (lo, hi) = (w[0].1 + 1, w[1].0 - 1);
                let m = n.min(hi - lo + 1);
                cands.push((lo, hi - lo + 1)); // the whole gap, whatever its size
                cands.push((lo, m));
                cands.push((hi + 1 - m, m));
            }
            if rng.gen_bool(0.1) {
                // overlaps a stored range: must be rejected as a whole
                let r = stored.choose(rng).unwrap();
                let start = rng.gen_range(r.0..=r.1).saturating_sub(rng.gen_range(0..300)).max(1);
                cands = vec![(start, n.min(len + 1 - start))];
            }
        } else {
            let start = *[1, (len / 3).max(1), rng.gen_range(1..=len.saturating_sub(n).max(1))].choose(rng).unwrap();
            cands.push((start, n.min(len + 1 - start)));
        }
        if cands.is_empty() {
            // the whole chain is stored: a big insert can only overlap (and must be rejected as a whole)
            let start = rng.gen_range(1..=len.saturating_sub(n).max(1));
            cands.push((start, n.min(len + 1 - start)));
        }
        // prefer the placements that keep the operation big
        let big: Vec<(u64, u64)> = cands.iter().copied().filter(|c| c.1 > 256).collect();
        let pick = if !big.is_empty() && rng.gen_bool(0.85) { *big.choose(rng).unwrap() } else { *cands.choose(rng).unwrap() };
        return Op::Insert(u.a[(pick.0 - 1) as usize..(pick.0 - 1 + pick.1) as usize].to_vec());
    }
    if roll < 72 {
        return gen_crash_op(rng, u, stored, stored_hashes);
    }
    let r = stored.choose(rng).unwrap();
    let h = match rng.gen_range(0..3) {
        0 => r.0,
        1 => r.1,
        _ => rng.gen_range(r.0..=r.1),
    };
    match rng.gen_range(0..3) {
        0 => Op::Remove(h),
        1 => Op::Mark(h),
        _ => Op::Meta(h, vec![rng.gen_range(1..=6)]),
    }
}

pub struct OpRec {
    pub jb: usize,
    pub je: usize,
    pub st: Value,
}

/// The unsynced tail of the journal at crash point `p`: (index after the last full sync, barriers).
fn last_full_sync(journal: &[JOp], p: usize) -> usize {
    (0..p).rev().find(|i| matches!(journal[*i], JOp::Sync(false))).map(|i| i + 1).unwrap_or(0)
}

/// A random allowed survivor set of journal[s..p]: with eventual syncs (barriers) inside, all
/// segments before a chosen barrier survive fully, a random subset of the next one survives.
fn random_survivors(rng: &mut StdRng, journal: &[JOp], s: usize, p: usize) -> Vec<usize> {
    let mut segs: Vec<Vec<usize>> = vec![vec![]];
    for i in s..p {
        match journal[i] {
            JOp::Sync(true) => segs.push(vec![]),
            JOp::Sync(false) => {}
            _ => segs.last_mut().unwrap().push(i),
        }
    }
    let k = rng.gen_range(0..segs.len());
    let mut keep: Vec<usize> = segs[..k].iter().flatten().copied().collect();
    let prob = [0.2, 0.5, 0.8][rng.gen_range(0..3)];
    keep.extend(segs[k].iter().copied().filter(|_| rng.gen_bool(prob)));
    keep
}

pub fn record(args: &Args) {
    let seed = args.opt_u64("seed", 1);
    let runs = args.opt_u64("runs", 4);
    let first = args.opt_u64("first-run", 0);
    let ops = args.opt_u64("ops", 10);
    let len = args.opt_u64("len", 14);
    let subsets = args.opt_u64("subsets", 2);
    let exhaustive = args.opt_u64("exhaustive", 0);
    // long-chain histories (run ids from 1000): inserts of several hundred headers per call
    let big_runs = args.opt_u64("big-runs", 0);
    let big_first = args.opt_u64("big-first", 0);
    let big_ops = args.opt_u64("big-ops", 6);
    let big_len = args.opt_u64("big-len", 1100);
    let out = args.opt("out").expect("--out").to_string();
    let mut tw = TraceWriter::create(&out);
    let mut sum = Summary::new("storecrash-record");
    let rt = tokio::runtime::Builder::new_current_thread().enable_all().build().unwrap();
    h_common::QUIET_ALL.store(std::env::var("H_REDB_DEBUG").is_err(), std::sync::atomic::Ordering::Relaxed);
    rt.block_on(async {
        let mut ids: Vec<u64> = (first..first + runs).collect();
        ids.extend(1000 + big_first..1000 + big_first + big_runs);
        for run in ids {
            if run >= 1000 {
                one_history(seed, run, big_ops, big_len, 1, exhaustive, &mut tw, &mut sum).await;
            } else {
                one_history(seed, run, ops, len, subsets, exhaustive, &mut tw, &mut sum).await;
            }
        }
    });
    let n = tw.finish();
    sum.set("events", json!(n));
    sum.set("runs", json!(runs));
    sum.write(args.opt("summary").unwrap_or("/dev/stdout"));
}

async fn one_history(seed: u64, run: u64, ops: u64, len: u64, subsets: u64, exhaustive: u64, tw: &mut TraceWriter, sum: &mut Summary) {
    let mut rng = StdRng::seed_from_u64(seed.wrapping_mul(1_000_003).wrapping_add(run));
    let base = (Time::now() - Duration::from_secs(1_000_000)).unwrap();
    let mut it = Intern { base_secs: base.unix_timestamp(), ..Default::default() };
    let big = run >= 1000;
    let u = universe(&mut rng, len, base);

    let be = JournalBackend::default();
    let db = Database::builder().create_with_backend(be.clone()).expect("fresh database");
    let store = RedbStore::new(Arc::new(db)).await.expect("fresh store");
    let ident = store.get_identity().await.unwrap().public().to_peer_id().to_string();
    let p0 = be.pos();

    tw.emit(json!({"name": "reset", "run": run, "p0": p0}));
    let mut hist: Vec<OpRec> = vec![];
    let st0 = project_all(&store, &it, len, &ident, big).await;
    tw.emit(json!({"name": "op", "i": 0, "op": "init", "res": R_OK, "jb": 0, "je": p0, "st": st0}));
    hist.push(OpRec { jb: 0, je: p0, st: st0 });

    let mut committed = 0u64;
    let mut failed: Vec<Op> = vec![];
    for i in 1..=ops {
        let stored: Vec<(u64, u64)> =
            store.get_stored_header_ranges().await.unwrap().as_ref().iter().map(|r| (*r.start(), *r.end())).collect();
        let mut stored_hashes = HashMap::new();
        for (a, b) in &stored {
            for h in *a..=*b {
                if let Ok(x) = store.get_by_height(h).await {
                    stored_hashes.insert(h, x.hash());
                }
            }
        }
        // Operations that failed earlier are tried again once their height is stored (an acknowledged
        // success must survive whatever failed before it on the same store handle).
        let in_store = |h: u64| stored.iter().any(|(a, b)| *a <= h && h <= *b);
        let mut retried: Option<Op> = None;
        let retry = failed.iter().position(|o| matches!(o, Op::Remove(h) | Op::Mark(h) | Op::Meta(h, _) if in_store(*h)));
        // a remembered failure whose height is not stored yet: an insert that brings it into the store
        failed.retain(|o| matches!(o, Op::Remove(h) | Op::Mark(h) | Op::Meta(h, _) if *h >= 1 && *h <= u.len));
        let fill = failed.iter().find_map(|o| match o {
            Op::Remove(h) | Op::Mark(h) | Op::Meta(h, _) if !in_store(*h) => {
                let below = stored.iter().filter(|r| r.1 < *h).map(|r| r.1 + 1).max();
                let above = stored.iter().filter(|r| r.0 > *h).map(|r| r.0 - 1).min();
                let (lo, hi) = match (below, above) {
                    (Some(lo), _) => (lo, *h),          // extend the range below up to h
                    (None, Some(hi)) => (*h, hi),       // extend the range above down to h
                    (None, None) => (*h, (*h + 2).min(u.len)),
                };
                (hi - lo < 40).then(|| Op::Insert(u.a[(lo - 1) as usize..hi as usize].to_vec()))
            }
            _ => None,
        });
        let op = match (retry, fill) {
            (Some(k), _) if rng.gen_bool(0.9) => {
                retried = Some(failed[k].clone());
                failed.remove(k)
            }
            (None, Some(ins)) if rng.gen_bool(0.6) => ins,
            _ if big => gen_big_op(&mut rng, &u, &stored, &stored_hashes),
            _ => gen_crash_op(&mut rng, &u, &stored, &stored_hashes),
        };
        let (name, mut ev) = match &op {
            Op::Insert(b) => {
                let mut ids = vec![];
                for h in b {
                    let (id, d) = it.header(h);
                    if let Some(d) = d {
                        tw.emit(json!({"name": "hdr", "d": d}));
                    }
                    ids.push(id);
                }
                ("insert", json!({"b": ids}))
            }
            Op::Remove(h) => ("remove", json!({"h": h})),
            Op::Mark(h) => ("mark", json!({"h": h})),
            Op::Meta(h, cs) => ("meta", json!({"h": h, "cs": cs})),
        };
        let jb = be.pos();
        let r = match std::panic::AssertUnwindSafe(apply(&store, &op)).catch_unwind().await {
            Ok(r) => r,
            Err(e) => {
                // a panicking operation ends the history; crash points up to here are still examined
                sum.add("panics", 1);
                sum.set("last_panic", json!(panic_text(e)));
                break;
            }
        };
        let je = be.pos();
        if let Some(o) = &retried {
            sum.add("retried_failed_ops", 1);
            if r == R_OK {
                sum.add(match o { Op::Remove(_) => "failed_then_ok_remove", Op::Mark(_) => "failed_then_ok_mark", _ => "failed_then_ok_meta" }, 1);
            }
        }
        if r != R_OK {
            sum.add("failed_ops", 1);
            if !matches!(op, Op::Insert(_)) && failed.len() < 8 {
                failed.push(op.clone());
            }
        }
        let st = project_all(&store, &it, len, &ident, big).await;
        if st != hist.last().unwrap().st {
            committed += 1;
            if let Op::Insert(b) = &op {
                if b.len() > 256 {
                    sum.add("big_inserts_committed", 1);
                    sum.add("journal_entries_in_big_inserts", (je - jb) as u64);
                }
            }
        }
        ev["name"] = json!("op");
        ev["i"] = json!(i);
        ev["op"] = json!(name);
        ev["res"] = json!(r);
        ev["jb"] = json!(jb);
        ev["je"] = json!(je);
        ev["st"] = st.clone();
        tw.emit(ev);
        hist.push(OpRec { jb, je, st });
    }
    sum.add("state_changing_ops", committed);
    sum.add("ops", hist.len() as u64 - 1);

    // ---- crash points ----
    let journal = be.journal();
    sum.add("journal_entries", (journal.len() - p0) as u64);
    sum.add("full_syncs", journal[p0..].iter().filter(|j| matches!(j, JOp::Sync(false))).count() as u64);
    sum.add("eventual_syncs", journal.iter().filter(|j| matches!(j, JOp::Sync(true))).count() as u64);
    let mut synced_img: Vec<u8> = vec![];
    let mut synced_upto = 0usize; // journal[..synced_upto] applied to synced_img
    let mut judged_synced: std::collections::HashSet<(usize, usize, bool)> = Default::default();
    let mut cache: HashMap<(usize, usize), Value> = HashMap::new(); // (s, p) with all of s..p kept -> recovered
    for p in p0..=journal.len() {
        let s = last_full_sync(&journal, p);
        while synced_upto < s {
            apply_jop(&mut synced_img, &journal[synced_upto]);
            synced_upto += 1;
        }
        let acked = (0..hist.len()).rev().find(|i| hist[*i].je <= p).unwrap();
        let infl = acked + 1 < hist.len() && hist[acked + 1].jb < p;
        let unsynced: Vec<usize> = (s..p).filter(|i| !matches!(journal[*i], JOp::Sync(_))).collect();
        let changing = infl && hist[acked].st != hist[acked + 1].st;
        let mut images: Vec<(&str, Vec<usize>)> = vec![("synced", vec![]), ("all", unsynced.clone())];
        let barriers = (s..p).any(|i| matches!(journal[i], JOp::Sync(true)));
        let k = unsynced.len();
        if k >= 2 && !barriers && k as u64 <= exhaustive && unsynced[k - 1] == p - 1 {
            // every survivor set that contains the newest write (the others were images of earlier
            // points), except the full set (= "all")
            for m in 0..(1u64 << (k - 1)) - 1 {
                let mut keep: Vec<usize> = (0..k - 1).filter(|b| m >> b & 1 == 1).map(|b| unsynced[b]).collect();
                keep.push(unsynced[k - 1]);
                images.push(("subset", keep));
            }
            sum.add("points_with_all_subsets", 1);
        } else if k >= 2 && (!big || p % 3 == 0) {
            // (long-chain histories: every boundary gets the `all` image, every third a subset)
            for _ in 0..subsets {
                images.push(("subset", random_survivors(&mut rng, &journal, s, p)));
            }
            sum.add("points_with_sampled_subsets", 1);
        }
        // The property's fault model loses whole WRITES.  A file-size change (set_len) is not a write:
        // in the judged images it survives whenever a later call survives.  The raw subset - the size
        // change lost, a later write kept - is beyond the statement; sampled ones are still reopened
        // and logged in mode "subset-lostlen" (reported as drift by the driver, never a violation).
        let mut extra_images: Vec<(&str, Vec<usize>)> = vec![];
        for (mode, keep) in images.iter_mut() {
            if *mode != "subset" || keep.is_empty() {
                continue;
            }
            let newest = *keep.iter().max().unwrap();
            let lens: Vec<usize> = unsynced.iter().copied().filter(|i| *i < newest && matches!(journal[*i], JOp::SetLen(_)) && !keep.contains(i)).collect();
            if !lens.is_empty() {
                if k as u64 > exhaustive {
                    extra_images.push(("subset-lostlen", keep.clone()));
                }
                keep.extend(lens);
                keep.sort();
            }
        }
        images.extend(extra_images);
        for (mode, keep) in images {
            // the same image under the same expectation (nothing unsynced kept, same acknowledged /
            // in-flight operations) is judged once
            if keep.is_empty() && !judged_synced.insert((s, acked, infl)) {
                continue;
            }
            // identical images (nothing unsynced kept / everything kept) are recovered once
            let key = if keep.is_empty() { Some((s, s)) } else if mode == "all" { Some((s, p)) } else { None };
            let cached = key.and_then(|k| cache.get(&k).cloned());
            let rec = match cached {
                Some(v) => v,
                None => {
                    let mut img = synced_img.clone();
                    for i in &keep {
                        apply_jop(&mut img, &journal[*i]);
                    }
                    let t0 = std::time::Instant::now(); let sz = img.len();
                    let v = recover(img, &it, len, &ident, big).await;
                    if std::env::var("H_REDB_DEBUG").is_ok() { eprintln!("image {} bytes, recover {:?}", sz, t0.elapsed()); }
                    sum.add("images_reopened", 1);
                    if let Some(k) = key {
                        cache.insert(k, v.clone());
                    }
                    v
                }
            };
            // a file-size change that is lost although a later call survives
            let lost_growth = unsynced.iter().any(|i| matches!(journal[*i], JOp::SetLen(_)) && !keep.contains(i) && keep.iter().any(|k| k > i));
            let crash = json!({"name": "crash", "p": p, "mode": mode, "acked": acked, "infl": infl as u64,
                               "unsynced": unsynced.len(), "kept": keep.len(), "lost_growth": lost_growth as u64});
            let nontrivial = changing && !unsynced.is_empty();
            sum.case("C22", nontrivial.then(|| format!("{run}/{p}/{mode}/{keep:?}")), || json!({"crash": crash, "recovered_ok": rec["ok"]}));
            tw.emit(crash);
            tw.emit(rec);
        }
    }
    let _ = store.close().await;
}
