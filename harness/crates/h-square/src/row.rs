//! C05: row cases of spec/SqRow.tla replayed on Row::decode (from_raw) + Row::verify.

use std::collections::BTreeMap;

use celestia_proto::shwap::{row::HalfSide, Row as RawRow, Share as RawShare};
use celestia_types::row::{Row, RowId};
use h_common::{catch, read_cases, tool_error, Args, Summary};
use prost::Message;
use serde_json::{json, Value};

use crate::sq::{flip_last, panic_kind, push_violations, Scale, SqCache};

fn us(v: &Value) -> usize {
    v.as_u64().unwrap() as usize
}

pub fn replay(args: &Args) {
    let cases = read_cases(args.pos(2));
    let seed = args.opt_u64("seed", 1);
    let mut sum = Summary::new("sqrow");
    let mut cache = SqCache::default();
    let mut by_width = BTreeMap::<usize, u64>::new();
    let mut classes = BTreeMap::<String, u64>::new();
    let mut viols: Vec<(String, Value)> = vec![];
    for (ci, c) in cases.iter().enumerate() {
        let wabs = 2 * us(&c["k"]);
        let kabs = wabs / 2;
        let demand0 = c["demand"].as_str().unwrap();
        let predict = c["predict"].as_str().unwrap();
        let cls = c["cls"].as_str().unwrap();
        let mut0 = c["mut"][0].as_str().unwrap();
        let i = us(&c["i"]);
        let side = c["side"].as_str().unwrap();
        let label = c["label"].as_str().unwrap();
        let h = c["h"].as_array().unwrap();
        for w in crate::sample::widths(args, wabs) {
            for sc in Scale::all(w, wabs, seed) {
                let sq = cache.get(w, seed, &[]);
                let k = w / 2;
                let row = sc.rep(i);
                let id = RowId::new(row as u16, sq.header.height()).unwrap();
                if label == "mem" {
                    // an in-memory Row { shares } handed to Row::verify directly: the committed row with the block
                    // representatives replaced by the case's shares, truncated / extended as the case says
                    let wfull = wabs;
                    let b = sc.block;
                    let parse = |r: usize, col: usize, bytes: &[u8]| {
                        if r < k && col < k { celestia_types::Share::from_raw(bytes) } else { celestia_types::Share::parity(bytes) }
                    };
                    let mut shares: Vec<celestia_types::Share> = vec![];
                    let mut okparts = true;
                    let keep = h.len().min(wfull);
                    // positions of the committed row that survive (a too short abstract row drops whole blocks)
                    let dropped_front = mut0 == "short_first";
                    for p in 0..w {
                        let a = sc.block_of(p);
                        let (lo_keep, hi_keep) = if dropped_front { (wfull - keep, wfull) } else { (0, keep) };
                        if a < lo_keep || a >= hi_keep {
                            // short1 / short_first drop exactly one share at scale 1; at larger scales drop one share too
                            if (mut0 == "short1" && p == w - 1) || (mut0 == "short_first" && p == 0) {
                                continue;
                            }
                            if mut0 == "short1" || mut0 == "short_first" {
                                // keep the rest of the block
                            } else {
                                continue;
                            }
                        }
                        let idx = if dropped_front { (a + keep).saturating_sub(wfull) } else { a };
                        let e = if sc.rep(a) == p && a >= lo_keep && a < hi_keep { h.get(idx) } else { None };
                        let (sr, scol, alt) = match e {
                            Some(e) => (sc.rep(us(&e[1])), sc.rep(us(&e[2])), e[0] == "alt"),
                            None => (row, p, false),
                        };
                        let mut bytes = sq.share_bytes(sr, scol);
                        if alt {
                            bytes = flip_last(bytes);
                        }
                        match parse(sr, scol, &bytes) {
                            Ok(sh) => shares.push(sh),
                            Err(_) => okparts = false,
                        }
                    }
                    // surplus shares: a single one for "extra1", whole blocks otherwise
                    for e in h.iter().skip(wfull) {
                        let (ar, ac) = (us(&e[1]), us(&e[2]));
                        let cols: Vec<usize> = if mut0 == "extra1" { vec![sc.rep(ac)] } else { (ac * b..(ac + 1) * b).collect() };
                        for col in cols {
                            let sr = sc.rep(ar);
                            match parse(sr, col, &sq.share_bytes(sr, col)) {
                                Ok(sh) => shares.push(sh),
                                Err(_) => okparts = false,
                            }
                        }
                    }
                    if !okparts {
                        tool_error("could not parse a committed share");
                    }
                    let committed: Vec<Vec<u8>> = (0..w).map(|col| sq.share_bytes(row, col)).collect();
                    let given: Vec<Vec<u8>> = shares.iter().map(|s| s.to_vec()).collect();
                    let nshares = shares.len();
                    let r = Row { shares };
                    let dah = &sq.dah;
                    let got = match catch(|| r.verify(id, dah)) {
                        Ok(Ok(())) => "accept".to_string(),
                        Ok(Err(_)) => "reject".to_string(),
                        Err(p) => format!("panic: {p}"),
                    };
                    let same = got != "accept" || given == committed;
                    // the demand is decided by the model; width 2 holds equal shares, there bytes decide
                    let demand = if demand0 == "reject" && given == committed { "either" } else { demand0 };
                    *by_width.entry(w).or_default() += 1;
                    sum.case("C05", Some(format!("{ci}/{w}/{}/mem", sc.name)), || json!({"case": c, "width": w, "scale": sc.name, "path": "mem", "shares": nshares, "got": got}));
                    if got.starts_with("panic") || !same || (demand != "either" && got != demand) {
                        let gotk = if got.starts_with("panic") { panic_kind(&got) } else if !same { "accept-other-row".to_string() } else { got.clone() };
                        let class = json!({"kind": "row", "path": "mem", "cls": cls, "mut": mut0, "demand": demand, "got": gotk,
                                           "length": if nshares > w { "surplus" } else if nshares < w { "short" } else { "exact" },
                                           "half": if i < kabs { "data" } else { "parity" }});
                        let ck = class.to_string();
                        *classes.entry(ck.clone()).or_default() += 1;
                        viols.push((ck, json!({"why": format!("[mem] width {w} ({}) Row {{ {nshares} shares }}.verify(id of row {row}) {cls}/{}: demanded {demand}, code says {got}", sc.name, c["mut"]),
                                               "class": class, "case": c, "width": w, "scale": sc.name, "got": got})));
                    } else if w == wabs && sq.distinct && got != predict {
                        sum.drift("C05", json!({"case": c, "width": w, "got": got, "predict": predict}));
                    }
                    continue;
                }
                let base = if side == "left" { 0 } else { k };
                let bytes: Vec<u8> = if cls == "honest" && side == "left" {
                    // the public constructor and encoder (which sends the left half)
                    let r = Row::new(row as u16, &sq.eds).unwrap();
                    let mut b = bytes::BytesMut::new();
                    r.encode(&mut b);
                    b.to_vec()
                } else {
                    // honest half of the concrete row, the block representatives replaced by the case's shares
                    let mut half: Vec<Vec<u8>> = (0..k).map(|p| sq.share_bytes(row, base + p)).collect();
                    for (p, e) in h.iter().enumerate().take(kabs) {
                        // abstract position p of the half <-> abstract column
                        let acol = if side == "left" { p } else { kabs + p };
                        let cpos = sc.rep(acol) - base;
                        let mut b = sq.share_bytes(sc.rep(us(&e[1])), sc.rep(us(&e[2])));
                        if e[0] == "alt" {
                            b = flip_last(b);
                        }
                        half[cpos] = b;
                    }
                    if h.len() < kabs {
                        half.truncate(k - (kabs - h.len()));
                    }
                    for e in h.iter().skip(kabs) {
                        half.push(sq.share_bytes(sc.rep(us(&e[1])), sc.rep(us(&e[2]))));
                    }
                    RawRow {
                        shares_half: half.into_iter().map(|data| RawShare { data }).collect(),
                        half_side: if label == "left" { HalfSide::Left } else { HalfSide::Right } as i32,
                    }
                    .encode_to_vec()
                };
                let dah = &sq.dah;
                let committed: Vec<Vec<u8>> = (0..w).map(|col| sq.share_bytes(row, col)).collect();
                let observe = |decode_id: RowId| match catch(|| Row::decode(decode_id, &bytes).and_then(|r| r.verify(id, dah).map(|_| r))) {
                    Ok(Ok(r)) => ("accept".to_string(), r.shares.iter().map(|s| s.to_vec()).collect::<Vec<_>>() == committed),
                    Ok(Err(_)) => ("reject".to_string(), true),
                    Err(p) => (format!("panic: {p}"), true),
                };
                let wire = observe(id);
                // Second observation point: Row::verify(id, dah) on a Row that was not decoded under the target id
                // (decoded under the id of another row of the same half, which parses the shares the same way).
                let other = if row < k { (row + 1) % k } else { k + (row - k + 1) % k };
                let direct = observe(RowId::new(other as u16, sq.header.height()).unwrap());
                for (path, (got, same)) in [("wire", wire), ("direct", direct)] {
                let demand = if demand0 == "reject" && !sq.distinct { "either" } else { demand0 };
                *by_width.entry(w).or_default() += 1;
                let key = if demand != "either" { Some(format!("{ci}/{w}/{}/{path}", sc.name)) } else { None };
                sum.case("C05", key, || json!({"case": c, "width": w, "scale": sc.name, "got": got}));
                let bad = got.starts_with("panic") || !same || (demand != "either" && got != demand);
                if bad {
                    let gotk = if got.starts_with("panic") { panic_kind(&got) } else if !same { "accept-other-row".to_string() } else { got.clone() };
                    let class = json!({"kind": "row", "path": path, "cls": cls, "mut": mut0, "side": side, "demand": demand, "got": gotk,
                                       "half": if i < kabs { "data" } else { "parity" }});
                    let ck = class.to_string();
                    *classes.entry(ck.clone()).or_default() += 1;
                    viols.push((ck, json!({"why": format!("[{path}] width {w} ({}) row {row} {side}/{label} {cls}/{}: demanded {demand}, code says {got}{}", sc.name, c["mut"],
                                                        if same { "" } else { " and the decoded row is not the committed row" }),
                                           "class": class, "case": c, "width": w, "scale": sc.name, "got": got})));
                } else if path == "wire" && w == wabs && sq.distinct && got != predict {
                    sum.drift("C05", json!({"case": c, "width": w, "got": got, "predict": predict}));
                }
                }
                // and the in-memory rows of the square itself: Row::new(j).verify(id of row i) accepts iff j = i
                if cls == "honest" && side == "left" {
                    for j in 0..w {
                        let r = Row::new(j as u16, &sq.eds).unwrap();
                        let got = match catch(|| r.verify(id, dah)) {
                            Ok(Ok(())) => "accept",
                            Ok(Err(_)) => "reject",
                            Err(_) => "panic",
                        };
                        let equal = (0..w).all(|col| sq.share_bytes(j, col) == committed[col]);
                        let want = if j == row { "accept" } else if equal { got } else { "reject" };
                        sum.case("C05", Some(format!("mem/{ci}/{w}/{}/{j}", sc.name)), || json!({"row_new": j, "verify_for": row, "width": w, "got": got}));
                        if got != want {
                            let class = json!({"kind": "row", "path": "Row::new", "demand": want, "got": got, "same_row": j == row});
                            let ck = class.to_string();
                            *classes.entry(ck.clone()).or_default() += 1;
                            viols.push((ck, json!({"why": format!("width {w}: Row::new({j}).verify(id of row {row}): demanded {want}, code says {got}"),
                                                   "class": class, "case": c, "width": w, "scale": sc.name, "got": got})));
                        }
                    }
                }
            }
        }
    }
    push_violations(&mut sum, "C05", viols);
    sum.set("by_width", json!(by_width));
    sum.set("violation_classes", json!(classes));
    sum.write(args.opt("summary").unwrap_or_else(|| tool_error("--summary required")));
}
