//! C06: namespace-data constructions of spec/SqNs.tla replayed on NamespaceData::from_raw + verify,
//! and the square's own get_namespace_data compared with the model's brute-force scan.

use std::collections::{BTreeMap, HashMap};

use celestia_proto::proof::pb::Proof as RawProof;
use celestia_proto::shwap::{RowNamespaceData as RawRowNamespaceData, Share as RawShare};
use celestia_types::namespace_data::{NamespaceData, NamespaceDataId};
use celestia_types::nmt::{Namespace, NamespaceMerkleHasher, NamespaceProof, NamespacedSha2Hasher};
use celestia_types::ExtendedDataSquare;
use h_common::{catch, read_cases, tool_error, Args, Summary};
use prost::Message;
use rand::rngs::StdRng;
use rand::{Rng, SeedableRng};
use serde_json::{json, Value};

use crate::sq::{flip_last, ods_with, panic_kind, push_violations, Sq, APP};

trait Pipe: Sized {
    fn pipe<R>(self, f: impl FnOnce(Self) -> R) -> R {
        f(self)
    }
}
impl<T> Pipe for T {}

fn us(v: &Value) -> usize {
    v.as_u64().unwrap() as usize
}
fn is(v: &Value) -> i64 {
    v.as_i64().unwrap()
}

/// abstract namespace -> concrete (ascending): 0 below everything, 1 and 5 reserved, 6 tail padding, 9 parity
pub fn ns_of(a: usize) -> Namespace {
    match a {
        0 => Namespace::TRANSACTION,
        1 => Namespace::PAY_FOR_BLOB,
        2 => Namespace::new_v0(&[0x11, 0x01]).unwrap(),
        3 => Namespace::new_v0(&[0x11, 0x02]).unwrap(),
        4 => Namespace::new_v0(&[0x40, 0x00, 0x07]).unwrap(),
        5 => Namespace::MIN_SECONDARY_RESERVED,
        6 => Namespace::TAIL_PADDING,
        9 => Namespace::PARITY_SHARE,
        _ => tool_error("abstract namespace out of range"),
    }
}

/// Concrete entry: row, proven range, presence/absence, shares (none / the cells of the range), first altered.
struct CEnt {
    row: usize,
    lo: usize,
    hi: usize,
    absence: bool,
    with_shares: bool,
    alt: bool,
}

/// The same entry as an in-memory RowNamespaceData (shares parsed as what they are where they were committed).
fn to_mem(sq: &Sq, raw: &RawRowNamespaceData, e: &CEnt) -> Option<celestia_types::row_namespace_data::RowNamespaceData> {
    let proof = NamespaceProof::try_from(raw.proof.clone()?).ok()?;
    let mut shares = vec![];
    for (i, sh) in raw.shares.iter().enumerate() {
        let col = e.lo + i;
        let s = if e.row < sq.k && col < sq.k { celestia_types::Share::from_raw(&sh.data) } else { celestia_types::Share::parity(&sh.data) };
        shares.push(s.ok()?);
    }
    Some(celestia_types::row_namespace_data::RowNamespaceData { proof, shares })
}

fn build_raw(sq: &Sq, e: &CEnt) -> Option<RawRowNamespaceData> {
    if e.lo >= e.hi || e.hi > sq.w {
        return None;
    }
    let mut nmt = sq.eds.row_nmt(e.row as u16).unwrap();
    let proof = nmt.build_range_proof(e.lo..e.hi);
    let np: NamespaceProof = if e.absence {
        let share = sq.eds.share(e.row as u16, e.lo as u16).unwrap();
        let leaf = NamespacedSha2Hasher::with_ignore_max_ns(true).hash_leaf_with_namespace(share.as_ref(), *share.namespace());
        nmt_rs::nmt_proof::NamespaceProof::AbsenceProof { proof, ignore_max_ns: true, leaf: Some(leaf) }.into()
    } else {
        nmt_rs::nmt_proof::NamespaceProof::PresenceProof { proof, ignore_max_ns: true }.into()
    };
    let mut shares = vec![];
    if e.with_shares {
        for c in e.lo..e.hi {
            let mut b = sq.share_bytes(e.row, c);
            if e.alt && c == e.lo {
                b = flip_last(b);
            }
            shares.push(RawShare { data: b });
        }
    }
    Some(RawRowNamespaceData { shares, proof: Some(RawProof::from(np)) })
}

pub fn replay(args: &Args) {
    let cases = read_cases(args.pos(2));
    let seed = args.opt_u64("seed", 1);
    let mut sum = Summary::new("sqns");
    let mut squares: HashMap<(usize, Vec<usize>), Sq> = HashMap::new();
    let mut by_width = BTreeMap::<usize, u64>::new();
    let mut classes = BTreeMap::<String, u64>::new();
    let mut viols: Vec<(String, Value)> = vec![];
    let mut scans = 0u64;
    for (ci, c) in cases.iter().enumerate() {
        let k = us(&c["k"]);
        let wabs = 2 * k;
        let demand = c["demand"].as_str().unwrap();
        let predict = c["predict"].as_str().unwrap();
        let cls = c["cls"].as_str().unwrap();
        let mut0 = c["mut"][0].as_str().unwrap();
        let q: Vec<usize> = c["q"].as_array().unwrap().iter().map(us).collect();
        let t = us(&c["t"]);
        let single = cls == "single";
        let empty = vec![];
        let rows: Vec<usize> = if single { vec![] } else { c["rows"].as_array().unwrap().iter().map(us).collect() };
        let es = if single { &empty } else { c["es"].as_array().unwrap() };
        for w in crate::sample::widths(args, wabs) {
            let b = w / wabs;
            let key = (w, q.clone());
            if !squares.contains_key(&key) {
                let kk = w / 2;
                let mut rng = StdRng::seed_from_u64(seed ^ ((w as u64) << 20) ^ q.iter().fold(7u64, |a, x| a * 31 + *x as u64));
                let ods = ods_with(kk, &mut rng, |i| ns_of(q[(i / kk / b) * k + (i % kk) / b]));
                let eds = ExtendedDataSquare::from_ods(ods, APP).unwrap_or_else(|e| tool_error(&format!("from_ods: {e}")));
                squares.insert(key.clone(), Sq::from_eds(eds));
            }
            let sq = &squares[&key];
            if !sq.distinct {
                continue;
            }
            let offs: Vec<usize> = if b == 1 { vec![0] } else { vec![0, b - 1, StdRng::seed_from_u64(seed + ci as u64).gen_range(0..b)] };
            let ns = ns_of(t);
            let height = sq.header.height();
            let id = NamespaceDataId::new(ns, height).unwrap();
            let dah = &sq.dah;

            // the square's own output against the model's scan (once per case class "honest")
            if cls == "honest" {
                scans += 1;
                let got = catch(|| sq.eds.get_namespace_data(ns, dah, height));
                let mut why = None;
                match got {
                    Err(p) => why = Some(format!("get_namespace_data panicked: {p}")),
                    Ok(Err(e)) => why = Some(format!("get_namespace_data failed: {e}")),
                    Ok(Ok(list)) => {
                        let mut exp: Vec<(usize, Vec<Vec<u8>>)> = vec![];
                        for (j, r) in rows.iter().enumerate() {
                            let (lo, hi) = (us(&c["scan"][j][0]) * b, us(&c["scan"][j][1]) * b);
                            for m in 0..b {
                                let row = r * b + m;
                                exp.push((row, (lo..hi).map(|col| sq.share_bytes(row, col)).collect()));
                            }
                        }
                        let have: Vec<(usize, Vec<Vec<u8>>)> = list
                            .iter()
                            .map(|(rid, d)| (rid.row_index() as usize, d.shares.iter().map(|s| s.to_vec()).collect()))
                            .collect();
                        if have != exp {
                            why = Some(format!(
                                "get_namespace_data rows {:?} with {:?} shares, scan expects rows {:?} with {:?} shares",
                                have.iter().map(|x| x.0).collect::<Vec<_>>(),
                                have.iter().map(|x| x.1.len()).collect::<Vec<_>>(),
                                exp.iter().map(|x| x.0).collect::<Vec<_>>(),
                                exp.iter().map(|x| x.1.len()).collect::<Vec<_>>()
                            ));
                        } else {
                            // and it must verify, through the wire encoding
                            let raws: Vec<RawRowNamespaceData> = list
                                .iter()
                                .map(|(_, d)| {
                                    let mut buf = bytes::BytesMut::new();
                                    d.encode(&mut buf);
                                    RawRowNamespaceData::decode(&buf[..]).unwrap()
                                })
                                .collect();
                            match catch(|| NamespaceData::from_raw(id, raws).and_then(|d| d.verify(id, dah))) {
                                Ok(Ok(())) => {}
                                Ok(Err(e)) => why = Some(format!("the square's own namespace data does not verify: {e}")),
                                Err(p) => why = Some(format!("verifying the square's own namespace data panicked: {p}")),
                            }
                        }
                    }
                }
                sum.case("C06", Some(format!("scan/{ci}/{w}")), || json!({"case": c, "width": w, "stage": "get_namespace_data"}));
                if let Some(why) = why {
                    let class = json!({"kind": "nsdata", "stage": "get_namespace_data", "target": t, "covered_rows": rows.len()});
                    let ck = class.to_string();
                    *classes.entry(ck.clone()).or_default() += 1;
                    viols.push((ck, json!({"why": format!("width {w} q {q:?} t {t}: {why}"), "class": class, "case": c, "width": w})));
                }
            }

            if single {
                // RowNamespaceData::verify(id(row, namespace), dah) for one row, whether or not its range covers
                // the namespace; shares and proof come from wherever the case says
                let e = &c["e"];
                for off in offs.clone() {
                    let row = us(&c["row"]) * b + off;
                    let prow = us(&e["prow"]) * b + off;
                    let absence = e["kind"] == "absence";
                    let (lo, hi) = if absence {
                        let p = us(&e["lo"]) * b;
                        (p, p + 1)
                    } else {
                        ((us(&e["lo"]) * b) as i64 + is(&e["dl"]), (us(&e["hi"]) * b) as i64 + is(&e["dh"]))
                            .pipe(|(a, z)| (a as usize, z as usize))
                    };
                    if lo >= hi || hi > sq.w {
                        sum.add("skipped_unbuildable", 1);
                        continue;
                    }
                    let proof_ent = CEnt { row: prow, lo, hi, absence, with_shares: false, alt: false };
                    let mut raw = build_raw(sq, &proof_ent).unwrap();
                    let mut coords = vec![];
                    for sh in e["shares"].as_array().unwrap() {
                        let (r2, c2) = (us(&sh[1]) * b + off, us(&sh[2]));
                        for col in c2 * b..(c2 + 1) * b {
                            let mut bytes = sq.share_bytes(r2, col);
                            if sh[0] == "alt" && col == c2 * b {
                                bytes = flip_last(bytes);
                            }
                            raw.shares.push(RawShare { data: bytes });
                            coords.push((r2, col));
                        }
                    }
                    let rid = celestia_types::row_namespace_data::RowNamespaceDataId::new(ns, row as u16, height).unwrap();
                    let wire = match catch(|| {
                        celestia_types::row_namespace_data::RowNamespaceData::from_raw(rid, raw.clone()).and_then(|d| d.verify(rid, dah))
                    }) {
                        Ok(Ok(())) => "accept".to_string(),
                        Ok(Err(_)) => "reject".to_string(),
                        Err(p) => format!("panic: {p}"),
                    };
                    let mem = (|| {
                        let proof = NamespaceProof::try_from(raw.proof.clone()?).ok()?;
                        let mut shares = vec![];
                        for (sh, (r2, col)) in raw.shares.iter().zip(&coords) {
                            let s = if *r2 < sq.k && *col < sq.k { celestia_types::Share::from_raw(&sh.data) } else { celestia_types::Share::parity(&sh.data) };
                            shares.push(s.ok()?);
                        }
                        Some(celestia_types::row_namespace_data::RowNamespaceData { proof, shares })
                    })();
                    let direct = match mem {
                        Some(d) => match catch(|| d.verify(rid, dah)) {
                            Ok(Ok(())) => "accept".to_string(),
                            Ok(Err(_)) => "reject".to_string(),
                            Err(p) => format!("panic: {p}"),
                        },
                        None => "reject".to_string(),
                    };
                    for (path, got) in [("wire", wire), ("direct", direct)] {
                        *by_width.entry(w).or_default() += 1;
                        let keyn = if demand != "either" { Some(format!("{ci}/{w}/{off}/{path}")) } else { None };
                        sum.case("C06", keyn, || json!({"case": c, "width": w, "off": off, "path": path, "got": got}));
                        let bad = got.starts_with("panic") || (demand != "either" && got != demand);
                        if bad {
                            let gotk = if got.starts_with("panic") { panic_kind(&got) } else { got.clone() };
                            let class = json!({"kind": "nsdata", "stage": "row-verify", "path": path, "mut": mut0, "demand": demand, "got": gotk,
                                               "row_covers_namespace": c["covered"], "proof": e["kind"], "with_shares": !coords.is_empty()});
                            let ck = class.to_string();
                            *classes.entry(ck.clone()).or_default() += 1;
                            viols.push((ck, json!({"why": format!("[{path}] width {w} off {off} q {q:?} t {t} RowNamespaceData::verify(row {row}) single/{}: demanded {demand}, code says {got}", c["mut"]),
                                                   "class": class, "case": c, "width": w, "got": got})));
                        } else if path == "wire" && b == 1 && got != predict {
                            sum.drift("C06", json!({"case": c, "width": w, "got": got, "predict": predict}));
                        }
                    }
                }
                continue;
            }
            for off in offs {
                // expand the abstract list: per abstract entry, b concrete ones; member `off` is the scaled
                // entry, the others are the honest entries of the block it will be checked against
                let mut raws: Vec<RawRowNamespaceData> = vec![];
                let mut mems: Vec<Option<celestia_types::row_namespace_data::RowNamespaceData>> = vec![];
                let mut ok = true;
                for (j, e) in es.iter().enumerate() {
                    let prim = CEnt {
                        row: us(&e["prow"]) * b + off,
                        lo: (us(&e["lo"]) * b) as usize + 0,
                        hi: us(&e["hi"]) * b,
                        absence: e["kind"] == "absence",
                        with_shares: us(&e["n"]) > 0,
                        alt: e["alt"].as_bool().unwrap(),
                    };
                    let (dl, dh) = (is(&e["dl"]), is(&e["dh"]));
                    let mut prim = prim;
                    prim.lo = (prim.lo as i64 + dl) as usize;
                    prim.hi = (prim.hi as i64 + dh) as usize;
                    if prim.absence {
                        // an absence proof is for the single leaf that follows the namespace
                        prim.hi = prim.lo + 1;
                    }
                    for m in 0..b {
                        if m == off {
                            match build_raw(sq, &prim) {
                                Some(r) => {
                                    mems.push(to_mem(sq, &r, &prim));
                                    raws.push(r)
                                }
                                None => ok = false,
                            }
                        } else if j < rows.len() {
                            let row = rows[j] * b + m;
                            let (lo, hi) = (us(&c["scan"][j][0]) * b, us(&c["scan"][j][1]) * b);
                            let filler = if hi > lo {
                                CEnt { row, lo, hi, absence: false, with_shares: true, alt: false }
                            } else {
                                // honest absence: the first leaf with a greater namespace
                                let p = (0..sq.w).find(|&col| sq.eds.share(row as u16, col as u16).unwrap().namespace() > ns).unwrap_or(sq.w - 1);
                                CEnt { row, lo: p, hi: p + 1, absence: true, with_shares: false, alt: false }
                            };
                            let r = build_raw(sq, &filler).unwrap();
                            mems.push(to_mem(sq, &r, &filler));
                            raws.push(r);
                        }
                    }
                }
                if !ok {
                    sum.add("skipped_unbuildable", 1);
                    continue;
                }
                let wire = match catch(|| NamespaceData::from_raw(id, raws).and_then(|d| d.verify(id, dah))) {
                    Ok(Ok(())) => "accept".to_string(),
                    Ok(Err(_)) => "reject".to_string(),
                    Err(p) => format!("panic: {p}"),
                };
                // Second observation point: NamespaceData::verify(id, dah) on in-memory rows that did not pass
                // from_raw(id) (no namespace filtering at decode time).
                let direct = if mems.iter().all(|m| m.is_some()) {
                    let rows: Vec<_> = mems.into_iter().map(|m| m.unwrap()).collect();
                    match catch(|| NamespaceData::new(rows).verify(id, dah)) {
                        Ok(Ok(())) => "accept".to_string(),
                        Ok(Err(_)) => "reject".to_string(),
                        Err(p) => format!("panic: {p}"),
                    }
                } else {
                    "reject".to_string() // parts that do not even form the object
                };
                for (path, got) in [("wire", wire), ("direct", direct)] {
                *by_width.entry(w).or_default() += 1;
                let keyn = if demand != "either" { Some(format!("{ci}/{w}/{off}/{path}")) } else { None };
                sum.case("C06", keyn, || json!({"case": c, "width": w, "off": off, "got": got}));
                let bad = got.starts_with("panic") || (demand != "either" && got != demand);
                if bad {
                    let gotk = if got.starts_with("panic") { panic_kind(&got) } else { got.clone() };
                    let class = json!({"kind": "nsdata", "stage": "verify", "path": path, "cls": cls, "mut": mut0, "demand": demand, "got": gotk,
                                       "target": if t == 9 { "parity" } else if t == 0 || t == 6 { "outside" } else { "palette" }});
                    let ck = class.to_string();
                    *classes.entry(ck.clone()).or_default() += 1;
                    viols.push((ck, json!({"why": format!("[{path}] width {w} off {off} q {q:?} t {t} {cls}/{}: demanded {demand}, code says {got}", c["mut"]),
                                           "class": class, "case": c, "width": w, "got": got})));
                } else if path == "wire" && b == 1 && got != predict {
                    sum.drift("C06", json!({"case": c, "width": w, "got": got, "predict": predict}));
                }
                }
            }
        }
    }
    push_violations(&mut sum, "C06", viols);
    sum.set("by_width", json!(by_width));
    sum.set("violation_classes", json!(classes));
    sum.set("squares_built", json!(squares.len()));
    sum.set("scans_compared", json!(scans));
    sum.write(args.opt("summary").unwrap_or_else(|| tool_error("--summary required")));
}
