//! Concrete squares for the symbolic square of spec/Square.tla: real shares (pairwise distinct),
//! real Reed-Solomon parity, real NMT roots and proofs; scaling of abstract coordinates.

use std::collections::{HashMap, HashSet};

use celestia_proto::proof::pb::Proof as RawProof;
use celestia_types::consts::appconsts::{AppVersion, SHARE_SIZE};
use celestia_types::nmt::{NamespaceProof, Namespace, NS_SIZE};
use celestia_types::test_utils::ExtendedHeaderGenerator;
use celestia_types::{AxisType, DataAvailabilityHeader, ExtendedDataSquare, ExtendedHeader};
use h_common::tool_error;
use rand::rngs::StdRng;
use rand::{Rng, SeedableRng};

pub const APP: AppVersion = AppVersion::V6;

pub fn axis_of(s: &str) -> AxisType {
    match s {
        "row" => AxisType::Row,
        "col" => AxisType::Col,
        _ => tool_error(&format!("bad axis {s}")),
    }
}

/// Namespaces used by the generic squares, ascending.
pub fn palette() -> Vec<Namespace> {
    vec![
        Namespace::PAY_FOR_BLOB,
        Namespace::new_v0(&[0x11, 0x01]).unwrap(),
        Namespace::new_v0(&[0x11, 0x02]).unwrap(),
        Namespace::new_v0(&[0x40, 0x00, 0x07]).unwrap(),
        Namespace::TAIL_PADDING,
    ]
}

/// A data share: namespace, info byte (version 0, sequence start), sequence length, random payload.
pub fn data_share(ns: &Namespace, rng: &mut StdRng) -> Vec<u8> {
    let mut v = Vec::with_capacity(SHARE_SIZE);
    v.extend_from_slice(ns.as_bytes());
    v.push(0x01);
    v.extend_from_slice(&400u32.to_be_bytes());
    while v.len() < SHARE_SIZE {
        v.push(rng.r#gen());
    }
    v
}

/// ODS of width k whose namespaces (row-major) are given by `ns_of(index)`; must be non-decreasing.
pub fn ods_with(k: usize, rng: &mut StdRng, ns_of: impl Fn(usize) -> Namespace) -> Vec<Vec<u8>> {
    (0..k * k).map(|t| data_share(&ns_of(t), rng)).collect()
}

pub struct Sq {
    pub w: usize,
    pub k: usize,
    pub eds: ExtendedDataSquare,
    pub dah: DataAvailabilityHeader,
    pub header: ExtendedHeader,
    /// all shares pairwise distinct (false only for width 2)
    pub distinct: bool,
    proofs: HashMap<(u8, usize), Vec<RawProof>>,
}

impl Sq {
    pub fn from_eds(eds: ExtendedDataSquare) -> Sq {
        Sq::from_eds_opt(eds, true)
    }

    /// `strict = false`: equal shares are recorded (`distinct`), not a tool error (C08 judges the extension itself).
    pub fn from_eds_opt(eds: ExtendedDataSquare, strict: bool) -> Sq {
        let w = eds.square_width() as usize;
        let dah = DataAvailabilityHeader::from_eds(&eds);
        let header = ExtendedHeaderGenerator::new().next_with_dah(dah.clone());
        // (width 2: the parity of a single share is that share; identity is then decided by bytes)
        let mut seen = HashSet::new();
        let mut distinct = true;
        for s in eds.data_square() {
            if !seen.insert(s.to_vec()) {
                distinct = false;
                if w > 2 && strict {
                    tool_error("generated square has two equal shares");
                }
            }
        }
        Sq { w, k: w / 2, eds, dah, header, distinct, proofs: HashMap::new() }
    }

    /// Honest extension of a generic ODS of width w/2, then the `junk` cells overwritten (namespace,
    /// info byte and sequence length of data cells kept) before the roots are computed.
    pub fn generic(w: usize, seed: u64, junk: &[(usize, usize)]) -> Sq {
        Sq::generic_opt(w, seed, junk, true)
    }

    pub fn generic_opt(w: usize, seed: u64, junk: &[(usize, usize)], strict: bool) -> Sq {
        let k = w / 2;
        let mut rng = StdRng::seed_from_u64(seed ^ ((w as u64) << 32));
        let pal = palette();
        let n = k * k;
        // namespaces grow with r + c: sorted along rows and columns, and every line of width >= 2 holds at
        // least two different namespaces
        let _ = n;
        let ods = ods_with(k, &mut rng, |t| pal[((t / k + t % k) * pal.len() / (2 * k)).min(pal.len() - 1)]);
        let eds = ExtendedDataSquare::from_ods(ods, APP).unwrap_or_else(|e| tool_error(&format!("from_ods: {e}")));
        if junk.is_empty() {
            return Sq::from_eds_opt(eds, strict);
        }
        let mut shares: Vec<Vec<u8>> = eds.data_square().iter().map(|s| s.to_vec()).collect();
        for &(r, c) in junk {
            let keep = if r < k && c < k { NS_SIZE + 5 } else { 0 };
            for b in shares[r * w + c][keep..].iter_mut() {
                *b = rng.r#gen();
            }
        }
        let eds = ExtendedDataSquare::new(shares, "Leopard".to_string(), APP)
            .unwrap_or_else(|e| tool_error(&format!("corrupted square rejected by ExtendedDataSquare::new: {e}")));
        Sq::from_eds(eds)
    }

    /// A block whose producer computed the parity half of the first-quadrant line (axis, line) from a
    /// permutation of that line's data shares (first and last exchanged; they have different namespaces):
    /// the committed line is not a codeword, and what is reconstructed from its parity half has valid
    /// namespaces that are out of order.
    pub fn permuted_line(w: usize, seed: u64, axis: AxisType, line: usize) -> Sq {
        let honest = Sq::generic(w, seed, &[]);
        let k = w / 2;
        if line >= k || k < 2 {
            tool_error("permuted_line needs a first-quadrant line of an ODS of width >= 2");
        }
        let mut shares: Vec<Vec<u8>> = honest.eds.data_square().iter().map(|s| s.to_vec()).collect();
        let at = |p: usize| match axis {
            AxisType::Row => line * w + p,
            AxisType::Col => p * w + line,
        };
        let mut enc: Vec<Vec<u8>> = (0..k).map(|p| shares[at(p)].clone()).collect();
        if enc[0][..NS_SIZE] == enc[k - 1][..NS_SIZE] {
            tool_error("permuted_line: the exchanged shares have the same namespace");
        }
        enc.swap(0, k - 1);
        enc.resize(w, vec![0; SHARE_SIZE]);
        leopard_codec::encode(&mut enc, k).unwrap_or_else(|e| tool_error(&format!("leopard: {e}")));
        for p in k..w {
            shares[at(p)] = enc[p].clone();
        }
        let eds = ExtendedDataSquare::new(shares, "Leopard".to_string(), APP)
            .unwrap_or_else(|e| tool_error(&format!("permuted square rejected by ExtendedDataSquare::new: {e}")));
        Sq::from_eds(eds)
    }

    pub fn share_bytes(&self, r: usize, c: usize) -> Vec<u8> {
        self.eds.share(r as u16, c as u16).unwrap().to_vec()
    }

    /// The honest single-leaf proof of position `pos` of line (axis, line), as the wire message.
    pub fn proof(&mut self, axis: AxisType, line: usize, pos: usize) -> RawProof {
        let key = (axis as u8, line);
        if !self.proofs.contains_key(&key) {
            let mut nmt = self.eds.axis_nmt(axis, line as u16).unwrap();
            let v = (0..self.w)
                .map(|p| {
                    let proof = nmt.build_range_proof(p..p + 1);
                    let np: NamespaceProof =
                        nmt_rs::nmt_proof::NamespaceProof::PresenceProof { proof, ignore_max_ns: true }.into();
                    RawProof::from(np)
                })
                .collect();
            self.proofs.insert(key, v);
        }
        self.proofs[&key][pos].clone()
    }

    /// Concrete fact the model treats axiomatically: is line (axis, i) a Reed-Solomon codeword?
    pub fn line_is_codeword(&self, axis: AxisType, i: usize) -> bool {
        line_is_codeword(&self.eds, axis, i)
    }
}

pub fn line_is_codeword(eds: &ExtendedDataSquare, axis: AxisType, i: usize) -> bool {
    let w = eds.square_width() as usize;
    let k = w / 2;
    let line: Vec<Vec<u8>> = eds.axis(axis, i as u16).unwrap().iter().map(|s| s.to_vec()).collect();
    let mut enc: Vec<Vec<u8>> = line[..k].to_vec();
    enc.resize(w, vec![0; SHARE_SIZE]);
    if leopard_codec::encode(&mut enc, k).is_err() {
        return false;
    }
    enc == line
}

/// Scaling of abstract indices 0..wabs to a concrete width: abstract index a stands for the block
/// [a*b, (a+1)*b) with b = w / wabs; `rep(a)` is the member the case speaks about.
#[derive(Clone)]
pub struct Scale {
    pub w: usize,
    pub wabs: usize,
    pub block: usize,
    off: Vec<usize>,
    pub name: &'static str,
}

impl Scale {
    pub fn all(w: usize, wabs: usize, seed: u64) -> Vec<Scale> {
        let block = w / wabs;
        if block == 1 {
            return vec![Scale { w, wabs, block, off: vec![0; wabs], name: "id" }];
        }
        let mut rng = StdRng::seed_from_u64(seed ^ 0x5ca1e ^ (w as u64));
        vec![
            Scale { w, wabs, block, off: vec![0; wabs], name: "lo" },
            Scale { w, wabs, block, off: vec![block - 1; wabs], name: "hi" },
            Scale { w, wabs, block, off: (0..wabs).map(|_| rng.gen_range(0..block)).collect(), name: "rnd" },
        ]
    }
    /// abstract index (or wabs = "one past the end") -> concrete index
    pub fn rep(&self, a: usize) -> usize {
        if a >= self.wabs { self.w + (a - self.wabs) } else { a * self.block + self.off[a] }
    }
    pub fn block_of(&self, concrete: usize) -> usize {
        concrete / self.block
    }
}

/// Squares keyed by (width, concrete junk cells).
#[derive(Default)]
pub struct SqCache {
    map: HashMap<(usize, Vec<(usize, usize)>), Sq>,
    perm: HashMap<(usize, u8, usize), Sq>,
    pub built: u64,
}

impl SqCache {
    pub fn get(&mut self, w: usize, seed: u64, junk: &[(usize, usize)]) -> &mut Sq {
        self.get_opt(w, seed, junk, true)
    }

    pub fn get_perm(&mut self, w: usize, seed: u64, axis: AxisType, line: usize) -> &mut Sq {
        let key = (w, axis as u8, line);
        if !self.perm.contains_key(&key) {
            self.perm.insert(key, Sq::permuted_line(w, seed, axis, line));
            self.built += 1;
        }
        self.perm.get_mut(&key).unwrap()
    }

    pub fn get_opt(&mut self, w: usize, seed: u64, junk: &[(usize, usize)], strict: bool) -> &mut Sq {
        let key = (w, junk.to_vec());
        if !self.map.contains_key(&key) {
            self.map.insert(key.clone(), Sq::generic_opt(w, seed, junk, strict));
            self.built += 1;
        }
        self.map.get_mut(&key).unwrap()
    }
}

pub fn flip_last(mut v: Vec<u8>) -> Vec<u8> {
    let n = v.len();
    v[n - 1] ^= 0x01;
    v
}

/// Coarse kind of a panic message (part of the finding class).
pub fn panic_kind(msg: &str) -> String {
    if msg.contains("left max namespace must be <= right min namespace") {
        "panic:nmt-rs hash_nodes namespace order".to_string()
    } else if msg.contains("unwrap()") {
        "panic:unwrap".to_string()
    } else if msg.contains("overflow") {
        "panic:overflow".to_string()
    } else {
        "panic:other".to_string()
    }
}

/// Hand the violations to the summary so that every class is represented among the stored ones
/// (the summary stores a bounded number but counts all).
pub fn push_violations(sum: &mut h_common::Summary, prop: &str, viols: Vec<(String, serde_json::Value)>) {
    let mut seen: HashMap<String, u32> = HashMap::new();
    let mut rest = vec![];
    for (k, v) in viols {
        let n = seen.entry(k).or_default();
        *n += 1;
        if *n <= 3 { sum.violation(prop, v) } else { rest.push(v) }
    }
    for v in rest {
        sum.violation(prop, v);
    }
}
