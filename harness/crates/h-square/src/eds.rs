//! C08: the shape-validation decision table and the erasure patterns of spec/SqEds.tla replayed on
//! ExtendedDataSquare::new / from_ods and on the real codec (leopard) over real squares.

use std::collections::BTreeMap;

use celestia_types::consts::appconsts::{AppVersion, SHARE_SIZE};
use celestia_types::nmt::Namespace;
use celestia_types::{AxisType, ExtendedDataSquare};
use h_common::{catch, read_cases, tool_error, Args, Summary};
use rand::rngs::StdRng;
use rand::seq::SliceRandom;
use rand::SeedableRng;
use serde_json::{json, Value};

use crate::sq::{palette, panic_kind, push_violations, SqCache};

fn us(v: &Value) -> usize {
    v.as_u64().unwrap() as usize
}

fn isqrt(n: usize) -> usize {
    let mut r = (n as f64).sqrt() as usize;
    while r * r > n {
        r -= 1;
    }
    while (r + 1) * (r + 1) <= n {
        r += 1;
    }
    r
}

/// A cheap valid data share: namespace, info byte, sequence length, a counter.
fn cheap_share(ns: &Namespace, t: usize) -> Vec<u8> {
    let mut v = vec![0u8; SHARE_SIZE];
    v[..29].copy_from_slice(ns.as_bytes());
    v[29] = 0x01;
    v[30..34].copy_from_slice(&400u32.to_be_bytes());
    v[34..42].copy_from_slice(&(t as u64).to_be_bytes());
    v
}

/// App version whose maximum extended square width is `maxw`.
fn app_for(maxw: usize) -> AppVersion {
    for v in [AppVersion::V2, AppVersion::V6] {
        if celestia_types::consts::data_availability_header::max_extended_square_width(v) == maxw {
            return v;
        }
    }
    tool_error(&format!("no app version with maximum extended width {maxw}"))
}

/// The list handed to the constructor: `count` shares laid out as a square of width isqrt(count)
/// (data quadrant with namespaces sorted along rows and columns), with one defect.
fn shape_input(api: &str, count: usize, size: &str, order: &str, oline: usize, opos: usize) -> Vec<Vec<u8>> {
    let w = isqrt(count).max(1);
    let half = if api == "new" { w / 2 } else { w };
    let pal = palette();
    let mut out = Vec::with_capacity(count);
    // dense namespaces for an order defect: along the defective axis the namespace index is
    // line * half + position (so the orthogonal axis stays sorted whatever happens inside a line), and
    // the entries at positions opos and opos + 1 of line `oline` are exchanged: exactly one inversion
    let dense = |r: usize, c: usize| -> Namespace {
        let (line, pos) = if order == "row" { (r, c) } else { (c, r) };
        let mut p = pos;
        if line == oline && pos == opos {
            p = opos + 1;
        } else if line == oline && pos == opos + 1 {
            p = opos;
        }
        let idx = line * half + p + 1;
        Namespace::new_v0(&[0x20, (idx >> 16) as u8, (idx >> 8) as u8, idx as u8]).unwrap()
    };
    for t in 0..count {
        let (r, c) = (t / w, t % w);
        if r < half && c < half {
            let ns = if order == "none" { pal[((r + c) * pal.len() / (2 * half).max(1)).min(pal.len() - 1)] } else { dense(r, c) };
            out.push(cheap_share(&ns, t));
        } else {
            let mut v = vec![0xA5u8; SHARE_SIZE];
            v[..8].copy_from_slice(&(t as u64).to_be_bytes());
            out.push(v);
        }
    }
    if !out.is_empty() {
        let at = out.len() / 2;
        match size {
            "short" => out[at].truncate(SHARE_SIZE - 1),
            "long" => out[at].push(0),
            "empty" => out[at].clear(),
            _ => {}
        }
    }
    out
}

pub fn replay(args: &Args) {
    let cases = read_cases(args.pos(2));
    let seed = args.opt_u64("seed", 1);
    let thorough = args.opt("tier") == Some("thorough");
    let mut sum = Summary::new("sqeds");
    let mut classes = BTreeMap::<String, u64>::new();
    let mut viols: Vec<(String, Value)> = vec![];
    let mut cache = SqCache::default();
    let (mut shapes, mut accepted, mut lines_checked, mut patterns, mut recon) = (0u64, 0u64, 0u64, 0u64, 0u64);
    let mut skipped_big = 0u64;
    // the squares the erasure patterns run on are themselves outputs of from_ods: every row and
    // column must be a codeword (this is where the order of the three encoding passes matters)
    for w in crate::sample::widths(args, 2) {
        let sq = cache.get_opt(w, seed, &[], false);
        for i in 0..w {
            for ax in [AxisType::Row, AxisType::Col] {
                lines_checked += 1;
                sum.case("C08", Some(format!("cw/{w}/{i}/{}", ax as u8)), || json!({"width": w, "line": i, "stage": "extension"}));
                if !sq.line_is_codeword(ax, i) {
                    let class = json!({"kind": "eds-extension", "axis": format!("{ax:?}"), "half": if i < w / 2 { "data" } else { "parity" }});
                    let ck = class.to_string();
                    *classes.entry(ck.clone()).or_default() += 1;
                    viols.push((ck, json!({"why": format!("from_ods square of width {w}: {ax:?} {i} is not a codeword"), "class": class,
                                           "case": {"cls": "extension"}, "width": w})));
                }
            }
        }
    }
    for (ci, c) in cases.iter().enumerate() {
        if c["cls"] == "extension" {
            continue; // replayed by the loop above
        }
        let demand = c["demand"].as_str().unwrap();
        if c["cls"] == "shape" {
            let api = c["api"].as_str().unwrap();
            let count = us(&c["count"]);
            let maxw = us(&c["maxw"]);
            let size = c["size"].as_str().unwrap();
            let order = c["order"].as_str().unwrap();
            // from_ods extends before it validates: squares beyond the maximum only in the thorough tier
            if api == "from_ods" && isqrt(count) > maxw / 2 && !thorough {
                skipped_big += 1;
                continue;
            }
            let app = app_for(maxw);
            let (oline, opos) = (us(&c["oline"]), us(&c["opos"]));
            let input = shape_input(api, count, size, order, oline, opos);
            let ods_copy = if api == "from_ods" && demand == "accept" { Some(input.clone()) } else { None };
            let res = catch(|| {
                if api == "new" {
                    ExtendedDataSquare::new(input, "Leopard".to_string(), app)
                } else {
                    ExtendedDataSquare::from_ods(input, app)
                }
            });
            shapes += 1;
            let mut got = match &res {
                Ok(Ok(_)) => "accept".to_string(),
                Ok(Err(_)) => "reject".to_string(),
                Err(p) => format!("panic: {p}"),
            };
            // an accepted original square: first quadrant kept, every row and column a codeword
            if let (Ok(Ok(eds)), Some(ods)) = (&res, &ods_copy) {
                accepted += 1;
                let w = eds.square_width() as usize;
                let k = w / 2;
                let q1 = (0..k * k).all(|t| eds.share((t / k) as u16, (t % k) as u16).unwrap().to_vec() == ods[t]);
                if !q1 {
                    got = "accept-but-first-quadrant-differs".to_string();
                }
                if w <= 64 || thorough {
                    for i in 0..w {
                        for ax in [AxisType::Row, AxisType::Col] {
                            lines_checked += 1;
                            if !crate::sq::line_is_codeword(eds, ax, i) {
                                got = format!("accept-but-{ax:?}-{i}-not-a-codeword");
                            }
                        }
                    }
                }
            }
            sum.case("C08", Some(format!("shape/{ci}")), || json!({"case": c, "got": got}));
            if got != demand {
                let gotk = if got.starts_with("panic") { panic_kind(&got) } else { got.clone() };
                let class = json!({"kind": "eds-shape", "api": api, "size": size, "order": order, "demand": demand, "got": gotk,
                                   "inversion_at": if order == "none" { "-" } else if opos % 2 == 0 { "even-odd" } else { "odd-even" }});
                let ck = class.to_string();
                *classes.entry(ck.clone()).or_default() += 1;
                viols.push((ck, json!({"why": format!("{api} with {count} shares (size defect {size}, order defect {order} line {oline} pos {opos}), max width {maxw}: demanded {demand}, code says {got}"),
                                       "class": class, "case": c, "got": got})));
            }
        } else {
            // erasure pattern over 2K abstract positions, scaled by blocks and by a seeded permutation
            let kabs = us(&c["k"]);
            let wabs = 2 * kabs;
            let present: Vec<usize> = c["present"].as_array().unwrap().iter().map(us).collect();
            patterns += 1;
            for w in crate::sample::widths(args, wabs) {
                if w < 4 && wabs < w {
                    continue;
                }
                let b = w / wabs;
                let k = w / 2;
                let block: Vec<usize> = present.iter().flat_map(|a| (a * b..(a + 1) * b)).collect();
                let mut perm: Vec<usize> = (0..w).collect();
                perm.shuffle(&mut StdRng::seed_from_u64(seed ^ (ci as u64) << 8 ^ w as u64));
                let permuted: Vec<usize> = block.iter().map(|p| perm[*p]).collect();
                let sq = cache.get_opt(w, seed, &[], false);
                let variants: Vec<(&str, &Vec<usize>)> = if b == 1 { vec![("block", &block)] } else { vec![("block", &block), ("perm", &permuted)] };
                for (name, pres) in variants {
                    // every line of small squares, a sample of lines of large ones
                    let step = if w <= 16 || thorough { 1 } else { w / 8 };
                    for i in (0..w).step_by(step) {
                        for ax in [AxisType::Row, AxisType::Col] {
                            let line: Vec<Vec<u8>> = sq.eds.axis(ax, i as u16).unwrap().iter().map(|s| s.to_vec()).collect();
                            let mut shards: Vec<Vec<u8>> = (0..w).map(|p| if pres.contains(&p) { line[p].clone() } else { vec![] }).collect();
                            let r = catch(|| leopard_codec::reconstruct(&mut shards, k));
                            recon += 1;
                            let got = match r {
                                Ok(Ok(())) if shards == line => "recovers".to_string(),
                                Ok(Ok(())) => "recovers-wrong".to_string(),
                                Ok(Err(_)) => "fails".to_string(),
                                Err(p) => format!("panic: {p}"),
                            };
                            let nontrivial = if demand == "recovers" { Some(format!("er/{ci}/{w}/{name}/{i}/{}", ax as u8)) } else { None };
                            sum.case("C08", nontrivial, || json!({"case": c, "width": w, "line": i, "got": got}));
                            let bad = got.starts_with("panic") || got == "recovers-wrong" || (demand == "recovers" && got != "recovers");
                            if bad {
                                let gotk = if got.starts_with("panic") { panic_kind(&got) } else { got.clone() };
                                let class = json!({"kind": "erasure", "present": pres.len(), "half": k, "demand": demand, "got": gotk});
                                let ck = class.to_string();
                                *classes.entry(ck.clone()).or_default() += 1;
                                viols.push((ck, json!({"why": format!("width {w} {ax:?} {i} present {pres:?} ({name}): demanded {demand}, codec says {got}"),
                                                       "class": class, "case": c, "width": w, "got": got})));
                            } else if demand == "either" && got == "recovers" {
                                sum.drift("C08", json!({"case": c, "width": w, "got": got, "note": "recovered from fewer than half"}));
                            }
                        }
                    }
                }
            }
        }
    }
    push_violations(&mut sum, "C08", viols);
    sum.set("violation_classes", json!(classes));
    sum.set("shape_cases", json!(shapes));
    sum.set("shape_cases_skipped_in_quick", json!(skipped_big));
    sum.set("accepted_original_squares_checked", json!(accepted));
    sum.set("lines_confirmed_codewords", json!(lines_checked));
    sum.set("erasure_patterns", json!(patterns));
    sum.set("reconstructions", json!(recon));
    sum.write(args.opt("summary").unwrap_or_else(|| tool_error("--summary required")));
}
