//! C04: cases of spec/SqSample.tla replayed on Sample::decode + Sample::verify.

use bytes::BytesMut;
use celestia_proto::shwap::{Sample as RawSample, Share as RawShare};
use celestia_types::sample::{Sample, SampleId};
use h_common::{catch, read_cases, Args, Summary};
use prost::Message;
use serde_json::{json, Value};

use crate::sq::{axis_of, flip_last, Scale, SqCache};

fn us(v: &Value) -> usize {
    v.as_u64().unwrap() as usize
}

pub fn widths(args: &Args, wabs: usize) -> Vec<usize> {
    let list = args.opt("widths").unwrap_or("4,8,16");
    let mut v: Vec<usize> = list.split(',').map(|s| s.parse().unwrap()).filter(|w| w % wabs == 0).collect();
    if !v.contains(&wabs) {
        v.insert(0, wabs);
    }
    v
}

pub fn replay(args: &Args) {
    let cases = read_cases(args.pos(2));
    let seed = args.opt_u64("seed", 1);
    let mut sum = Summary::new("sqsample");
    let mut cache = SqCache::default();
    let mut by_width = std::collections::BTreeMap::<usize, u64>::new();
    let mut classes = std::collections::BTreeMap::<String, u64>::new();
    let mut viols: Vec<(String, Value)> = vec![];
    for (ci, c) in cases.iter().enumerate() {
        let wabs = 2 * us(&c["k"]);
        let demand = c["demand"].as_str().unwrap();
        let predict = c["predict"].as_str().unwrap();
        let cls = c["cls"].as_str().unwrap();
        let (ir, ic) = (us(&c["id"][0]), us(&c["id"][1]));
        let skind = c["share"][0].as_str().unwrap();
        let (sr, sc) = (us(&c["share"][1]), us(&c["share"][2]));
        let sax = axis_of(c["sax"].as_str().unwrap());
        let pax = axis_of(c["proof"][0].as_str().unwrap());
        let (pline, ppos) = (us(&c["proof"][1]), us(&c["proof"][2]));
        let (start, len) = (us(&c["start"]), us(&c["len"]));
        let sm = c["sm"].as_str().unwrap();
        for w in widths(args, wabs) {
            for sc_ in Scale::all(w, wabs, seed) {
                let sq = cache.get(w, seed, &[]);
                let (r, col) = (sc_.rep(ir), sc_.rep(ic));
                let id = SampleId::new(r as u16, col as u16, sq.header.height()).unwrap();
                let honest = cls == "honest";
                // degenerate squares (width 2) hold equal shares at different coordinates: "the share at the
                // requested coordinates" is decided by bytes
                let mut demand = demand;
                if demand == "reject" && skind == "cell" && sq.share_bytes(sc_.rep(sr), sc_.rep(sc)) == sq.share_bytes(r, col) {
                    demand = "either";
                }
                let bytes: Vec<u8> = if honest {
                    // the honest sample through the public constructor and encoder
                    let s = Sample::new(r as u16, col as u16, sax, &sq.eds).unwrap();
                    let mut b = BytesMut::new();
                    s.encode(&mut b);
                    b.to_vec()
                } else {
                    let mut share = sq.share_bytes(sc_.rep(sr), sc_.rep(sc));
                    if skind == "alt" {
                        share = flip_last(share);
                    }
                    let mut proof = sq.proof(pax, sc_.rep(pline), sc_.rep(ppos));
                    let st = sc_.rep(start);
                    proof.start = st as i64;
                    proof.end = (st + len) as i64;
                    match sm {
                        "none" => {}
                        "drop_last" => {
                            proof.nodes.pop();
                        }
                        "drop_first" => {
                            if !proof.nodes.is_empty() {
                                proof.nodes.remove(0);
                            }
                        }
                        "swap" => {
                            if proof.nodes.len() >= 2 {
                                proof.nodes.swap(0, 1);
                            }
                        }
                        "dup_first" => {
                            if !proof.nodes.is_empty() {
                                let f = proof.nodes[0].clone();
                                proof.nodes.insert(0, f);
                            }
                        }
                        other => h_common::tool_error(&format!("unknown sibling mutation {other}")),
                    }
                    RawSample { share: Some(RawShare { data: share }), proof: Some(proof), proof_type: sax as i32 }
                        .encode_to_vec()
                };
                let dah = &sq.dah;
                let wire = match catch(|| Sample::decode(id, &bytes).and_then(|s| s.verify(id, dah))) {
                    Ok(Ok(())) => "accept".to_string(),
                    Ok(Err(_)) => "reject".to_string(),
                    Err(p) => format!("panic: {p}"),
                };
                // Second observation point: Sample::verify(id, dah) itself, on a Sample that was NOT decoded under
                // the target id: the object is assembled from its parts (share parsed as what it is where it was
                // committed), as a caller holding an in-memory Sample would have it.
                let direct = {
                    let raw = RawSample::decode(&bytes[..]).unwrap();
                    let (osr, osc) = if honest { (r, col) } else { (sc_.rep(sr), sc_.rep(sc)) };
                    let sbytes = raw.share.as_ref().unwrap().data.clone();
                    let share = if osr < w / 2 && osc < w / 2 { celestia_types::Share::from_raw(&sbytes) } else { celestia_types::Share::parity(&sbytes) };
                    let proof = celestia_types::nmt::NamespaceProof::try_from(raw.proof.clone().unwrap());
                    match (share, proof) {
                        (Ok(share), Ok(proof)) => {
                            let s = Sample { proof_type: sax, share, proof };
                            match catch(|| s.verify(id, dah)) {
                                Ok(Ok(())) => "accept".to_string(),
                                Ok(Err(_)) => "reject".to_string(),
                                Err(p) => format!("panic: {p}"),
                            }
                        }
                        _ => "reject".to_string(), // parts that do not even form a Sample
                    }
                };
                for (path, got) in [("wire", wire), ("direct", direct)] {
                *by_width.entry(w).or_default() += 1;
                let key = if demand != "either" { Some(format!("{ci}/{w}/{}/{path}", sc_.name)) } else { None };
                sum.case("C04", key, || json!({"case": c, "width": w, "scale": sc_.name, "path": path, "got": got}));
                let bad = got.starts_with("panic") || (demand != "either" && got != demand);
                if bad {
                    let same_line = pax == sax && sc_.rep(pline) == if sax as i32 == 0 { r } else { col };
                    let gotk = if got.starts_with("panic") { crate::sq::panic_kind(&got) } else { got.clone() };
                    let class = json!({"kind": "sample", "path": path, "cls": cls, "demand": demand, "got": gotk,
                                      "proof_of_requested_line": same_line, "share_is_requested": skind == "cell" && sr == ir && sc == ic,
                                      "altered": start != ppos || len != 1 || sm != "none",
                                      "quadrant": format!("{}{}", if ir < wabs / 2 {"d"} else {"p"}, if ic < wabs / 2 {"d"} else {"p"})});
                    let ck = class.to_string();
                    *classes.entry(ck.clone()).or_default() += 1;
                    viols.push((
                        ck,
                        json!({
                            "why": format!("[{path}] id ({r},{col}) width {w}: share {skind}({},{}) proof {:?} line {} pos {} start {} len {len} sm {sm} claimed {:?}: demanded {demand}, code says {got}",
                                sc_.rep(sr), sc_.rep(sc), pax, sc_.rep(pline), sc_.rep(ppos), sc_.rep(start), sax),
                            "class": class,
                            "case": c, "width": w, "scale": sc_.name, "got": got,
                        }),
                    ));
                } else if path == "wire" && w == wabs && sq.distinct && got != predict {
                    sum.drift("C04", json!({"case": c, "width": w, "got": got, "predict": predict}));
                }
                }
            }
        }
    }
    crate::sq::push_violations(&mut sum, "C04", viols);
    sum.set("by_width", json!(by_width));
    sum.set("violation_classes", json!(classes));
    sum.set("squares_built", json!(cache.built));
    sum.write(args.opt("summary").unwrap_or_else(|| h_common::tool_error("--summary required")));
}
