//! C07: constructions of spec/SqBefp.tla replayed on BadEncodingFraudProof decode + validate.

use std::collections::BTreeMap;

use celestia_proto::share::eds::byzantine::pb::{BadEncoding as RawBefp, Share as RawShareWithProof};
use celestia_types::fraud_proof::BadEncodingFraudProof;
use celestia_types::fraud_proof::FraudProof;
use celestia_types::nmt::Namespace;
use celestia_types::AxisType;
use h_common::{catch, read_cases, tool_error, Args, Summary};
use prost::Message;
use serde_json::{json, Value};
use tendermint_proto::Protobuf;

use crate::sq::{axis_of, flip_last, panic_kind, push_violations, Scale, Sq, SqCache};

fn us(v: &Value) -> usize {
    v.as_u64().unwrap() as usize
}

fn rc(axis: AxisType, line: usize, pos: usize) -> (usize, usize) {
    match axis {
        AxisType::Row => (line, pos),
        AxisType::Col => (pos, line),
    }
}

/// The honest prover's entry for position `pos` of line (axis, line), proven along `pax`.
fn honest_entry(sq: &mut Sq, axis: AxisType, line: usize, pos: usize, pax: AxisType) -> RawShareWithProof {
    let (r, c) = rc(axis, line, pos);
    let share = sq.share_bytes(r, c);
    let ns: Vec<u8> = if r < sq.k && c < sq.k { share[..29].to_vec() } else { Namespace::PARITY_SHARE.as_bytes().to_vec() };
    let (pl, pp) = match pax {
        AxisType::Row => (r, c),
        AxisType::Col => (c, r),
    };
    let proof = sq.proof(pax, pl, pp);
    RawShareWithProof { data: [ns, share].concat(), proof: Some(proof), proof_axis: pax as i32 }
}

/// Entry described by the case (share, mode, pax, proof source, start), coordinates scaled.
fn case_entry(sq: &mut Sq, sc: &Scale, e: &Value) -> RawShareWithProof {
    let kind = e["share"][0].as_str().unwrap();
    let (r, c) = (sc.rep(us(&e["share"][1])), sc.rep(us(&e["share"][2])));
    let mut share = sq.share_bytes(r, c);
    if kind == "alt" {
        share = flip_last(share);
    }
    let ns: Vec<u8> = match e["mode"].as_str().unwrap() {
        "own" => share[..29].to_vec(),
        _ => Namespace::PARITY_SHARE.as_bytes().to_vec(),
    };
    let pax = axis_of(e["pax"].as_str().unwrap());
    let src_ax = axis_of(e["proof"][0].as_str().unwrap());
    let mut proof = sq.proof(src_ax, sc.rep(us(&e["proof"][1])), sc.rep(us(&e["proof"][2])));
    let st = sc.rep(us(&e["start"]));
    proof.start = st as i64;
    proof.end = st as i64 + 1;
    RawShareWithProof { data: [ns, share].concat(), proof: Some(proof), proof_axis: pax as i32 }
}

pub fn replay(args: &Args) {
    let cases = read_cases(args.pos(2));
    let seed = args.opt_u64("seed", 1);
    let thorough = args.opt("tier") == Some("thorough");
    let mut sum = Summary::new("sqbefp");
    let mut cache = SqCache::default();
    let mut by_width = BTreeMap::<usize, u64>::new();
    let mut classes = BTreeMap::<String, u64>::new();
    let mut viols: Vec<(String, Value)> = vec![];
    let mut accept_demanded = 0u64;
    let mut codeword_checked = 0u64;
    for (ci, c) in cases.iter().enumerate() {
        let wabs = 2 * us(&c["k"]);
        let demand = c["demand"].as_str().unwrap();
        let predict = c["predict"].as_str().unwrap();
        let cls = c["cls"].as_str().unwrap();
        let mut0 = match c["mut"][0].as_str().unwrap() {
            "none" => "plain",
            m => m,
        };
        let axis = axis_of(c["axis"].as_str().unwrap());
        let index = us(&c["index"]);
        let baxis = axis_of(c["baxis"].as_str().unwrap());
        let bindex = us(&c["bindex"]);
        let slots = c["slots"].as_array().unwrap();
        let junk_abs: Vec<(usize, usize)> = c["junk"].as_array().unwrap().iter().map(|j| (us(&j[0]), us(&j[1]))).collect();
        for w in crate::sample::widths(args, wabs) {
            let mut scales = Scale::all(w, wabs, seed);
            if !thorough && w >= 16 {
                scales = scales.into_iter().filter(|s| s.name == "rnd").collect();
            }
            for sc in scales {
                let junk: Vec<(usize, usize)> = junk_abs.iter().map(|&(r, c)| (sc.rep(r), sc.rep(c))).collect();
                let permuted = c["jkind"] == "permuted";
                if permuted && w < 4 {
                    continue; // needs two data shares in the line
                }
                let sq = if permuted {
                    cache.get_perm(w, seed, axis_of(c["jline"][0].as_str().unwrap()), sc.rep(us(&c["jline"][1])))
                } else {
                    cache.get(w, seed, &junk)
                };
                if !sq.distinct {
                    continue; // width 2: the parity of one share is that share, lines coincide; see sample replay
                }
                let cindex = sc.rep(index);
                // the concrete fact the model takes as an axiom
                if index < wabs {
                    let cw = sq.line_is_codeword(axis, cindex);
                    codeword_checked += 1;
                    if cw != c["codeword"].as_bool().unwrap() {
                        tool_error(&format!("model says codeword={} for line {:?} {cindex} of width {w} junk {junk:?}, leopard says {cw}", c["codeword"], axis));
                    }
                }
                // build the concrete slots: the member rep(a) of block a carries the case's slot a, the
                // other members carry the honest prover's entry iff slot a was present in the base
                let mut shares: Vec<RawShareWithProof> = Vec::with_capacity(w + 1);
                for p in 0..w {
                    let a = sc.block_of(p);
                    let e = if sc.rep(a) == p {
                        match slots.get(a).and_then(|s| s.as_array()).and_then(|s| s.first()) {
                            Some(e) => case_entry(sq, &sc, e),
                            None => RawShareWithProof::default(),
                        }
                    } else {
                        match c["bpa"][a].as_str().unwrap() {
                            "-" => RawShareWithProof::default(),
                            pax => honest_entry(sq, baxis, sc.rep(bindex), p, axis_of(pax)),
                        }
                    };
                    shares.push(e);
                }
                if slots.len() < wabs {
                    shares.truncate(w - (wabs - slots.len()));
                }
                for _ in wabs..slots.len() {
                    shares.push(RawShareWithProof::default());
                }
                let raw = RawBefp {
                    header_hash: sq.header.hash().as_bytes().to_vec(),
                    height: sq.header.height(),
                    shares,
                    index: cindex as u32,
                    axis: axis as i32,
                };
                let bytes = raw.encode_to_vec();
                let header = &sq.header;
                let got = match catch(|| {
                    <BadEncodingFraudProof as Protobuf<RawBefp>>::decode_vec(&bytes)
                        .map_err(|e| e.to_string())
                        .and_then(|p| p.validate(header).map_err(|e| e.to_string()))
                }) {
                    Ok(Ok(())) => "accept".to_string(),
                    Ok(Err(_)) => "reject".to_string(),
                    Err(p) => format!("panic: {p}"),
                };
                *by_width.entry(w).or_default() += 1;
                // the other members of a block carry the honest prover's entries for the *base* line: after a
                // relabelling of axis/index the scaled construction is no longer the honest prover's
                let demand = if demand == "accept" && sc.block > 1 && (axis != baxis || index != bindex) { "either" } else { demand };
                if demand == "accept" {
                    accept_demanded += 1;
                }
                let key = if demand != "either" { Some(format!("{ci}/{w}/{}", sc.name)) } else { None };
                sum.case("C07", key, || json!({"case": c, "width": w, "scale": sc.name, "got": got}));
                let bad = got.starts_with("panic") || (demand != "either" && got != demand);
                if bad {
                    let gotk = if got.starts_with("panic") { panic_kind(&got) } else { got.clone() };
                    let class = json!({"kind": "befp", "cls": cls, "mut": mut0, "demand": demand, "got": gotk,
                                       "index_half": if index >= wabs { "out" } else if index < wabs / 2 { "data" } else { "parity" },
                                       "square": if junk.is_empty() { "honest" } else if permuted { "parity-of-permuted-data" } else { "corrupted" }});
                    let ck = class.to_string();
                    *classes.entry(ck.clone()).or_default() += 1;
                    viols.push((
                        ck,
                        json!({
                            "why": format!("width {w} ({}) {:?} {cindex} junk {junk:?} construction {cls}/{}: demanded {demand}, code says {got}", sc.name, axis, c["mut"]),
                            "class": class, "case": c, "width": w, "scale": sc.name, "got": got,
                        }),
                    ));
                } else if w == wabs && got != predict && predict != "either" {
                    sum.drift("C07", json!({"case": c, "width": w, "got": got, "predict": predict}));
                }
            }
        }
    }
    push_violations(&mut sum, "C07", viols);
    sum.set("by_width", json!(by_width));
    sum.set("violation_classes", json!(classes));
    sum.set("squares_built", json!(cache.built));
    sum.set("accept_demanded", json!(accept_demanded));
    sum.set("lines_confirmed_with_leopard", json!(codeword_checked));
    sum.write(args.opt("summary").unwrap_or_else(|| tool_error("--summary required")));
}
