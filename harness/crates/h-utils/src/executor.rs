//! C42: `lumina_utils::executor::{spawn, spawn_cancellable, JoinHandle}` on a multi-thread tokio runtime.
//!
//! record executor --plans <file>: every plan of Gen_Executor (and seeded mixes of them) is run many times
//! with seeded jitter; bodies, cancellers and joiners log what they do with a sequence number drawn from one
//! atomic counter -> Trace_Executor.  The outcome of every task (how it ended, how many steps it logged) must
//! be one of the outcomes TLC derived for its plan.

use std::collections::{BTreeMap, BTreeSet};
use std::sync::atomic::{AtomicU64, AtomicU8, Ordering};
use std::sync::Mutex;
use std::time::Duration;

use h_common::{read_cases, Args, Summary, TraceWriter};
use lumina_utils::executor::{spawn, spawn_cancellable, yield_now, JoinHandle};
use serde_json::{json, Value};
use tokio_util::sync::CancellationToken;

const PROP: &str = "C42";
const LOOP: u64 = 99;

static SEQ: AtomicU64 = AtomicU64::new(0);
static LOG: Mutex<Vec<(u64, Value)>> = Mutex::new(Vec::new());

fn log(ev: Value) {
    let seq = SEQ.fetch_add(1, Ordering::SeqCst);
    LOG.lock().unwrap().push((seq, ev));
}
fn take_log() -> Vec<Value> {
    let mut l = std::mem::take(&mut *LOG.lock().unwrap());
    l.sort_by_key(|(s, _)| *s);
    l.into_iter().map(|(_, v)| v).collect()
}

#[derive(Clone, Debug, PartialEq, Eq, PartialOrd, Ord)]
struct Plan {
    c: bool,
    n: u64,
    fin: String,
    x: bool,
}
impl Plan {
    fn key(&self) -> String {
        format!("c{}n{}{}x{}", self.c as u8, self.n, self.fin, self.x as u8)
    }
    fn json(&self) -> Value {
        json!({"c": self.c as u8, "n": self.n, "fin": self.fin, "x": self.x as u8})
    }
}

#[derive(Clone)]
struct Rng(u64);
impl Rng {
    fn new(s: u64) -> Rng {
        Rng(s.wrapping_mul(0x9E3779B97F4A7C15) | 1)
    }
    fn next(&mut self) -> u64 {
        self.0 ^= self.0 << 13;
        self.0 ^= self.0 >> 7;
        self.0 ^= self.0 << 17;
        self.0
    }
    fn below(&mut self, n: u64) -> u64 {
        self.next() % n
    }
}

fn jitter(r: &mut Rng) {
    match r.below(8) {
        0..=3 => {}
        4 => std::thread::yield_now(),
        5 | 6 => {
            for _ in 0..r.below(3000) {
                std::hint::spin_loop();
            }
        }
        _ => std::thread::sleep(Duration::from_micros(r.below(200))),
    }
}

/// Owned by the task body; its drop is the moment the task's future is gone.
struct Sentinel {
    i: u64,
    kind: AtomicU8, // 0 cancelled (dropped while pending), 1 finish, 2 panic
    slow: u64,      // seeded part of the drop duration
}
impl Drop for Sentinel {
    /// Dropping the state owned by the task takes time (20-50 ms); "ended" is logged when it is over.
    /// A join() that resolves while this is still running (on another thread) is therefore seen
    /// deterministically, not only in a microsecond window.
    fn drop(&mut self) {
        let kind = match self.kind.load(Ordering::SeqCst) {
            1 => "finish",
            2 => "panic",
            _ => "cancelled",
        };
        std::thread::sleep(Duration::from_millis(20 + (self.i * 7 + self.slow) % 31));
        log(json!({"name": "ended", "i": self.i, "kind": kind}));
    }
}

/// The sentinel exists from the moment the future is handed to `spawn*`, also if it is never polled.
fn body(i: u64, plan: Plan, token: CancellationToken, r: Rng) -> impl std::future::Future<Output = ()> + Send + 'static {
    let mut r = r;
    let s = Sentinel { i, kind: AtomicU8::new(0), slow: r.below(31) };
    body_inner(s, plan, token, r)
}

async fn body_inner(s: Sentinel, plan: Plan, token: CancellationToken, mut r: Rng) {
    let i = s.i;
    let mut k = 0;
    while plan.n == LOOP || k < plan.n {
        jitter(&mut r);
        let saw = token.is_cancelled();
        log(json!({"name": "step", "i": i, "saw": saw as u8}));
        k += 1;
        if r.below(5) == 0 {
            tokio::time::sleep(Duration::from_micros(r.below(300))).await;
        } else {
            yield_now().await;
        }
    }
    jitter(&mut r);
    if plan.fin == "panic" {
        s.kind.store(2, Ordering::SeqCst);
        panic!("planned panic of task {i}");
    }
    s.kind.store(1, Ordering::SeqCst);
}

pub fn record(args: &Args) -> Summary {
    let mut s = Summary::new("executor");
    let seed = args.opt_u64("seed", 1);
    let reps = args.opt_u64("reps", 20);
    let mixes = args.opt_u64("mixes", 200);
    let bound = Duration::from_secs(args.opt_u64("hang-bound-s", 30));
    let mut tw = TraceWriter::create(args.opt("out").expect("--out"));
    // the model's verdicts: plan -> allowed (end kind, steps); steps == sat means "sat or more"
    let sat = args.opt_u64("sat", 4);
    let mut allowed: BTreeMap<Plan, BTreeSet<(String, u64)>> = BTreeMap::new();
    for c in read_cases(args.opt("plans").expect("--plans")) {
        let p = Plan { c: c["c"] == 1, n: c["n"].as_u64().unwrap(), fin: c["fin"].as_str().unwrap().into(), x: c["x"] == 1 };
        allowed.entry(p).or_default().insert((c["endk"].as_str().unwrap().into(), c["cnt"].as_u64().unwrap()));
    }
    let plans: Vec<Plan> = allowed.keys().cloned().collect();
    if plans.is_empty() {
        h_common::tool_error("no plans");
    }
    h_common::QUIET_ALL.store(true, Ordering::Relaxed); // planned panics happen on runtime threads
    let rt = tokio::runtime::Builder::new_multi_thread().worker_threads(4).enable_all().build().unwrap();
    let mut rng = Rng::new(seed);
    // schedule of runs: every plan alone `reps` times, then `mixes` runs of 2..=6 random plans
    let mut runs: Vec<Vec<Plan>> = Vec::new();
    for p in &plans {
        for _ in 0..reps {
            runs.push(vec![p.clone()]);
        }
    }
    for _ in 0..mixes {
        let k = 2 + rng.below(5);
        runs.push((0..k).map(|_| plans[rng.below(plans.len() as u64) as usize].clone()).collect());
    }
    let mut hangs = 0;
    for (run, ps) in runs.iter().enumerate() {
        let rseed = seed ^ ((run as u64) << 16);
        let mut r = Rng::new(rseed);
        let ps2 = ps.clone();
        let finished = rt.block_on(async {
            let mut joiners = Vec::new();
            let mut cancellers = Vec::new();
            for (idx, p) in ps2.iter().enumerate() {
                let i = idx as u64 + 1;
                let token = CancellationToken::new();
                let br = Rng::new(rseed ^ (i << 8));
                // when the token gets cancelled: before the spawn, or after a seeded delay
                let early = p.x && r.below(6) == 0;
                if early {
                    log(json!({"name": "cancel_begin", "i": i}));
                    token.cancel();
                    log(json!({"name": "cancel_end", "i": i}));
                }
                let handle: JoinHandle = if p.c {
                    spawn_cancellable(token.clone(), body(i, p.clone(), token.clone(), br))
                } else {
                    spawn(body(i, p.clone(), token.clone(), br))
                };
                if p.x && !early {
                    let mut cr = Rng::new(rseed ^ (i << 12));
                    let t = token.clone();
                    cancellers.push(tokio::spawn(async move {
                        match cr.below(4) {
                            0 => {}
                            1 => {
                                for _ in 0..cr.below(6) {
                                    tokio::task::yield_now().await;
                                }
                            }
                            2 => tokio::time::sleep(Duration::from_micros(cr.below(400))).await,
                            _ => jitter(&mut cr),
                        }
                        log(json!({"name": "cancel_begin", "i": i}));
                        t.cancel();
                        log(json!({"name": "cancel_end", "i": i}));
                    }));
                }
                let mut jr = Rng::new(rseed ^ (i << 20));
                if jr.below(2) == 0 {
                    // joiner on its own OS thread: certainly not the thread that drops the task
                    joiners.push(tokio::task::spawn_blocking(move || {
                        futures::executor::block_on(handle.join());
                        log(json!({"name": "join_ret", "i": i}));
                        futures::executor::block_on(handle.join()); // a second join returns at once (else the run's bound hits)
                        true
                    }));
                } else {
                    joiners.push(tokio::spawn(async move {
                        if jr.below(3) == 0 {
                            tokio::task::yield_now().await;
                        }
                        handle.join().await;
                        log(json!({"name": "join_ret", "i": i}));
                        // "always resolves after that": a second join returns at once
                        tokio::time::timeout(Duration::from_secs(10), handle.join()).await.is_ok()
                    }));
                }
            }
            let all = async {
                let mut again_ok = true;
                for j in joiners {
                    again_ok &= j.await.unwrap_or(false);
                }
                for c in cancellers {
                    let _ = c.await;
                }
                again_ok
            };
            tokio::time::timeout(bound, all).await
        });
        // every task's "ended" belongs to this run's log, also when its join returned too early
        let t0 = std::time::Instant::now();
        while LOG.lock().unwrap().iter().filter(|(_, e)| e["name"] == "ended").count() < ps.len()
            && t0.elapsed() < Duration::from_secs(5)
        {
            std::thread::sleep(Duration::from_millis(2));
        }
        let events = take_log();
        tw.emit(json!({"name": "reset", "run": run, "plans": ps.iter().map(|p| p.json()).collect::<Vec<_>>()}));
        for e in &events {
            tw.emit(e.clone());
        }
        // outcome of every task against the model's allowed outcomes of its plan
        for (idx, p) in ps.iter().enumerate() {
            let i = idx as u64 + 1;
            let steps = events.iter().filter(|e| e["name"] == "step" && e["i"] == i).count() as u64;
            let ended = events.iter().find(|e| e["name"] == "ended" && e["i"] == i).map(|e| e["kind"].as_str().unwrap().to_string());
            let joined = events.iter().any(|e| e["name"] == "join_ret" && e["i"] == i);
            let cancel_after = events.iter().position(|e| e["name"] == "cancel_end" && e["i"] == i);
            let interesting = p.x && steps > 0 || p.fin == "panic";
            let sig: String = events.iter().filter(|e| e["i"] == i).map(|e| match e["name"].as_str().unwrap() {
                "step" => if e["saw"] == 1 { "S" } else { "s" },
                "ended" => "e",
                "cancel_begin" => "c",
                "cancel_end" => "C",
                "join_ret" => "j",
                _ => "?",
            }).collect();
            s.case(PROP, interesting.then(|| format!("{}:{:?}:{sig}", p.key(), ended)),
                   || json!({"run": run, "task": i, "plan": p.json(), "ended": ended, "steps": steps}));
            let pos_end = events.iter().position(|e| e["name"] == "ended" && e["i"] == i);
            let pos_join = events.iter().position(|e| e["name"] == "join_ret" && e["i"] == i);
            if let (Some(pe), Some(pj)) = (pos_end, pos_join) {
                if pj < pe {
                    s.violation(PROP, json!({"kind": "join-before-end", "plan": p.key(), "run": run, "seed": seed,
                        "spawn": if p.c { "spawn_cancellable" } else { "spawn" }, "ended": ended,
                        "why": format!("join() of task {i} returned (log position {pj}) while the task's future and the state it owns were still being dropped (ended '{}' at {pe})", ended.clone().unwrap_or_default()),
                        "events": events}));
                    continue;
                }
            }
            match (&ended, joined) {
                (Some(kind), true) => {
                    let ok = allowed[p].iter().any(|(k, c)| k == kind && (*c == steps || (*c == sat && steps >= sat)));
                    if !ok {
                        s.violation(PROP, json!({"kind": "outcome", "plan": p.key(), "run": run, "seed": seed,
                            "why": format!("task with plan {} ended '{kind}' after {steps} steps; the model allows {:?}", p.key(), allowed[p]),
                            "events": events}));
                    }
                }
                (Some(kind), false) => {
                    s.violation(PROP, json!({"kind": "join-hang", "plan": p.key(), "run": run, "seed": seed,
                        "why": format!("task {i} ended ({kind}) but join() did not return within {bound:?}"), "events": events}));
                }
                (None, true) => {
                    s.violation(PROP, json!({"kind": "join-early", "plan": p.key(), "run": run, "seed": seed,
                        "why": format!("join() of task {i} returned although the task never ended"), "events": events}));
                }
                (None, false) => {
                    let why = if cancel_after.is_some() { "its token was cancelled but the task did not stop" } else { "the task did not end" };
                    s.violation(PROP, json!({"kind": "no-stop", "plan": p.key(), "run": run, "seed": seed,
                        "why": format!("task {i}: {why} within {bound:?}"), "events": events}));
                }
            }
        }
        match finished {
            Ok(true) => {}
            Ok(false) => s.violation(PROP, json!({"kind": "second-join", "run": run, "seed": seed,
                "why": "a second join() on a finished task did not return within 10 s", "events": events})),
            Err(_) => {
                hangs += 1;
                if hangs >= 2 {
                    break;
                }
            }
        }
    }
    tw.finish();
    std::mem::forget(rt);
    s
}
