//! Conformance harness of lumina-utils (see /verif/CONVENTIONS.md).
//!   h-utils record executor --plans <plans.ndjson> --seed S --out <trace.ndjson> --summary <out.json>

use h_common::{tool_error, Args};

mod executor;

fn main() {
    let args = Args::from_env();
    let mode = args.pos(0).to_string();
    let model = args.pos(1).to_string();
    h_common::quiet_panics();
    let s = match (mode.as_str(), model.as_str()) {
        ("record", "executor") => executor::record(&args),
        _ => tool_error(&format!("unknown mode/model {mode}/{model}")),
    };
    s.write(args.opt("summary").unwrap_or_else(|| tool_error("--summary missing")));
}
