//! C45 — verified balances are backed by a proof chain to the header's app hash.
//!
//! For every abstract answer enumerated by TLC (Gen_ProofChain: a recipe per proof op, the returned
//! value, the header's app hash) the harness builds two real worlds — an IAVL-style bank store
//! (account A -> VA | VF, account B -> VB, random other accounts) inside a simple-merkle multistore
//! with random sibling stores — derives real ICS-23 existence proofs (leaf + inner ops in the
//! `iavl_spec` / `tendermint_spec` formats of the `ics23` crate), applies the tampering recipe to the
//! real bytes, serves the answer through the in-process fake node and calls the public
//! `GrpcClient::get_verified_balance` with a header carrying the chosen app hash.
//! The verdict demanded by the specification (0 must not be reported as verified, 1 must, 2 either)
//! is compared with what the client reports.

use std::sync::{Arc, Mutex};

use celestia_grpc::GrpcClient;
use celestia_proto::cosmos::base::tendermint::v1beta1::{AbciQueryRequest, AbciQueryResponse, ProofOp, ProofOps};
use celestia_types::state::{AccAddress, Address, AddressTrait};
use celestia_types::test_utils::ExtendedHeaderGenerator;
use celestia_types::ExtendedHeader;
use futures::FutureExt;
use h_common::{catch, read_cases, tool_error, Args, Summary};
use ics23::{commitment_proof::Proof, CommitmentProof, ExistenceProof, HashOp, InnerOp, LeafOp, LengthOp};
use prost::Message;
use rand::rngs::StdRng;
use rand::{Rng, SeedableRng};
use serde_json::{json, Value};
use sha2::{Digest, Sha256};

use crate::fake::{FakeTransport, Handler, Reply, Request};

const PROP: &str = "C45";

fn sha(b: &[u8]) -> Vec<u8> {
    Sha256::digest(b).to_vec()
}

fn varint(mut x: u64, out: &mut Vec<u8>) {
    while x >= 0x80 {
        out.push((x as u8) | 0x80);
        x >>= 7;
    }
    out.push(x as u8);
}

fn zigzag(x: i64, out: &mut Vec<u8>) {
    varint(((x << 1) ^ (x >> 63)) as u64, out)
}

fn leaf_image(prefix: &[u8], key: &[u8], value: &[u8]) -> Vec<u8> {
    let mut b = prefix.to_vec();
    varint(key.len() as u64, &mut b);
    b.extend_from_slice(key);
    varint(32, &mut b);
    b.extend_from_slice(&sha(value));
    b
}

fn leaf_op(prefix: Vec<u8>) -> LeafOp {
    LeafOp {
        hash: HashOp::Sha256.into(),
        prehash_key: HashOp::NoHash.into(),
        prehash_value: HashOp::Sha256.into(),
        length: LengthOp::VarProto.into(),
        prefix,
    }
}

/// A binary merkle tree over sorted (key, value) leaves with per-format node encodings; produces the
/// root and an existence proof per leaf.
struct Tree {
    root: Vec<u8>,
    proofs: Vec<ExistenceProof>, // same order as the leaves
}

#[derive(Clone, Copy, PartialEq)]
enum Fmt {
    Iavl,
    Simple,
}

struct Built {
    hash: Vec<u8>,
    height: i64,
    size: i64,
    /// (leaf index, path so far bottom-up)
    members: Vec<(usize, Vec<InnerOp>)>,
}

fn build(fmt: Fmt, leaves: &[(Vec<u8>, Vec<u8>)], lo: usize, hi: usize, rng: &mut StdRng, leaf_ops: &mut Vec<LeafOp>) -> Built {
    if hi - lo == 1 {
        let prefix = match fmt {
            Fmt::Iavl => {
                let mut p = vec![];
                zigzag(0, &mut p);
                zigzag(1, &mut p);
                zigzag(rng.gen_range(1..2000), &mut p);
                p
            }
            Fmt::Simple => vec![0u8],
        };
        let hash = sha(&leaf_image(&prefix, &leaves[lo].0, &leaves[lo].1));
        leaf_ops[lo] = leaf_op(prefix);
        return Built { hash, height: 0, size: 1, members: vec![(lo, vec![])] };
    }
    // split: balanced for IAVL, largest power of two for the simple tree (as tendermint does)
    let n = hi - lo;
    let mid = match fmt {
        Fmt::Iavl => lo + n.div_ceil(2),
        Fmt::Simple => lo + (n.next_power_of_two() / 2).max(1).min(n - 1),
    };
    let l = build(fmt, leaves, lo, mid, rng, leaf_ops);
    let r = build(fmt, leaves, mid, hi, rng, leaf_ops);
    let height = l.height.max(r.height) + 1;
    let size = l.size + r.size;
    let head = match fmt {
        Fmt::Iavl => {
            let mut p = vec![];
            zigzag(height, &mut p);
            zigzag(size, &mut p);
            zigzag(rng.gen_range(1..2000), &mut p);
            p
        }
        Fmt::Simple => vec![1u8],
    };
    let (mut image, lp, ls, rp, rs);
    match fmt {
        Fmt::Iavl => {
            image = head.clone();
            image.push(0x20);
            image.extend_from_slice(&l.hash);
            image.push(0x20);
            image.extend_from_slice(&r.hash);
            // child = left: prefix = head|0x20, suffix = 0x20|right ; child = right: prefix = head|0x20|left|0x20
            lp = [head.clone(), vec![0x20]].concat();
            ls = [vec![0x20], r.hash.clone()].concat();
            rp = [head.clone(), vec![0x20], l.hash.clone(), vec![0x20]].concat();
            rs = vec![];
        }
        Fmt::Simple => {
            image = head.clone();
            image.extend_from_slice(&l.hash);
            image.extend_from_slice(&r.hash);
            lp = head.clone();
            ls = r.hash.clone();
            rp = [head.clone(), l.hash.clone()].concat();
            rs = vec![];
        }
    }
    let hash = sha(&image);
    let mut members = vec![];
    for (i, mut path) in l.members {
        path.push(InnerOp { hash: HashOp::Sha256.into(), prefix: lp.clone(), suffix: ls.clone() });
        members.push((i, path));
    }
    for (i, mut path) in r.members {
        path.push(InnerOp { hash: HashOp::Sha256.into(), prefix: rp.clone(), suffix: rs.clone() });
        members.push((i, path));
    }
    Built { hash, height, size, members }
}

fn tree(fmt: Fmt, leaves: &[(Vec<u8>, Vec<u8>)], rng: &mut StdRng) -> Tree {
    let mut leaf_ops = vec![LeafOp::default(); leaves.len()];
    let b = build(fmt, leaves, 0, leaves.len(), rng, &mut leaf_ops);
    let mut proofs = vec![ExistenceProof::default(); leaves.len()];
    for (i, path) in b.members {
        proofs[i] = ExistenceProof { key: leaves[i].0.clone(), value: leaves[i].1.clone(), leaf: Some(leaf_ops[i].clone()), path };
    }
    Tree { root: b.hash, proofs }
}

fn bank_key(addr: &AccAddress) -> Vec<u8> {
    let a = addr.as_bytes();
    let mut k = vec![0x02, a.len() as u8];
    k.extend_from_slice(a);
    k.extend_from_slice(b"utia");
    k
}

/// Everything concrete that the symbolic names of the specification stand for.
struct Worlds {
    addr_a: AccAddress,
    key_a: Vec<u8>,
    key_b: Vec<u8>,
    va: Vec<u8>,
    vb: Vec<u8>,
    vf: Vec<u8>,
    pa: ExistenceProof,
    pb: ExistenceProof,
    pa2: ExistenceProof,
    pm: ExistenceProof,
    pm2: ExistenceProof,
    px: ExistenceProof,
    bank: Vec<u8>,
    bank2: Vec<u8>,
    app_hash: Vec<u8>,
    app_hash2: Vec<u8>,
    leaves: usize,
    stores: usize,
}

fn rand_addr(rng: &mut StdRng) -> AccAddress {
    let b: [u8; 20] = rng.r#gen();
    AccAddress::try_from(&b[..]).unwrap_or_else(|_| tool_error("address"))
}

fn worlds(rng: &mut StdRng) -> Worlds {
    let addr_a = rand_addr(rng);
    let addr_b = rand_addr(rng);
    let key_a = bank_key(&addr_a);
    let key_b = bank_key(&addr_b);
    let va = rng.gen_range(1..1_000_000u64);
    let vb = loop {
        let x = rng.gen_range(1..1_000_000u64);
        if x != va {
            break x;
        }
    };
    let vf = loop {
        let x = rng.gen_range(1..u64::MAX / 2);
        if x != va && x != vb {
            break x;
        }
    };
    let (va, vb, vf) = (va.to_string().into_bytes(), vb.to_string().into_bytes(), vf.to_string().into_bytes());
    let mut others: Vec<(Vec<u8>, Vec<u8>)> = (0..rng.gen_range(0..8usize))
        .map(|_| (bank_key(&rand_addr(rng)), rng.gen_range(1..u64::MAX).to_string().into_bytes()))
        .collect();
    // other kinds of bank records (supply, denom metadata) sharing the tree
    if rng.gen_bool(0.5) {
        others.push((b"\x00utia".to_vec(), b"123456789".to_vec()));
    }
    let mk_bank = |a: &Vec<u8>| {
        let mut l = others.clone();
        l.push((key_a.clone(), a.clone()));
        l.push((key_b.clone(), vb.clone()));
        l.sort();
        l
    };
    let l1 = mk_bank(&va);
    let l2 = mk_bank(&vf);
    // same tree shape and node versions in both worlds: only A's value differs
    let seed: u64 = rng.r#gen();
    let t1 = tree(Fmt::Iavl, &l1, &mut StdRng::seed_from_u64(seed));
    let t2 = tree(Fmt::Iavl, &l2, &mut StdRng::seed_from_u64(seed));
    let ia = l1.iter().position(|x| x.0 == key_a).unwrap();
    let ib = l1.iter().position(|x| x.0 == key_b).unwrap();
    let names = ["acc", "authz", "blob", "distribution", "evidence", "feegrant", "gov", "ibc", "mint", "params", "signal", "slashing", "staking", "transfer", "upgrade"];
    let mut stores: Vec<(Vec<u8>, Vec<u8>)> = vec![];
    for n in names.iter() {
        if rng.gen_bool(0.6) {
            stores.push((n.as_bytes().to_vec(), rng.r#gen::<[u8; 32]>().to_vec()));
        }
    }
    if stores.is_empty() {
        stores.push((b"acc".to_vec(), rng.r#gen::<[u8; 32]>().to_vec()));
    }
    let mk_multi = |bank_root: &Vec<u8>| {
        let mut s = stores.clone();
        s.push((b"bank".to_vec(), bank_root.clone()));
        s.sort();
        s
    };
    let m1 = mk_multi(&t1.root);
    let m2 = mk_multi(&t2.root);
    let mt1 = tree(Fmt::Simple, &m1, rng);
    let mt2 = tree(Fmt::Simple, &m2, rng);
    let im = m1.iter().position(|x| x.0 == b"bank").unwrap();
    // a tree of the node's own making holding ("bank" -> forged app root) among random leaves
    let mut xl: Vec<(Vec<u8>, Vec<u8>)> = vec![(b"bank".to_vec(), mt2.root.clone())];
    for n in ["acc", "gov", "staking"] {
        if rng.gen_bool(0.6) {
            xl.push((n.as_bytes().to_vec(), rng.r#gen::<[u8; 32]>().to_vec()));
        }
    }
    xl.sort();
    let xt = tree(Fmt::Simple, &xl, rng);
    let ix = xl.iter().position(|x| x.0 == b"bank").unwrap();
    Worlds {
        addr_a,
        key_a,
        key_b,
        va,
        vb,
        vf,
        pa: t1.proofs[ia].clone(),
        pb: t1.proofs[ib].clone(),
        pa2: t2.proofs[ia].clone(),
        pm: mt1.proofs[im].clone(),
        pm2: mt2.proofs[im].clone(),
        px: xt.proofs[ix].clone(),
        bank: t1.root,
        bank2: t2.root,
        app_hash: mt1.root,
        app_hash2: mt2.root,
        leaves: l1.len(),
        stores: m1.len(),
    }
}

fn flip_node(p: &mut ExistenceProof, rng: &mut StdRng) {
    // flip one bit of a sibling hash / node header somewhere on the path (or of the leaf header)
    if p.path.is_empty() {
        if let Some(l) = p.leaf.as_mut() {
            let n = l.prefix.len();
            l.prefix[n - 1] ^= 0x02;
        }
        return;
    }
    let i = rng.gen_range(0..p.path.len());
    let op = &mut p.path[i];
    let in_suffix = !op.suffix.is_empty() && (op.prefix.len() < 8 || rng.gen_bool(0.5));
    let target = if in_suffix { &mut op.suffix } else { &mut op.prefix };
    // keep the length bytes / node type byte intact so that the proof still has a well-formed shape
    let k = target.len() - 1 - rng.gen_range(0..target.len().min(20));
    target[k] ^= 1 << rng.gen_range(0..8);
}

/// Operations off the ProofSpec that cut the committed leaf bytes `prefix | len(key) | key | 0x20 | sha256(value)`
/// differently: same root, same key, a value that was never stored.
fn reslice(p: &mut ExistenceProof, variant: &str) {
    let old = p.leaf.clone().unwrap_or_default();
    let mut prefix = old.prefix.clone();
    varint(p.key.len() as u64, &mut prefix);
    let vh = sha(&p.value);
    match variant {
        // leaf without value pre-hash and without length prefixes
        "VS1" => {
            p.leaf = Some(LeafOp {
                hash: HashOp::Sha256.into(),
                prehash_key: HashOp::NoHash.into(),
                prehash_value: HashOp::NoHash.into(),
                length: LengthOp::NoPrefix.into(),
                prefix,
            });
            p.value = [vec![0x20], vh].concat();
        }
        // leaf that does not hash at all, the rest of the committed bytes spliced in by an extra inner operation
        _ => {
            p.leaf = Some(LeafOp {
                hash: HashOp::NoHash.into(),
                prehash_key: HashOp::NoHash.into(),
                prehash_value: HashOp::NoHash.into(),
                length: LengthOp::NoPrefix.into(),
                prefix,
            });
            p.value = vec![0x20];
            p.path.insert(0, InnerOp { hash: HashOp::Sha256.into(), prefix: vec![], suffix: vh });
        }
    }
}

fn resliced_value(w: &Worlds, variant: &str) -> Vec<u8> {
    let mut p = w.pa.clone();
    reslice(&mut p, variant);
    p.value
}

fn concrete_op(w: &Worlds, rc: &Value, rng: &mut StdRng) -> ProofOp {
    let mut p = match rc["base"].as_str().unwrap() {
        "PA" => w.pa.clone(),
        "PB" => w.pb.clone(),
        "PA2" => w.pa2.clone(),
        "PM" => w.pm.clone(),
        "PM2" => w.pm2.clone(),
        "PX" => w.px.clone(),
        b => tool_error(&format!("base {b}")),
    };
    let sym_val = |x: &str| match x {
        "VA" => w.va.clone(),
        "VB" => w.vb.clone(),
        "VF" => w.vf.clone(),
        "Bank" => w.bank.clone(),
        "Bank2" => w.bank2.clone(),
        "AppHash2" => w.app_hash2.clone(),
        x => tool_error(&format!("value {x}")),
    };
    let sym_key = |x: &str| match x {
        "KA" => w.key_a.clone(),
        "KB" => w.key_b.clone(),
        "KBank" => b"bank".to_vec(),
        x => tool_error(&format!("key {x}")),
    };
    match rc["tamper"].as_str().unwrap() {
        "none" => {}
        "flip" => flip_node(&mut p, rng),
        "setvalue" => p.value = sym_val(rc["arg"].as_str().unwrap()),
        "setkey" => p.key = sym_key(rc["arg"].as_str().unwrap()),
        "reslice" => reslice(&mut p, rc["arg"].as_str().unwrap()),
        t => tool_error(&format!("tamper {t}")),
    }
    ProofOp {
        r#type: rc["ty"].as_str().unwrap().to_string(),
        key: sym_key(rc["key"].as_str().unwrap()),
        data: CommitmentProof { proof: Some(Proof::Exist(p)) }.encode_to_vec(),
    }
}

fn header_with(app_hash: &[u8], height: u64) -> ExtendedHeader {
    let mut eh = ExtendedHeaderGenerator::new_from_height(height).next();
    eh.header.app_hash = app_hash.to_vec().try_into().unwrap_or_else(|_| tool_error("app hash"));
    eh
}

struct Served {
    resp: Mutex<AbciQueryResponse>,
    seen: Mutex<Vec<Value>>,
}

fn node(s: Arc<Served>) -> Handler {
    Arc::new(move |_ep, req: Request| {
        let s = s.clone();
        async move {
            match req.path.as_str() {
                "/cosmos.base.tendermint.v1beta1.Service/ABCIQuery" => {
                    let q = AbciQueryRequest::decode(req.msg.as_slice()).unwrap_or_default();
                    s.seen.lock().unwrap().push(json!({"path": q.path, "height": q.height, "prove": q.prove, "data": hex::encode(&q.data)}));
                    Reply::ok(&*s.resp.lock().unwrap())
                }
                p => Reply::Status(12, format!("fake node: unimplemented {p}")),
            }
        }
        .boxed()
    })
}

pub fn replay(args: &Args) {
    let cases = read_cases(args.pos(2));
    let seed = args.opt_u64("seed", 1);
    let reps = args.opt_u64("worlds", 1);
    let mut sum = Summary::new("proofchain");
    let rt = tokio::runtime::Builder::new_current_thread().enable_time().build().unwrap();
    let served = Arc::new(Served { resp: Mutex::new(AbciQueryResponse::default()), seen: Mutex::new(vec![]) });
    let client = GrpcClient::builder()
        .transport(FakeTransport { id: 1, handler: node(served.clone()) })
        .build()
        .unwrap_or_else(|e| tool_error(&format!("client: {e}")));
    let mut honest_accepted = 0u64;
    let mut query_ok = 0u64;
    let mut mech_honest = 0u64;
    // h_common::Summary keeps a bounded list of violations: report at most 8 per class in detail so that a
    // frequent class (the recorded empty-value finding) cannot crowd out another one; all are counted
    let mut by_class: std::collections::BTreeMap<String, u64> = std::collections::BTreeMap::new();
    for (i, case) in cases.iter().enumerate() {
        for rep in 0..reps {
            let mut rng = StdRng::seed_from_u64(seed.wrapping_mul(0x9e37_79b9).wrapping_add((i as u64) * 131 + rep));
            let w = worlds(&mut rng);
            let ops: Vec<ProofOp> = case["ops"].as_array().unwrap().iter().map(|rc| concrete_op(&w, rc, &mut rng)).collect();
            let value = match case["value"].as_str().unwrap() {
                "VA" => w.va.clone(),
                "VB" => w.vb.clone(),
                "VF" => w.vf.clone(),
                v @ ("VS1" | "VS2") => resliced_value(&w, v),
                _ => vec![],
            };
            let root = if case["root"] == "AppHash" { &w.app_hash } else { &w.app_hash2 };
            let height = rng.gen_range(2..1000u64);
            let header = header_with(root, height);
            // the anchored mechanism itself (hook `celestia_grpc::verif`, cfg(eigerco_lumina_verif))
            let mech = catch(|| {
                celestia_grpc::verif::verif_verify_membership(
                    ProofOps { ops: ops.clone() },
                    root,
                    &[w.key_a.as_slice(), b"bank"],
                    &value,
                )
            });
            *served.resp.lock().unwrap() = AbciQueryResponse {
                code: 0,
                key: if case["rkey"] == "KB" { w.key_b.clone() } else { w.key_a.clone() },
                value: value.clone(),
                proof_ops: if ops.is_empty() && rng.gen_bool(0.5) { None } else { Some(ProofOps { ops }) },
                height: height as i64 - 1,
                ..Default::default()
            };
            served.seen.lock().unwrap().clear();
            let address = Address::from(w.addr_a);
            let res = catch(|| rt.block_on(async { client.get_verified_balance(&address, &header).await }));
            // the query the client sent must be for A's bank key with a proof requested
            if let Some(q) = served.seen.lock().unwrap().first() {
                if q["data"] == hex::encode(&w.key_a) && q["prove"] == true && q["path"] == "store/bank/key" {
                    query_ok += 1;
                }
            }
            let (reported, detail) = match &res {
                Ok(Ok(c)) => (true, format!("ok {}", c.amount())),
                Ok(Err(e)) => (false, format!("err {e}")),
                Err(p) => (false, format!("panic {p}")),
            };
            let demand = case["demand"].as_u64().unwrap();
            let verdict = case["verdict"].as_str().unwrap();
            let tampers: Vec<String> = case["ops"].as_array().unwrap().iter()
                .map(|rc| format!("{}:{}:{}:{}", rc["ty"].as_str().unwrap(), rc["key"].as_str().unwrap(), rc["base"].as_str().unwrap(), rc["tamper"].as_str().unwrap()))
                .collect();
            let shape = json!({"ops": tampers, "value": case["value"], "root": case["root"], "echoed_key": case["rkey"]});
            let nontrivial = demand == 0 && !case["ops"].as_array().unwrap().is_empty();
            sum.case(PROP, nontrivial.then(|| shape.to_string()), || {
                json!({"case": shape, "demand": demand, "model_verdict": verdict, "observed": detail, "leaves": w.leaves, "stores": w.stores})
            });
            let class = json!({
                "value": case["value"],
                "ops": case["ops"].as_array().unwrap().len(),
                "kind": if case["value"] == "zero" { "empty-value-without-proof" } else { "forged-answer-accepted" },
            });
            if matches!(res, Err(_)) {
                sum.violation(PROP, json!({"class": {"kind": "panic"}, "why": format!("get_verified_balance panicked: {detail}"), "case": case, "seed": seed, "index": i}));
            } else if demand == 0 && reported && {
                let n = by_class.entry(class.to_string()).or_insert(0);
                *n += 1;
                *n > 8
            } {
                // counted in `violations_by_class`
            } else if demand == 0 && reported {
                sum.violation(PROP, json!({
                    "class": class,
                    "why": format!("reported as verified ({detail}) although the answer is not backed by the header's app hash: {shape}"),
                    "case": case, "seed": seed, "index": i, "rep": rep,
                }));
            } else if demand == 1 && !reported {
                sum.drift(PROP, json!({"why": format!("honest answer rejected: {detail}"), "case": case}));
            } else if (verdict.starts_with("ok")) != reported {
                sum.drift(PROP, json!({"why": format!("model verdict {verdict}, observed {detail}"), "case": shape}));
            }
            // ProofChain::verify_membership: Ok only for a chain that links key and value to the app hash
            let mech_ok = matches!(mech, Ok(Ok(())));
            let mverdict = case["mverdict"].as_str().unwrap_or("");
            if matches!(mech, Err(_)) {
                sum.violation(PROP, json!({"class": {"kind": "panic", "level": "verify_membership"}, "why": format!("verify_membership panicked: {mech:?}"), "case": case, "seed": seed, "index": i}));
            } else if demand == 0 && mech_ok {
                let mclass = json!({"kind": "forged-chain-verified", "level": "verify_membership", "value": case["value"], "ops": case["ops"].as_array().unwrap().len()});
                let n = by_class.entry(mclass.to_string()).or_insert(0);
                *n += 1;
                if *n <= 8 {
                    sum.violation(PROP, json!({
                        "class": mclass,
                        "why": format!("ProofChain::verify_membership returned Ok although the chain does not link the key and value to the app hash: {shape}"),
                        "case": case, "seed": seed, "index": i, "rep": rep,
                    }));
                }
            } else if demand == 1 && !mech_ok {
                sum.drift(PROP, json!({"why": format!("honest chain rejected by verify_membership: {mech:?}"), "case": case}));
            } else if !mverdict.is_empty() && (mverdict == "ok") != mech_ok {
                sum.drift(PROP, json!({"why": format!("model verdict {mverdict} for verify_membership, observed {mech:?}"), "case": shape}));
            }
            if demand == 1 && mech_ok {
                mech_honest += 1;
            }
            if demand == 1 && reported {
                honest_accepted += 1;
                // the reported amount is the returned value
                if let Ok(Ok(c)) = &res {
                    if c.amount().to_string().as_bytes() != value.as_slice() {
                        sum.violation(PROP, json!({"class": {"kind": "amount"}, "why": format!("reported {} for value {:?}", c.amount(), String::from_utf8_lossy(&value)), "case": case}));
                    }
                }
            }
        }
    }
    sum.set("violations_by_class", json!(by_class));
    sum.set("honest_accepted", json!(honest_accepted));
    sum.set("honest_accepted_by_verify_membership", json!(mech_honest));
    sum.set("queries_for_the_right_key", json!(query_ok));
    sum.write(args.opt("summary").unwrap_or_else(|| tool_error("--summary")));
}
