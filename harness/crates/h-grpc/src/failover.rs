//! C44 — failover of generated gRPC calls over the configured endpoints.
//!
//! The real `GrpcClient` is built over 1..5 fake transports.  Every attempt that reaches a fake
//! endpoint is identified by the `x-call` metadata header, answered with a success / network
//! error / non-network error and logged, together with the `start` and `end` of every call, in one
//! global order.
//!
//!   replay  (spec -> impl)  TLC-generated schedules (Gen_Failover) are replayed step by step on a
//!           current-thread runtime with paused time: `start c` spawns caller c, `att c e r`
//!           answers c's pending attempt with kind r; after each step the client runs until it
//!           blocks again (`sleep` under paused time is the quiescence barrier).  The observed
//!           event list is compared with the expected one; differing runs are written out for the
//!           property-layer trace spec, which alone decides between violation and drift.
//!   record  (impl -> spec)  seeded random schedules, gated (as above) or with free-running
//!           callers on a multi-thread runtime; traces validated by Trace_FailoverProp and
//!           Trace_Failover.

use std::collections::BTreeMap;
use std::sync::{Arc, Mutex};
use std::time::Duration;

use celestia_grpc::grpc::TxPriority;
use celestia_grpc::GrpcClient;
use celestia_proto::celestia::core::v1::gas_estimation::EstimateGasPriceResponse;
use celestia_proto::celestia::core::v1::tx::TxStatusResponse;
use celestia_proto::cosmos::auth::v1beta1::{Params as AuthParams, QueryParamsResponse};
use celestia_proto::cosmos::base::node::v1beta1::ConfigResponse;
use celestia_types::hash::Hash;
use futures::FutureExt;
use h_common::{read_cases, tool_error, Args, Summary, TraceWriter};
use rand::rngs::StdRng;
use rand::{Rng, SeedableRng};
use serde_json::{json, Value};
use tokio::sync::oneshot;

use crate::fake::{FakeTransport, Handler, Reply, Request};

const PROP: &str = "C44";

/// Concrete answers for the abstract kinds.
const NET_CODES: [i32; 4] = [14, 2, 4, 10]; // Unavailable, Unknown, DeadlineExceeded, Aborted
const APP_CODES: [i32; 8] = [3, 5, 13, 16, 7, 12, 9, 8]; // InvalidArgument, NotFound, Internal, ...

#[derive(Clone, Debug)]
struct Answer {
    kind: &'static str, // "ok" | "net" | "app"
    variant: i32,       // grpc code, -1 = transport error, 0 = ok
}

fn answer(kind: &str, pick: u32) -> Answer {
    match kind {
        "ok" => Answer { kind: "ok", variant: 0 },
        "net" => {
            let k = pick as usize % (NET_CODES.len() + 1);
            Answer { kind: "net", variant: if k == NET_CODES.len() { -1 } else { NET_CODES[k] } }
        }
        "app" => Answer { kind: "app", variant: APP_CODES[pick as usize % APP_CODES.len()] },
        _ => tool_error(&format!("unknown kind {kind}")),
    }
}

fn ok_reply(path: &str) -> Reply {
    match path {
        "/cosmos.base.node.v1beta1.Service/Config" => Reply::ok(&ConfigResponse {
            minimum_gas_price: "0.002utia".into(),
            pruning_keep_recent: "100".into(),
            pruning_interval: "10".into(),
            halt_height: 0,
        }),
        "/cosmos.auth.v1beta1.Query/Params" => Reply::ok(&QueryParamsResponse {
            params: Some(AuthParams {
                max_memo_characters: 256,
                tx_sig_limit: 7,
                tx_size_cost_per_byte: 10,
                sig_verify_cost_ed25519: 590,
                sig_verify_cost_secp256k1: 1000,
            }),
        }),
        "/celestia.core.v1.gas_estimation.GasEstimator/EstimateGasPrice" => {
            Reply::ok(&EstimateGasPriceResponse { estimated_gas_price: 0.002 })
        }
        "/celestia.core.v1.tx.Tx/TxStatus" => Reply::ok(&TxStatusResponse {
            height: 5,
            index: 0,
            execution_code: 0,
            error: String::new(),
            status: "COMMITTED".into(),
            ..Default::default()
        }),
        _ => Reply::Status(12, format!("fake node: unimplemented {path}")),
    }
}

fn to_reply(a: &Answer, path: &str) -> Reply {
    match (a.kind, a.variant) {
        ("ok", _) => ok_reply(path),
        (_, -1) => Reply::Transport("connection refused".into()),
        (_, code) => Reply::Status(code, format!("scripted status {code}")),
    }
}

struct Pending {
    call: u64,
    ep: usize,
    tx: oneshot::Sender<Answer>,
}

#[derive(Default)]
struct World {
    log: Mutex<Vec<Value>>,
    pending: Mutex<Vec<Pending>>,
}

impl World {
    fn ev(&self, v: Value) {
        self.log.lock().unwrap().push(v);
    }
}

fn call_of(req: &Request) -> u64 {
    req.header("x-call").and_then(|s| s.parse().ok()).unwrap_or(0)
}

/// Endpoint handler of the gated modes: park the attempt until the scheduler answers it.
fn gated_handler(w: Arc<World>) -> Handler {
    Arc::new(move |ep, req: Request| {
        let w = w.clone();
        async move {
            let call = call_of(&req);
            let (tx, rx) = oneshot::channel();
            w.pending.lock().unwrap().push(Pending { call, ep, tx });
            let a = rx.await.unwrap_or(Answer { kind: "app", variant: 1 });
            w.ev(json!({"name":"att","c":call,"e":ep,"r":a.kind,"variant":a.variant,"path":req.path}));
            to_reply(&a, &req.path)
        }
        .boxed()
    })
}

fn build_client(n: usize, h: Handler) -> GrpcClient {
    let mut b = GrpcClient::builder();
    for id in 1..=n {
        b = b.transport(FakeTransport { id, handler: h.clone() });
    }
    b.build().unwrap_or_else(|e| tool_error(&format!("client build: {e}")))
}

/// One call of the real client, identified by metadata `x-call`; four generated methods in turn.
/// Timeout given to the calls of the timed modes (None: the default of the client).
static CALL_TIMEOUT_MS: std::sync::atomic::AtomicU64 = std::sync::atomic::AtomicU64::new(0);

async fn do_call(client: GrpcClient, c: u64) -> Result<(), String> {
    let id = c.to_string();
    let e = |e: celestia_grpc::Error| e.to_string();
    let t = CALL_TIMEOUT_MS.load(std::sync::atomic::Ordering::Relaxed);
    macro_rules! go {
        ($call:expr) => {{
            let mut call = $call.metadata("x-call", &id).unwrap();
            if t > 0 {
                call = call.timeout(Duration::from_millis(t));
            }
            call.await.map(|_| ()).map_err(e)
        }};
    }
    match c % 4 {
        0 => go!(client.get_node_config()),
        1 => go!(client.get_auth_params()),
        2 => go!(client.estimate_gas_price(TxPriority::Medium)),
        _ => go!(client.tx_status(Hash::Sha256([c as u8; 32]))),
    }
}

// ---- answers that take time (real clock: the client measures with std::time::Instant) ----
const TIMED_TIMEOUT_MS: u64 = 30;

fn lat_ms(lat: &str) -> u64 {
    match lat {
        "below" => 8,
        "at" => TIMED_TIMEOUT_MS,
        "above" => TIMED_TIMEOUT_MS + 15,
        _ => 0,
    }
}

type Script = Arc<Mutex<BTreeMap<u64, std::collections::VecDeque<(String, String)>>>>;

/// Endpoint handler of the timed modes: the n-th attempt of a call takes the scripted latency and
/// then gives the scripted answer.
fn timed_handler(w: Arc<World>, script: Script, seed: u64) -> Handler {
    Arc::new(move |ep, req: Request| {
        let w = w.clone();
        let script = script.clone();
        async move {
            let call = call_of(&req);
            let next = script.lock().unwrap().get_mut(&call).and_then(|q| q.pop_front());
            let (kind, lat, scripted) = match next {
                Some((k, l)) => (k, l, true),
                None => ("app".to_string(), "fast".to_string(), false),
            };
            let d = lat_ms(&lat);
            if d > 0 {
                tokio::time::sleep(Duration::from_millis(d)).await;
            }
            let a = answer(&kind, (seed ^ call ^ ((ep as u64) << 7)) as u32);
            w.ev(json!({"name":"att","c":call,"e":ep,"r":a.kind,"variant":a.variant,"lat":lat,"scripted":scripted,"path":req.path}));
            to_reply(&a, &req.path)
        }
        .boxed()
    })
}

fn rt_real() -> tokio::runtime::Runtime {
    tokio::runtime::Builder::new_current_thread().enable_time().build().unwrap()
}

/// Sequential calls against endpoints with scripted (kind, latency) per attempt.
async fn run_timed(n: usize, per_call: Vec<(u64, Vec<(String, String)>)>, seed: u64) -> Vec<Value> {
    let w = Arc::new(World::default());
    let script: Script = Arc::new(Mutex::new(per_call.iter().map(|(c, v)| (*c, v.iter().cloned().collect())).collect()));
    let client = build_client(n, timed_handler(w.clone(), script, seed));
    CALL_TIMEOUT_MS.store(TIMED_TIMEOUT_MS, std::sync::atomic::Ordering::Relaxed);
    for (c, _) in &per_call {
        let _ = spawn_caller(&w, &client, *c).await;
    }
    CALL_TIMEOUT_MS.store(0, std::sync::atomic::Ordering::Relaxed);
    let log = w.log.lock().unwrap().clone();
    log
}

fn timed_script_of(hist: &[Value]) -> Vec<(u64, Vec<(String, String)>)> {
    let mut out: Vec<(u64, Vec<(String, String)>)> = vec![];
    for ev in hist {
        let c = ev["c"].as_u64().unwrap();
        match ev["name"].as_str().unwrap() {
            "start" => out.push((c, vec![])),
            "att" => {
                if let Some(x) = out.iter_mut().find(|x| x.0 == c) {
                    x.1.push((ev["r"].as_str().unwrap().to_string(), ev["lat"].as_str().unwrap_or("fast").to_string()));
                }
            }
            _ => {}
        }
    }
    out
}

fn spawn_caller(w: &Arc<World>, client: &GrpcClient, c: u64) -> tokio::task::JoinHandle<()> {
    let w = w.clone();
    let client = client.clone();
    tokio::spawn(async move {
        w.ev(json!({"name":"start","c":c}));
        // a panic of the client is an observation
        let r = std::panic::AssertUnwindSafe(do_call(client, c)).catch_unwind().await;
        match r {
            Ok(Ok(())) => w.ev(json!({"name":"end","c":c,"r":"ok"})),
            Ok(Err(m)) => w.ev(json!({"name":"end","c":c,"r":"err","error":m})),
            Err(_) => w.ev(json!({"name":"end","c":c,"r":"panic"})),
        }
    })
}

async fn quiesce() {
    // paused clock: completes only when every other task is blocked
    tokio::time::sleep(Duration::from_millis(1)).await;
}

fn take_pending(w: &World, call: u64) -> Option<Pending> {
    let mut p = w.pending.lock().unwrap();
    let i = p.iter().position(|x| x.call == call)?;
    Some(p.remove(i))
}

fn slim(ev: &Value) -> Value {
    json!({"name": ev["name"], "c": ev["c"], "e": ev.get("e").cloned().unwrap_or(json!(0)),
           "r": ev.get("r").cloned().unwrap_or(json!(""))})
}

/// Replays one TLC schedule; returns (observed events, notes about steps that could not be taken).
async fn replay_one(n: usize, hist: &[Value], rng: &mut StdRng) -> (Vec<Value>, Vec<String>) {
    let w = Arc::new(World::default());
    let client = build_client(n, gated_handler(w.clone()));
    let mut notes = vec![];
    let mut handles = vec![];
    for ev in hist {
        let c = ev["c"].as_u64().unwrap();
        match ev["name"].as_str().unwrap() {
            "start" => {
                handles.push(spawn_caller(&w, &client, c));
                quiesce().await;
            }
            "att" => match take_pending(&w, c) {
                Some(p) => {
                    let _ = p.tx.send(answer(ev["r"].as_str().unwrap(), rng.r#gen()));
                    quiesce().await;
                }
                None => notes.push(format!("call {c}: no attempt pending where the spec has one")),
            },
            _ => {}
        }
    }
    // anything still pending is beyond the schedule: finish it off with non-network errors
    loop {
        let p = w.pending.lock().unwrap().pop();
        match p {
            Some(p) => {
                notes.push(format!("call {}: attempt on endpoint {} beyond the schedule", p.call, p.ep));
                let _ = p.tx.send(answer("app", 0));
                quiesce().await;
            }
            None => break,
        }
    }
    for h in handles {
        let _ = h.await;
    }
    let log = w.log.lock().unwrap().clone();
    (log, notes)
}

fn rt_paused() -> tokio::runtime::Runtime {
    tokio::runtime::Builder::new_current_thread().enable_time().start_paused(true).build().unwrap()
}

pub fn replay(args: &Args) {
    let cases = read_cases(args.pos(2));
    let out = args.opt("out").unwrap_or_else(|| tool_error("--out"));
    let dev = args.opt("dev").unwrap_or_else(|| tool_error("--dev"));
    let mut sum = Summary::new("failover");
    let mut tw = TraceWriter::create(out);
    let mut dw = TraceWriter::create(dev);
    let mut rng = StdRng::seed_from_u64(args.opt_u64("seed", 1));
    let rt = rt_paused();
    let rt_timed = rt_real();
    let mut deviating = 0u64;
    for (i, case) in cases.iter().enumerate() {
        let n = case["n"].as_u64().unwrap() as usize;
        let hist = case["hist"].as_array().unwrap();
        let timed = case["timed"].as_bool().unwrap_or(false);
        let (log, notes) = if timed {
            let seed: u64 = rng.r#gen();
            (rt_timed.block_on(run_timed(n, timed_script_of(hist), seed)), vec![])
        } else {
            rt.block_on(replay_one(n, hist, &mut rng))
        };
        let obs: Vec<Value> = log.iter().map(slim).collect();
        let exp: Vec<Value> = hist.iter().map(slim).collect();
        let atts = hist.iter().filter(|e| e["name"] == "att").count();
        let slow = hist.iter().any(|e| matches!(e["lat"].as_str(), Some("at") | Some("above")));
        let nontrivial = atts >= 3 || (timed && slow && atts >= 2);
        sum.case(PROP, nontrivial.then(|| format!("{n}:{}", serde_json::to_string(&exp).unwrap())), || {
            json!({"direction":"spec->impl","n":n,"expected":exp,"observed":obs})
        });
        tw.emit(json!({"name":"reset","n":n,"case":i}));
        for e in &log {
            tw.emit(e.clone());
        }
        if obs != exp {
            deviating += 1;
            dw.emit(json!({"name":"reset","n":n,"case":i,"timed":timed,"expected":hist,"notes":notes}));
            for e in &log {
                dw.emit(e.clone());
            }
        }
    }
    tw.finish();
    dw.finish();
    sum.set("deviating_runs", json!(deviating));
    sum.write(args.opt("summary").unwrap_or_else(|| tool_error("--summary")));
}

// ------------------------------------------------------------------------------------ record

async fn record_gated(n: usize, calls: u64, conc: usize, rng: &mut StdRng) -> Vec<Value> {
    let w = Arc::new(World::default());
    let client = build_client(n, gated_handler(w.clone()));
    let mut handles = vec![];
    let mut next = 1u64;
    let mut running: BTreeMap<u64, ()> = BTreeMap::new();
    loop {
        // calls that ended since the last step
        let ended: Vec<u64> = w.log.lock().unwrap().iter().filter(|e| e["name"] == "end").map(|e| e["c"].as_u64().unwrap()).collect();
        for c in ended {
            running.remove(&c);
        }
        let npend = w.pending.lock().unwrap().len();
        let can_start = next <= calls && running.len() < conc;
        if !can_start && npend == 0 {
            if running.is_empty() {
                break;
            }
            // a running call without a pending attempt: must not happen after quiescence
            w.ev(json!({"name":"stuck","running":running.keys().collect::<Vec<_>>() }));
            break;
        }
        let start = can_start && (npend == 0 || rng.gen_bool(0.35));
        if start {
            running.insert(next, ());
            handles.push(spawn_caller(&w, &client, next));
            next += 1;
        } else {
            let p = {
                let mut pend = w.pending.lock().unwrap();
                let i = rng.gen_range(0..pend.len());
                pend.remove(i)
            };
            let roll: f64 = rng.r#gen();
            let kind = if roll < 0.5 { "net" } else if roll < 0.82 { "ok" } else { "app" };
            let _ = p.tx.send(answer(kind, rng.r#gen()));
        }
        quiesce().await;
    }
    for h in handles {
        let _ = h.await;
    }
    let log = w.log.lock().unwrap().clone();
    log
}

/// Free-running callers on worker threads; endpoints answer from a seeded table.
async fn record_free(n: usize, calls: u64, seed: u64, rng: &mut StdRng) -> Vec<Value> {
    let w = Arc::new(World::default());
    let w2 = w.clone();
    let handler: Handler = Arc::new(move |ep, req: Request| {
        let w = w2.clone();
        async move {
            let call = call_of(&req);
            let mut r = StdRng::seed_from_u64(seed ^ (call << 20) ^ ((ep as u64) << 8));
            for _ in 0..r.gen_range(0..4) {
                tokio::task::yield_now().await;
            }
            let roll: f64 = r.r#gen();
            let kind = if roll < 0.5 { "net" } else if roll < 0.82 { "ok" } else { "app" };
            let a = answer(kind, r.r#gen());
            w.ev(json!({"name":"att","c":call,"e":ep,"r":a.kind,"variant":a.variant,"path":req.path}));
            for _ in 0..r.gen_range(0..3) {
                tokio::task::yield_now().await;
            }
            to_reply(&a, &req.path)
        }
        .boxed()
    });
    let client = build_client(n, handler);
    let mut next = 1u64;
    while next <= calls {
        let wave = rng.gen_range(1..=4u64).min(calls - next + 1);
        let hs: Vec<_> = (0..wave).map(|k| spawn_caller(&w, &client, next + k)).collect();
        next += wave;
        for h in hs {
            let _ = h.await;
        }
    }
    let log = w.log.lock().unwrap().clone();
    log
}

pub fn record(args: &Args) {
    let seed = args.opt_u64("seed", 1);
    let runs = args.opt_u64("runs", 50);
    let calls = args.opt_u64("calls", 8);
    let mode = args.opt("mode").unwrap_or("gated").to_string();
    let out = args.opt("out").unwrap_or_else(|| tool_error("--out"));
    let mut sum = Summary::new("failover");
    let mut tw = TraceWriter::create(out);
    let mut rng = StdRng::seed_from_u64(seed ^ if mode == "free" { 0x5eed } else { 0 });
    let rt = if mode == "timed" {
        rt_real()
    } else if mode == "free" {
        tokio::runtime::Builder::new_multi_thread().worker_threads(4).enable_time().build().unwrap()
    } else {
        rt_paused()
    };
    let mut hist_n = [0u64; 6];
    for run in 0..runs {
        let n = rng.gen_range(1..=5usize);
        let n = if mode == "timed" { n.max(2) } else { n };
        hist_n[n] += 1;
        let conc = rng.gen_range(1..=4usize);
        let log = if mode == "timed" {
            // sequential calls, every attempt with a random kind and a random latency class
            let per_call: Vec<(u64, Vec<(String, String)>)> = (1..=calls)
                .map(|c| {
                    let v = (0..n)
                        .map(|_| {
                            let roll: f64 = rng.r#gen();
                            let kind = if roll < 0.55 { "net" } else if roll < 0.85 { "ok" } else { "app" };
                            let lat = ["fast", "below", "at", "above"][rng.gen_range(0..4)];
                            (kind.to_string(), lat.to_string())
                        })
                        .collect();
                    (c, v)
                })
                .collect();
            rt.block_on(run_timed(n, per_call, seed.wrapping_add(run)))
        } else if mode == "free" {
            rt.block_on(record_free(n, calls, seed.wrapping_mul(1_000_003).wrapping_add(run), &mut rng))
        } else {
            rt.block_on(record_gated(n, calls, conc, &mut rng))
        };
        tw.emit(json!({"name":"reset","n":n,"run":run,"mode":mode}));
        // per call: non-trivial = at least one failover step (>= 2 attempts)
        let mut per: BTreeMap<u64, Vec<String>> = BTreeMap::new();
        for e in &log {
            if e["name"] == "att" {
                per.entry(e["c"].as_u64().unwrap()).or_default().push(format!("{}{}", e["e"], e["r"].as_str().unwrap()));
            }
            tw.emit(e.clone());
        }
        for (c, a) in per {
            let key = (a.len() >= 2).then(|| format!("{n}:{}", a.join(",")));
            sum.case(PROP, key, || json!({"direction":"impl->spec","mode":mode,"n":n,"call":c,"attempts":a}));
        }
    }
    tw.finish();
    sum.set("runs", json!(runs));
    sum.set("endpoints_histogram", json!(hist_n));
    sum.write(args.opt("summary").unwrap_or_else(|| tool_error("--summary")));
}
