//! C43 — transaction submission keeps account sequences consistent.
//!
//! The real `GrpcClient` (with a signer) talks to an in-process fake node.  The node decodes every
//! broadcast / simulated transaction (`TxRaw` or `BlobTx`) to read the signed sequence, numbers the
//! distinct byte strings in order of first appearance, and answers
//!   estimate   ok | mismatch(e) | err
//!   broadcast  ok | cached (already in mempool cache) | mismatch(e) | reject | err
//!   status     pending | committed | failed | rejected-seq | rejected-other | evicted | unknown
//! The account query and the latest block are answered automatically.  Requests of submission s
//! are recognised by the per-call metadata `x-sub`.
//!
//!   replay  (spec -> impl)  TLC-generated schedules (Gen_TxClient): `begin s` spawns submission s,
//!           an `est`/`bcast`/`status` step answers the parked request of s with the scripted
//!           answer; the client runs to quiescence in between (current-thread runtime, paused time).
//!   record  (impl -> spec)  seeded random schedules and answers; traces for Trace_TxClientProp and
//!           Trace_TxClient.

use std::collections::{BTreeMap, HashMap};
use std::sync::{Arc, Mutex};
use std::time::Duration;

use celestia_grpc::{GrpcClient, TxConfig};
use celestia_proto::celestia::core::v1::gas_estimation::{
    EstimateGasPriceAndUsageRequest, EstimateGasPriceAndUsageResponse, EstimateGasPriceResponse,
};
use celestia_proto::celestia::core::v1::tx::{TxStatusRequest, TxStatusResponse};
use celestia_proto::cosmos::auth::v1beta1::{BaseAccount as RawBaseAccount, QueryAccountResponse};
use celestia_proto::cosmos::bank::v1beta1::MsgSend;
use celestia_proto::cosmos::base::abci::v1beta1::TxResponse as RawTxResponse;
use celestia_proto::cosmos::base::tendermint::v1beta1::GetLatestBlockResponse;
use celestia_proto::cosmos::tx::v1beta1::{BroadcastTxRequest, BroadcastTxResponse, Tx as RawTx};
use celestia_types::blob::RawBlobTx;
use celestia_types::nmt::Namespace;
use celestia_types::state::{AccAddress, Coin};
use celestia_types::test_utils::ExtendedHeaderGenerator;
use celestia_types::{AppVersion, Blob};
use futures::FutureExt;
use h_common::{read_cases, tool_error, Args, Summary, TraceWriter};
use k256::ecdsa::SigningKey;
use prost::{Message, Name};
use rand::rngs::StdRng;
use rand::{Rng, SeedableRng};
use serde_json::{json, Value};
use sha2::{Digest, Sha256};
use tokio::sync::oneshot;

use crate::fake::{FakeTransport, Handler, Reply, Request};

const PROP: &str = "C43";

#[derive(Clone, Debug)]
struct Ans {
    ans: String,
    e: u64,
    variant: u32,
    /// node-side facts logged with the event (honest node: nx, inflight, unrep)
    facts: Value,
}

#[derive(Clone, Copy, PartialEq, Eq, Debug)]
enum Kind {
    Est,
    Bcast,
    Status,
}

impl Kind {
    fn name(self) -> &'static str {
        match self {
            Kind::Est => "est",
            Kind::Bcast => "bcast",
            Kind::Status => "status",
        }
    }
}

struct Pending {
    sub: u64,
    kind: Kind,
    /// signed sequence (est, bcast)
    q: u64,
    /// number of the byte string (bcast, status)
    txid: u64,
    tx: oneshot::Sender<Ans>,
}

struct World {
    log: Mutex<Vec<Value>>,
    pending: Mutex<Vec<Pending>>,
    txids: Mutex<HashMap<Vec<u8>, u64>>,
    hashes: Mutex<HashMap<String, u64>>,
    q0: u64,
    address: String,
    block: Vec<u8>,
    /// free-running mode: answers are drawn here instead of being parked
    auto: Option<Mutex<StdRng>>,
    budget: Mutex<HashMap<u64, u32>>,
}

impl World {
    fn ev(&self, v: Value) {
        self.log.lock().unwrap().push(v);
    }
    fn txid(&self, bytes: &[u8]) -> (u64, String, bool) {
        let mut m = self.txids.lock().unwrap();
        let n = m.len() as u64 + 1;
        let id = *m.entry(bytes.to_vec()).or_insert(n);
        let fresh = id == n;
        let hash = hex::encode_upper(Sha256::digest(bytes));
        self.hashes.lock().unwrap().insert(hash.clone(), id);
        (id, hash, fresh)
    }
}

fn sub_of(req: &Request) -> u64 {
    req.header("x-sub").and_then(|s| s.parse().ok()).unwrap_or(0)
}

/// Sequence signed into a `TxRaw` / `BlobTx` byte string.
fn signed_sequence(bytes: &[u8]) -> Option<u64> {
    let inner = match RawBlobTx::decode(bytes) {
        Ok(b) if b.type_id == "BLOB" => b.tx,
        _ => bytes.to_vec(),
    };
    let tx = RawTx::decode(inner.as_slice()).ok()?;
    Some(tx.auth_info?.signer_infos.first()?.sequence)
}

const MISMATCH: &str = "account sequence mismatch, expected ";

fn bcast_reply(a: &Ans, q: u64, hash: &str) -> Reply {
    let resp = |code: u32, log: String| {
        Reply::ok(&BroadcastTxResponse {
            tx_response: Some(RawTxResponse { txhash: hash.to_string(), code, raw_log: log, ..Default::default() }),
        })
    };
    let mm = format!("{MISMATCH}{}, got {q}: incorrect account sequence", a.e);
    match a.ans.as_str() {
        "ok" => resp(0, String::new()),
        "cached" => resp(19, "tx already in mempool cache".into()),
        "mismatch" => match a.variant % 4 {
            0 => resp(32, mm),
            1 => resp(3, mm),
            2 => Reply::Status(3, format!("rpc error: {mm}")),
            _ => Reply::Status(2, format!("rpc error: code = Unknown desc = {mm}")),
        },
        "reject" => match a.variant % 3 {
            0 => resp(13, "insufficient fees; got: 1utia required: 200utia: insufficient fee".into()),
            1 => resp(5, "insufficient funds".into()),
            _ => resp(11, "out of gas".into()),
        },
        _ => match a.variant % 2 {
            0 => Reply::Status(13, "internal error".into()),
            _ => Reply::Status(3, "invalid argument".into()),
        },
    }
}

fn est_reply(a: &Ans, q: u64) -> Reply {
    match a.ans.as_str() {
        "ok" => Reply::ok(&EstimateGasPriceAndUsageResponse { estimated_gas_price: 0.002, estimated_gas_used: 90_000 }),
        "mismatch" => Reply::Status(
            if a.variant % 2 == 0 { 2 } else { 3 },
            format!("rpc error: code = Unknown desc = {MISMATCH}{}, got {q}: incorrect account sequence [cosmos/cosmos-sdk]", a.e),
        ),
        _ => Reply::Status(13, "estimation failed".into()),
    }
}

fn status_reply(a: &Ans) -> Reply {
    let r = |status: &str, code: u32, err: &str| {
        Reply::ok(&TxStatusResponse {
            height: if status == "COMMITTED" { 7 } else { 0 },
            index: 0,
            execution_code: code,
            error: err.to_string(),
            status: status.to_string(),
            ..Default::default()
        })
    };
    match a.ans.as_str() {
        "pending" => r("PENDING", 0, ""),
        "committed" => r("COMMITTED", 0, ""),
        "failed" => r("COMMITTED", 11, "out of gas"),
        "rejected-seq" => r("REJECTED", if a.variant % 2 == 0 { 32 } else { 3 }, "incorrect account sequence"),
        "rejected-other" => r("REJECTED", [5u32, 13, 11][a.variant as usize % 3], "rejected"),
        "evicted" => r("EVICTED", 0, ""),
        _ => r("UNKNOWN", 0, ""),
    }
}

fn draw_answer(kind: Kind, q: u64, rng: &mut StdRng, force_end: bool) -> Ans {
    let roll: f64 = rng.r#gen();
    let variant: u32 = rng.r#gen();
    let near = |rng: &mut StdRng| (q as i64 + rng.gen_range(-2..=3)).max(0) as u64;
    let (ans, e) = match kind {
        Kind::Est => {
            if force_end || roll < 0.7 { ("ok", 0) } else if roll < 0.9 { ("mismatch", near(rng)) } else { ("err", 0) }
        }
        Kind::Bcast => {
            if force_end || roll < 0.45 { ("ok", 0) }
            else if roll < 0.70 { ("mismatch", near(rng)) }
            else if roll < 0.78 { ("cached", 0) }
            else if roll < 0.90 { ("reject", 0) }
            else { ("err", 0) }
        }
        Kind::Status => {
            if force_end { ("committed", 0) }
            else if roll < 0.28 { ("pending", 0) }
            else if roll < 0.50 { ("committed", 0) }
            else if roll < 0.55 { ("failed", 0) }
            else if roll < 0.63 { ("rejected-seq", 0) }
            else if roll < 0.78 { ("rejected-other", 0) }
            else if roll < 0.92 { ("evicted", 0) }
            else { ("unknown", 0) }
        }
    };
    Ans { ans: ans.into(), e, variant, facts: Value::Null }
}

async fn obtain(w: &Arc<World>, sub: u64, kind: Kind, q: u64, txid: u64) -> Ans {
    if let Some(rng) = &w.auto {
        for _ in 0..(q % 3) {
            tokio::task::yield_now().await;
        }
        let left = {
            let mut b = w.budget.lock().unwrap();
            let e = b.entry(sub).or_insert(7);
            *e = e.saturating_sub(1);
            *e
        };
        return draw_answer(kind, q, &mut rng.lock().unwrap(), left == 0);
    }
    let (tx, rx) = oneshot::channel();
    w.pending.lock().unwrap().push(Pending { sub, kind, q, txid, tx });
    rx.await.unwrap_or(Ans { ans: "err".into(), e: 0, variant: 0, facts: Value::Null })
}

fn node_handler(w: Arc<World>) -> Handler {
    Arc::new(move |_ep, req: Request| {
        let w = w.clone();
        async move {
            let sub = sub_of(&req);
            match req.path.as_str() {
                "/cosmos.base.tendermint.v1beta1.Service/GetLatestBlock" => Reply::Ok(w.block.clone()),
                "/cosmos.auth.v1beta1.Query/Account" => {
                    let acc = RawBaseAccount { address: w.address.clone(), pub_key: None, account_number: 11, sequence: w.q0 };
                    w.ev(json!({"name":"acct","s":0,"q":w.q0,"ans":"","e":0,"tx":0}));
                    Reply::ok(&QueryAccountResponse {
                        account: Some(celestia_proto_any(RawBaseAccount::type_url(), acc.encode_to_vec())),
                    })
                }
                "/celestia.core.v1.gas_estimation.GasEstimator/EstimateGasPrice" => {
                    Reply::ok(&EstimateGasPriceResponse { estimated_gas_price: 0.002 })
                }
                "/celestia.core.v1.gas_estimation.GasEstimator/EstimateGasPriceAndUsage" => {
                    let r = EstimateGasPriceAndUsageRequest::decode(req.msg.as_slice()).unwrap_or_default();
                    let q = signed_sequence(&r.tx_bytes).unwrap_or(u64::MAX);
                    let a = obtain(&w, sub, Kind::Est, q, 0).await;
                    w.ev(json!({"name":"est","s":sub,"q":q,"ans":a.ans,"e":a.e,"tx":0,"variant":a.variant}));
                    est_reply(&a, q)
                }
                "/cosmos.tx.v1beta1.Service/BroadcastTx" => {
                    let r = BroadcastTxRequest::decode(req.msg.as_slice()).unwrap_or_default();
                    let q = signed_sequence(&r.tx_bytes).unwrap_or(u64::MAX);
                    let (id, hash, fresh) = w.txid(&r.tx_bytes);
                    let a = obtain(&w, sub, Kind::Bcast, q, id).await;
                    let mut ev = json!({"name":"bcast","s":sub,"q":q,"ans":a.ans,"e":a.e,"tx":id,"variant":a.variant,"len":r.tx_bytes.len(),"fresh":fresh as u8});
                    if let Value::Object(f) = &a.facts {
                        for (k, v) in f {
                            ev[k] = v.clone();
                        }
                    }
                    w.ev(ev);
                    bcast_reply(&a, q, &hash)
                }
                "/celestia.core.v1.tx.Tx/TxStatus" => {
                    let r = TxStatusRequest::decode(req.msg.as_slice()).unwrap_or_default();
                    let id = w.hashes.lock().unwrap().get(&r.tx_id.to_uppercase()).copied().unwrap_or(0);
                    let a = obtain(&w, sub, Kind::Status, id, id).await;
                    w.ev(json!({"name":"status","s":sub,"q":0,"ans":a.ans,"e":0,"tx":id,"variant":a.variant}));
                    status_reply(&a)
                }
                p => Reply::Status(12, format!("fake node: unimplemented {p}")),
            }
        }
        .boxed()
    })
}

fn celestia_proto_any(type_url: String, value: Vec<u8>) -> tendermint_proto::google::protobuf::Any {
    tendermint_proto::google::protobuf::Any { type_url, value }
}

fn latest_block_bytes() -> Vec<u8> {
    let eh = ExtendedHeaderGenerator::new().next();
    let mut header: tendermint_proto::v0_38::types::Header = eh.header.clone().into();
    if let Some(v) = header.version.as_mut() {
        v.app = AppVersion::latest().as_u64();
    }
    let block = celestia_proto::tendermint_celestia_mods::types::Block {
        header: Some(header),
        data: Some(celestia_proto::tendermint_celestia_mods::types::Data { txs: vec![], square_size: 1, hash: vec![0; 32] }),
        evidence: None,
        last_commit: None,
    };
    GetLatestBlockResponse { block: Some(block), ..Default::default() }.encode_to_vec()
}

struct Setup {
    w: Arc<World>,
    client: GrpcClient,
    address: AccAddress,
}

fn setup(q0: u64, auto: Option<u64>) -> Setup {
    let key = SigningKey::from_slice(&[7u8; 32]).unwrap();
    let address = AccAddress::from(*key.verifying_key());
    let w = Arc::new(World {
        log: Mutex::new(vec![]),
        pending: Mutex::new(vec![]),
        txids: Mutex::new(HashMap::new()),
        hashes: Mutex::new(HashMap::new()),
        q0,
        address: address.to_string(),
        block: latest_block_bytes(),
        auto: auto.map(|s| Mutex::new(StdRng::seed_from_u64(s))),
        budget: Mutex::new(HashMap::new()),
    });
    let client = GrpcClient::builder()
        .transport(FakeTransport { id: 1, handler: node_handler(w.clone()) })
        .signer_keypair(key)
        .build()
        .unwrap_or_else(|e| tool_error(&format!("client build: {e}")));
    Setup { w, client, address }
}

async fn do_sub(client: GrpcClient, from: AccAddress, s: u64, use_est: bool) -> Result<(), String> {
    let mut cfg = TxConfig::default().with_memo(format!("sub-{s}")).with_confirmation_interval_ms(1);
    if !use_est {
        cfg = cfg.with_gas_limit(100_000).with_gas_price(0.002);
    }
    let id = s.to_string();
    if s % 2 == 1 {
        let msg = MsgSend {
            from_address: from.to_string(),
            to_address: "celestia169s50psyj2f4la9a2235329xz7rk6c53zhw9mm".to_string(),
            amount: vec![Coin::utia(1000 + s).into()],
        };
        client.submit_message(msg, cfg).metadata("x-sub", &id).unwrap().await.map(|_| ()).map_err(|e| e.to_string())
    } else {
        let ns = Namespace::new_v0(b"verif").unwrap();
        let blob = Blob::new(ns, format!("blob of submission {s}").into_bytes(), None, AppVersion::latest()).unwrap();
        client.submit_blobs(&[blob], cfg).metadata("x-sub", &id).unwrap().await.map(|_| ()).map_err(|e| e.to_string())
    }
}

fn spawn_sub(st: &Setup, s: u64, use_est: bool) -> tokio::task::JoinHandle<()> {
    let w = st.w.clone();
    let client = st.client.clone();
    let from = st.address;
    tokio::spawn(async move {
        w.ev(json!({"name":"begin","s":s,"q":0,"ans":"","e":0,"tx":0}));
        let r = std::panic::AssertUnwindSafe(do_sub(client, from, s, use_est)).catch_unwind().await;
        let (ans, err) = match r {
            Ok(Ok(())) => ("ok", String::new()),
            Ok(Err(m)) => ("err", m),
            Err(_) => ("panic", String::new()),
        };
        w.ev(json!({"name":"end","s":s,"q":0,"ans":ans,"e":0,"tx":0,"error":err}));
    })
}

async fn quiesce() {
    // paused clock; longer than the client's 1 ms confirmation interval, so a submission that
    // waits for its next poll is parked at the node again when this returns
    tokio::time::sleep(Duration::from_millis(10)).await;
}

fn take_pending(w: &World, sub: u64, kind: Kind) -> Option<Pending> {
    let mut p = w.pending.lock().unwrap();
    let i = p.iter().position(|x| x.sub == sub && x.kind == kind)?;
    Some(p.remove(i))
}

fn slim(ev: &Value) -> Value {
    json!({"name": ev["name"], "s": ev["s"], "q": ev["q"], "ans": ev["ans"], "e": ev["e"], "tx": ev["tx"]})
}

/// Renumber byte-string identities by first appearance so that model and harness numbers compare.
fn canon(evs: &[Value]) -> Vec<Value> {
    let mut map: BTreeMap<u64, u64> = BTreeMap::new();
    evs.iter()
        .map(|e| {
            let mut e = slim(e);
            let t = e["tx"].as_u64().unwrap_or(0);
            if t != 0 {
                let n = map.len() as u64 + 1;
                e["tx"] = json!(*map.entry(t).or_insert(n));
            }
            e
        })
        .collect()
}

async fn replay_one(case: &Value, rng: &mut StdRng) -> (Vec<Value>, Vec<String>) {
    let q0 = case["q0"].as_u64().unwrap();
    let use_est = case["est"].as_bool().unwrap();
    let st = setup(q0, None);
    let mut notes = vec![];
    let mut handles = vec![];
    for ev in case["hist"].as_array().unwrap() {
        let s = ev["s"].as_u64().unwrap();
        let kind = match ev["name"].as_str().unwrap() {
            "begin" => {
                handles.push(spawn_sub(&st, s, use_est));
                quiesce().await;
                continue;
            }
            "est" => Kind::Est,
            "bcast" => Kind::Bcast,
            "status" => Kind::Status,
            _ => continue,
        };
        match take_pending(&st.w, s, kind) {
            Some(p) => {
                let a = Ans { ans: ev["ans"].as_str().unwrap().to_string(), e: ev["e"].as_u64().unwrap(), variant: rng.r#gen(), facts: Value::Null };
                let _ = p.tx.send(a);
                quiesce().await;
            }
            None => notes.push(format!("submission {s}: no {} request parked where the spec has one", kind.name())),
        }
    }
    // beyond the schedule: end whatever is still parked
    for _ in 0..200 {
        let p = st.w.pending.lock().unwrap().pop();
        match p {
            Some(p) => {
                notes.push(format!("submission {}: {} request beyond the schedule", p.sub, p.kind.name()));
                let ans = if p.kind == Kind::Status { "committed" } else { "err" };
                let _ = p.tx.send(Ans { ans: ans.into(), e: 0, variant: 0, facts: Value::Null });
                quiesce().await;
            }
            None => break,
        }
    }
    for h in handles {
        if tokio::time::timeout(Duration::from_secs(5), h).await.is_err() {
            notes.push("a submission never returned".into());
        }
    }
    let log = st.w.log.lock().unwrap().clone();
    (log, notes)
}

fn rt_paused() -> tokio::runtime::Runtime {
    tokio::runtime::Builder::new_current_thread().enable_time().start_paused(true).build().unwrap()
}

fn interesting(evs: &[Value]) -> bool {
    evs.iter().any(|e| {
        let a = e["ans"].as_str().unwrap_or("");
        matches!(a, "mismatch" | "cached" | "evicted" | "unknown" | "rejected-other" | "rejected-seq")
    })
}

pub fn replay(args: &Args) {
    let cases = read_cases(args.pos(2));
    let out = args.opt("out").unwrap_or_else(|| tool_error("--out"));
    let dev = args.opt("dev").unwrap_or_else(|| tool_error("--dev"));
    let mut sum = Summary::new("txclient");
    let mut tw = TraceWriter::create(out);
    let mut dw = TraceWriter::create(dev);
    let mut rng = StdRng::seed_from_u64(args.opt_u64("seed", 1));
    let rt = rt_paused();
    let mut deviating = 0u64;
    for (i, case) in cases.iter().enumerate() {
        let (log, notes) = rt.block_on(replay_one(case, &mut rng));
        let hist = case["hist"].as_array().unwrap();
        let obs = canon(&log);
        let exp = canon(hist);
        sum.case(PROP, interesting(hist).then(|| serde_json::to_string(&exp).unwrap()), || {
            json!({"direction":"spec->impl","q0":case["q0"],"est":case["est"],"expected":exp,"observed":obs})
        });
        tw.emit(json!({"name":"reset","case":i,"est":case["est"]}));
        for e in &log {
            tw.emit(e.clone());
        }
        // the order in which two submissions that became runnable in the same step return is the
        // executor's business: `end` events are compared per submission, not by position
        let split = |v: &[Value]| -> (Vec<Value>, BTreeMap<u64, String>) {
            let ends = v.iter().filter(|e| e["name"] == "end")
                .map(|e| (e["s"].as_u64().unwrap_or(0), e["ans"].as_str().unwrap_or("").to_string())).collect();
            (v.iter().filter(|e| e["name"] != "end").cloned().collect(), ends)
        };
        if split(&obs) != split(&exp) {
            deviating += 1;
            dw.emit(json!({"name":"reset","case":i,"est":case["est"],"q0":case["q0"],"expected":hist,"notes":notes}));
            for e in &log {
                dw.emit(e.clone());
            }
        }
    }
    tw.finish();
    dw.finish();
    sum.set("deviating_runs", json!(deviating));
    sum.write(args.opt("summary").unwrap_or_else(|| tool_error("--summary")));
}

// ------------------------------------------------------------------------------------ record

async fn record_gated(q0: u64, use_est: bool, subs: u64, conc: usize, rng: &mut StdRng) -> Vec<Value> {
    let st = setup(q0, None);
    let mut handles = vec![];
    let mut next = 1u64;
    let mut answered: HashMap<u64, u32> = HashMap::new();
    let mut guard = 0;
    loop {
        guard += 1;
        let ended = st.w.log.lock().unwrap().iter().filter(|e| e["name"] == "end").count() as u64;
        let running = (next - 1) - ended;
        let npend = st.w.pending.lock().unwrap().len();
        let can_start = next <= subs && (running as usize) < conc;
        if guard > 2000 || (!can_start && npend == 0) {
            if running != 0 {
                st.w.ev(json!({"name":"stuck","running":running}));
            }
            break;
        }
        if can_start && (npend == 0 || rng.gen_bool(0.3)) {
            handles.push(spawn_sub(&st, next, use_est));
            next += 1;
        } else {
            let p = {
                let mut pend = st.w.pending.lock().unwrap();
                let i = rng.gen_range(0..pend.len());
                pend.remove(i)
            };
            let n = answered.entry(p.sub).or_insert(0);
            *n += 1;
            // the signed sequence is not known here; mismatch values are drawn around q0 + progress
            let around = q0 + ended;
            let a = draw_answer(p.kind, around, rng, *n > 7);
            let _ = p.tx.send(a);
        }
        quiesce().await;
    }
    for h in handles {
        let _ = tokio::time::timeout(Duration::from_secs(5), h).await;
    }
    let log = st.w.log.lock().unwrap().clone();
    log
}

/// The honest node of spec/TxPipeline.tla: committed sequence, mempool, verdicts.
struct HonestNode {
    nseq: u64,
    pool: Vec<(u64, u64)>,              // (txid, q)
    verdict: HashMap<u64, &'static str>, // txid -> committed | rej-other | rej-seq
    owner: HashMap<u64, u64>,           // txid -> submission
}

/// Pipelined rounds against the honest node: up to 3 submissions in flight, blocks with any rejection point,
/// verdicts reported in any order; a new transaction is started only when no rejection is outstanding.
async fn record_honest(q0: u64, subs: u64, rng: &mut StdRng) -> Vec<Value> {
    let st = setup(q0, None);
    let mut node = HonestNode { nseq: q0, pool: vec![], verdict: HashMap::new(), owner: HashMap::new() };
    let mut handles = vec![];
    let mut next = 1u64;
    let mut round_left = rng.gen_range(1..=3u64).min(subs);
    let mut guard = 0;
    loop {
        guard += 1;
        let ended: Vec<u64> = st.w.log.lock().unwrap().iter().filter(|e| e["name"] == "end").map(|e| e["s"].as_u64().unwrap()).collect();
        let active = (next - 1) - ended.len() as u64;
        // a rejection whose submission has not returned yet
        let unrep = node.verdict.iter().any(|(t, v)| *v != "committed" && !ended.contains(node.owner.get(t).unwrap_or(&0)));
        let (n_b, n_s, npend) = {
            let p = st.w.pending.lock().unwrap();
            (p.iter().filter(|x| x.kind == Kind::Bcast).count(), p.iter().filter(|x| x.kind == Kind::Status).count(), p.len())
        };
        if active == 0 && round_left == 0 {
            // round over: the next round starts with the probe
            if next > subs {
                break;
            }
            round_left = rng.gen_range(1..=3u64).min(subs - next + 1);
        }
        let can_begin = round_left > 0 && next <= subs && !unrep;
        // a block only when every active submission waits for a status (nothing is being prepared)
        let can_block = !node.pool.is_empty() && n_s as u64 == active && n_b == 0;
        if guard > 3000 || (!can_begin && npend == 0 && !can_block) {
            if active != 0 {
                st.w.ev(json!({"name":"stuck","running":active}));
            }
            break;
        }
        let roll: f64 = rng.r#gen();
        if can_begin && (npend == 0 && !can_block || roll < 0.35) {
            handles.push(spawn_sub(&st, next, false));
            next += 1;
            round_left -= 1;
        } else if can_block && (npend == 0 || roll < 0.55 || (n_b == 0 && roll < 0.7)) && !(can_begin && roll >= 0.9) {
            // k = 0: all commit; otherwise the k-th is rejected for a non-sequence reason, the rest for their sequence
            let len = node.pool.len() as u64;
            let k = if rng.gen_bool(0.45) { 0 } else { rng.gen_range(1..=len) };
            for (i, (t, _)) in node.pool.iter().enumerate() {
                let i = i as u64 + 1;
                node.verdict.insert(*t, if k == 0 || i < k { "committed" } else if i == k { "rej-other" } else { "rej-seq" });
            }
            node.nseq += if k == 0 { len } else { k - 1 };
            node.pool.clear();
            st.w.ev(json!({"name":"block","s":0,"q":k,"ans":"","e":0,"tx":0,"nseq":node.nseq}));
            continue;
        } else if npend > 0 {
            let p = {
                let mut pend = st.w.pending.lock().unwrap();
                let i = rng.gen_range(0..pend.len());
                pend.remove(i)
            };
            let variant: u32 = rng.r#gen();
            let a = match p.kind {
                Kind::Bcast => {
                    let nx = node.nseq + node.pool.len() as u64;
                    let facts = json!({"nx": nx, "inflight": node.pool.len(), "unrep": unrep as u8});
                    if node.pool.iter().any(|x| x.0 == p.txid) {
                        Ans { ans: "cached".into(), e: 0, variant, facts }
                    } else if p.q == nx {
                        node.pool.push((p.txid, p.q));
                        node.owner.insert(p.txid, p.sub);
                        Ans { ans: "ok".into(), e: 0, variant, facts }
                    } else {
                        Ans { ans: "mismatch".into(), e: nx, variant, facts }
                    }
                }
                Kind::Status => {
                    let ans = match node.verdict.get(&p.txid) {
                        None => "pending",
                        Some(&"committed") => "committed",
                        Some(&"rej-other") => "rejected-other",
                        Some(_) => "rejected-seq",
                    };
                    Ans { ans: ans.into(), e: 0, variant, facts: Value::Null }
                }
                Kind::Est => Ans { ans: "ok".into(), e: 0, variant, facts: Value::Null },
            };
            let _ = p.tx.send(a);
        } else {
            continue;
        }
        quiesce().await;
    }
    for h in handles {
        let _ = tokio::time::timeout(Duration::from_secs(5), h).await;
    }
    let log = st.w.log.lock().unwrap().clone();
    log
}

async fn record_free(q0: u64, use_est: bool, subs: u64, seed: u64, rng: &mut StdRng) -> Vec<Value> {
    let st = setup(q0, Some(seed));
    let mut next = 1u64;
    while next <= subs {
        let wave = rng.gen_range(1..=3u64).min(subs - next + 1);
        let hs: Vec<_> = (0..wave).map(|k| spawn_sub(&st, next + k, use_est)).collect();
        next += wave;
        for h in hs {
            let _ = h.await;
        }
    }
    let log = st.w.log.lock().unwrap().clone();
    log
}

pub fn record(args: &Args) {
    let seed = args.opt_u64("seed", 1);
    let runs = args.opt_u64("runs", 50);
    let subs = args.opt_u64("subs", 6);
    let mode = args.opt("mode").unwrap_or("gated").to_string();
    let est = args.opt_u64("est", 0) == 1;
    let out = args.opt("out").unwrap_or_else(|| tool_error("--out"));
    let mut sum = Summary::new("txclient");
    let mut tw = TraceWriter::create(out);
    let mut rng = StdRng::seed_from_u64(seed ^ if mode == "free" { 0xf4ee } else { 0 } ^ if est { 0xe57 } else { 0 });
    let rt = if mode == "free" {
        tokio::runtime::Builder::new_multi_thread().worker_threads(4).enable_time().build().unwrap()
    } else {
        rt_paused()
    };
    let mut counts: BTreeMap<String, u64> = BTreeMap::new();
    for run in 0..runs {
        let q0 = rng.gen_range(0..40u64);
        let conc = rng.gen_range(1..=3usize);
        let log = if mode == "honest" {
            rt.block_on(record_honest(q0, subs, &mut rng))
        } else if mode == "free" {
            rt.block_on(record_free(q0, est, subs, seed.wrapping_mul(7919).wrapping_add(run), &mut rng))
        } else {
            rt.block_on(record_gated(q0, est, subs, conc, &mut rng))
        };
        tw.emit(json!({"name":"reset","run":run,"mode":mode,"est":est,"q0":q0}));
        let mut per: BTreeMap<u64, Vec<Value>> = BTreeMap::new();
        for e in &log {
            if let Some(s) = e["s"].as_u64() {
                if s != 0 {
                    per.entry(s).or_default().push(slim(e));
                }
            }
            *counts.entry(format!("{}:{}", e["name"].as_str().unwrap_or(""), e["ans"].as_str().unwrap_or(""))).or_default() += 1;
            tw.emit(e.clone());
        }
        for (s, evs) in per {
            let key = interesting(&evs).then(|| {
                evs.iter().map(|e| format!("{}{}", e["name"].as_str().unwrap(), e["ans"].as_str().unwrap())).collect::<Vec<_>>().join(",")
            });
            sum.case(PROP, key, || json!({"direction":"impl->spec","mode":mode,"est":est,"submission":s,"events":evs}));
        }
    }
    tw.finish();
    sum.set("runs", json!(runs));
    sum.set("event_counts", json!(counts));
    sum.write(args.opt("summary").unwrap_or_else(|| tool_error("--summary")));
}
