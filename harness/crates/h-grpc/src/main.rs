//! Conformance harness (see /verif/CONVENTIONS.md).
//!   <bin> replay <model> <cases.ndjson> --summary <out.json>
//!   <bin> record <model> --seed S --out <trace.ndjson> --summary <out.json>

mod failover;
mod fake;
mod proofchain;
mod txclient;

use h_common::{tool_error, Args};

fn main() {
    let args = Args::from_env();
    let mode = args.pos(0).to_string();
    let model = args.pos(1).to_string();
    h_common::quiet_panics();
    match (mode.as_str(), model.as_str()) {
        ("replay", "failover") => failover::replay(&args),
        ("record", "failover") => failover::record(&args),
        ("replay", "proofchain") => proofchain::replay(&args),
        ("replay", "txclient") => txclient::replay(&args),
        ("record", "txclient") => txclient::record(&args),
        _ => tool_error(&format!("unknown mode/model {mode}/{model}")),
    }
}
