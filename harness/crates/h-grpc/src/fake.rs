//! In-process fake gRPC node: a `tower::Service<http::Request<tonic::body::Body>>` plugged into the
//! real client through the public `GrpcClientBuilder::transport`.  No sockets, no hooks.
//!
//! A request is decoded into (uri path, headers, protobuf bytes of the single message) and handed
//! to a handler closure, whose reply becomes either a data frame plus `grpc-status: 0` trailers,
//! a trailers-only response carrying a gRPC status, or a transport-level error.

use std::convert::Infallible;
use std::fmt;
use std::sync::Arc;
use std::task::{Context, Poll};

use bytes::{BufMut, Bytes, BytesMut};
use futures::future::BoxFuture;
use http_body::Frame;
use http_body_util::{BodyExt, StreamBody};

pub struct Request {
    pub path: String,
    pub headers: http::HeaderMap,
    pub msg: Vec<u8>,
}

impl Request {
    pub fn header(&self, k: &str) -> Option<String> {
        self.headers.get(k).and_then(|v| v.to_str().ok()).map(|s| s.to_string())
    }
}

#[derive(Debug, Clone)]
pub enum Reply {
    /// protobuf bytes of the response message
    Ok(Vec<u8>),
    /// gRPC status code + message (trailers-only response)
    Status(i32, String),
    /// the transport itself fails (tower service error)
    Transport(String),
}

impl Reply {
    pub fn ok<M: prost::Message>(m: &M) -> Reply {
        Reply::Ok(m.encode_to_vec())
    }
}

pub type Handler = Arc<dyn Fn(usize, Request) -> BoxFuture<'static, Reply> + Send + Sync>;

#[derive(Clone)]
pub struct FakeTransport {
    pub id: usize,
    pub handler: Handler,
}

#[derive(Debug)]
pub struct FakeError(pub String);
impl fmt::Display for FakeError {
    fn fmt(&self, f: &mut fmt::Formatter<'_>) -> fmt::Result {
        write!(f, "fake transport error: {}", self.0)
    }
}
impl std::error::Error for FakeError {}

type FrameIter = futures::stream::Iter<std::vec::IntoIter<Result<Frame<Bytes>, Infallible>>>;
pub type FakeBody = StreamBody<FrameIter>;

fn body(frames: Vec<Frame<Bytes>>) -> FakeBody {
    StreamBody::new(futures::stream::iter(frames.into_iter().map(Ok).collect::<Vec<_>>()))
}

fn pct(s: &str) -> String {
    let mut o = String::new();
    for b in s.bytes() {
        if b.is_ascii_alphanumeric() {
            o.push(b as char)
        } else {
            o.push_str(&format!("%{b:02X}"))
        }
    }
    o
}

impl tower::Service<http::Request<tonic::body::Body>> for FakeTransport {
    type Response = http::Response<FakeBody>;
    type Error = FakeError;
    type Future = BoxFuture<'static, Result<Self::Response, Self::Error>>;

    fn poll_ready(&mut self, _: &mut Context<'_>) -> Poll<Result<(), Self::Error>> {
        Poll::Ready(Ok(()))
    }

    fn call(&mut self, req: http::Request<tonic::body::Body>) -> Self::Future {
        let handler = self.handler.clone();
        let id = self.id;
        Box::pin(async move {
            let (parts, b) = req.into_parts();
            let raw = b.collect().await.map_err(|e| FakeError(format!("request body: {e}")))?.to_bytes();
            // one length-prefixed message: 0x00 | u32 BE len | bytes
            let msg = if raw.len() >= 5 {
                let n = u32::from_be_bytes([raw[1], raw[2], raw[3], raw[4]]) as usize;
                raw[5..5 + n.min(raw.len() - 5)].to_vec()
            } else {
                vec![]
            };
            let r = Request { path: parts.uri.path().to_string(), headers: parts.headers, msg };
            match handler(id, r).await {
                Reply::Ok(bytes) => {
                    let mut buf = BytesMut::with_capacity(5 + bytes.len());
                    buf.put_u8(0);
                    buf.put_u32(bytes.len() as u32);
                    buf.put_slice(&bytes);
                    let mut trailers = http::HeaderMap::new();
                    trailers.insert("grpc-status", http::HeaderValue::from_static("0"));
                    Ok(http::Response::builder()
                        .status(200)
                        .header("content-type", "application/grpc")
                        .body(body(vec![Frame::data(buf.freeze()), Frame::trailers(trailers)]))
                        .unwrap())
                }
                Reply::Status(code, message) => Ok(http::Response::builder()
                    .status(200)
                    .header("content-type", "application/grpc")
                    .header("grpc-status", code.to_string())
                    .header("grpc-message", pct(&message))
                    .body(body(vec![]))
                    .unwrap()),
                Reply::Transport(m) => Err(FakeError(m)),
            }
        })
    }
}
