//! C09: cases of spec/ShrexEds.tla replayed on the shrex `ResponseCodec for ExtendedDataSquare`
//! (`decode_and_verify`), reached through `lumina_node::verif::shrex`.
//!
//! The case gives the real ODS width k, the mutation descriptor of the payload, the header it is
//! checked against and the app-version classes; the payload bytes are what a shrex server sends
//! (the ODS shares, row-major, nothing else) with the mutation applied to the real bytes.

use std::collections::{BTreeMap, HashMap};

use celestia_types::consts::appconsts::{AppVersion, SHARE_SIZE};
use celestia_types::eds::EdsId;
use celestia_types::{DataAvailabilityHeader, ExtendedDataSquare};
use h_common::{catch, read_cases, tool_error, Args, Summary};
use lumina_node::verif::shrex::{eds_decode_and_verify, eds_encode_response, VCodecError};
use serde_json::{json, Value};

use crate::sq::{panic_kind, Layout, Sq};

fn us(v: &Value) -> usize {
    v.as_u64().unwrap_or_else(|| tool_error(&format!("not a number: {v}"))) as usize
}

fn versions(class: &str) -> Vec<AppVersion> {
    match class {
        "old" => vec![AppVersion::V1, AppVersion::V2],
        "mid" => vec![AppVersion::V3, AppVersion::V4, AppVersion::V5],
        "new" => vec![AppVersion::V6, AppVersion::V7],
        _ => tool_error(&format!("bad app class {class}")),
    }
}

/// Byte altered by a flip.
fn flip(share: &mut [u8], f: &str) {
    match f {
        "none" => {}
        "ns" => share[28] ^= 0x01,    // last byte of the namespace id
        "nsver" => share[0] ^= 0x01,  // namespace version 0 -> 1 (unsupported)
        "info" => share[29] ^= 0x02,  // share version 0 -> 1
        "seq" => share[30] ^= 0x80,   // sequence length
        "data" => share[100] ^= 0x01, // payload
        "last" => share[SHARE_SIZE - 1] ^= 0x01,
        _ => tool_error(&format!("bad flip {f}")),
    }
}

struct Squares {
    seed: u64,
    map: HashMap<(usize, u64, bool), Sq>,
    /// honest payload of A followed by its first share again (truncations are slices of it)
    ext: HashMap<(usize, bool), Vec<u8>>,
}

impl Squares {
    fn ensure(&mut self, k: usize, tag: u64, sv1: bool) {
        let seed = self.seed;
        self.map.entry((k, tag, sv1)).or_insert_with(|| {
            if tag == TAG_E {
                if k != 1 {
                    tool_error("the empty block has ODS width 1");
                }
                Sq::from_eds(ExtendedDataSquare::empty())
            } else {
                Sq::build(k, seed, tag, Layout::RowMajor, sv1)
            }
        });
    }
    fn sq(&self, k: usize, tag: u64, sv1: bool) -> &Sq {
        &self.map[&(k, tag, sv1)]
    }
    fn ensure_ext(&mut self, k: usize, sv1: bool) {
        if !self.ext.contains_key(&(k, sv1)) {
            self.ensure(k, TAG_A, sv1);
            let sq = self.sq(k, TAG_A, sv1);
            // the honest payload is what the codec's own encoder produces for the square
            let mut b = eds_encode_response(&sq.eds);
            let flat: Vec<u8> = sq.ods.iter().flatten().copied().collect();
            if b != flat {
                tool_error("ResponseCodec::encode of the square is not the row-major ODS");
            }
            b.extend_from_slice(&sq.ods[0]);
            self.ext.insert((k, sv1), b);
        }
    }
}

const TAG_A: u64 = 0;
const TAG_B: u64 = 1;
const TAG_C: u64 = 2;
/// the genuine empty block: `ExtendedDataSquare::empty()`, ODS = one tail-padding share
const TAG_E: u64 = 3;

/// The share the specification's `ShareAt(m, t)` denotes, as (square, index, flip).
fn share_at(m: &Value, n: usize, t: usize) -> (&'static str, usize, String) {
    let kind = m["kind"].as_str().unwrap();
    let (i, j) = (us(&m["i"]), us(&m["j"]));
    let none = || "none".to_string();
    match kind {
        "honest" | "trunc" => ("A", t, none()),
        "append" => {
            if t < n {
                ("A", t, none())
            } else if i == 0 {
                ("A", n - 1, none())
            } else if i == 1 {
                ("B", (t - n) % n, none())
            } else {
                ("Z", 0, none())
            }
        }
        "swap" => {
            if t == i {
                ("A", j, none())
            } else if t == j {
                ("A", i, none())
            } else {
                ("A", t, none())
            }
        }
        "flip" => {
            if t == i {
                ("A", t, m["f"].as_str().unwrap().to_string())
            } else {
                ("A", t, none())
            }
        }
        "replace" => {
            if t == i {
                ("B", t, none())
            } else {
                ("A", t, none())
            }
        }
        "dup" => {
            if t == j {
                ("A", i, none())
            } else {
                ("A", t, none())
            }
        }
        "allB" => ("B", t, none()),
        "rotate" => ("A", (t + 1) % n, none()),
        "zeros" => ("Z", 0, none()),
        "pad" => {
            if t == i { ("T", 0, none()) } else { ("A", t, none()) }
        }
        "allpad" => ("T", 0, if t == 0 { m["f"].as_str().unwrap().to_string() } else { none() }),
        "craft" => {
            // rows of j shares; the first share of row r < 2k carries the min namespace of row root r
            let k = us(&m["k"]);
            let r = t / j;
            if t % j == 0 && r < 2 * k {
                if r < k { ("A", r * k, none()) } else { ("P", r, none()) }
            } else {
                ("A", t % n, none())
            }
        }
        _ => tool_error(&format!("unknown mutation kind {kind}")),
    }
}

/// The header's DAH with roots altered (spec: DahAlts); `other` is the DAH of another block's square
/// of the same width.  The result is not the DAH of any square the harness knows.
fn alter_dah(base: &DataAvailabilityHeader, other: &DataAvailabilityHeader, alt: &str) -> DataAvailabilityHeader {
    let mut rows = base.row_roots().to_vec();
    let mut cols = base.column_roots().to_vec();
    let w = rows.len();
    if other.row_roots().len() != w {
        tool_error("alter_dah: squares of different width");
    }
    match alt {
        "col_other" => cols[1] = other.column_roots()[1].clone(),
        "col_row" => cols[0] = rows[1].clone(),
        "col_swap" => cols.swap(0, w - 1),
        "row_other" => rows[1] = other.row_roots()[1].clone(),
        "row_col" => rows[0] = cols[1].clone(),
        "row_swap" => rows.swap(0, w - 1),
        "both" => {
            rows[1] = other.row_roots()[1].clone();
            cols[1] = other.column_roots()[1].clone();
        }
        _ => tool_error(&format!("bad DAH alteration {alt}")),
    }
    let d = DataAvailabilityHeader::new_unchecked(rows, cols);
    if d == *base {
        tool_error(&format!("DAH alteration {alt} changed nothing"));
    }
    d
}

fn stage_of(e: &VCodecError) -> &'static str {
    match e {
        VCodecError::ResponseDecode(s) if s.contains("Empty raw data") => "empty",
        VCodecError::ResponseDecode(s) if s.contains("not multiple") => "len",
        VCodecError::ResponseDecode(s) if s.contains("DAH missmatch") => "dah",
        VCodecError::ResponseDecode(_) => "shape",
        _ => "other",
    }
}

pub fn replay(args: &Args) {
    let cases = read_cases(args.pos(2));
    let seed = args.opt_u64("seed", 1);
    let mut sum = Summary::new("shrexeds");
    let mut sqs = Squares { seed, map: HashMap::new(), ext: HashMap::new() };
    let mut by_k = BTreeMap::<usize, u64>::new();
    let mut by_kind = BTreeMap::<String, u64>::new();
    let mut stages = BTreeMap::<String, u64>::new();
    let mut accepted = 0u64;

    for c in cases.iter() {
        let k = us(&c["k"]);
        let n = k * k;
        let m = &c["m"];
        let kind = m["kind"].as_str().unwrap();
        let len = us(&c["len"]);
        let tail = us(&c["tail"]);
        let demand = c["demand"].as_str().unwrap();
        let predict = c["predict"].as_str().unwrap();
        let sv1 = c["feat"].as_str().unwrap() == "sv1";
        let hdr_k = us(&c["hdr"]["k"]);
        let hdr_tag = match (c["hdr"]["sq"].as_str().unwrap(), hdr_k == k) {
            ("A", true) => TAG_A,
            ("B", true) => TAG_B,
            ("E", _) => TAG_E,
            _ => TAG_C,
        };

        // ---- the squares involved
        sqs.ensure_ext(k, sv1);
        sqs.ensure(k, TAG_A, sv1);
        sqs.ensure(k, TAG_B, sv1);
        sqs.ensure(hdr_k, hdr_tag, sv1);
        sqs.ensure(1, TAG_E, sv1);
        let sqs = &sqs;
        let a = sqs.sq(k, TAG_A, sv1);
        let b = sqs.sq(k, TAG_B, sv1);
        let pad_share = &sqs.sq(1, TAG_E, sv1).ods[0];

        // ---- the payload bytes
        let owned: Vec<u8>;
        let parity_ns = celestia_types::nmt::Namespace::PARITY_SHARE;
        let payload: &[u8] = if kind == "honest" || kind == "trunc" {
            &sqs.ext[&(k, sv1)][..len * SHARE_SIZE + tail]
        } else {
            if tail != 0 {
                tool_error("tail on a non-truncation");
            }
            let zero = vec![0u8; SHARE_SIZE];
            let mut v = Vec::with_capacity(len * SHARE_SIZE);
            for t in 0..len {
                let (sq, idx, f) = share_at(m, n, t);
                let par: Vec<u8>;
                let src = match sq {
                    "A" => &a.ods[idx],
                    "B" => &b.ods[idx],
                    "T" => pad_share,
                    "P" => {
                        // the parity share at the start of EDS row idx, carrying the parity namespace
                        let mut p = a.eds.share(idx as u16, 0).unwrap_or_else(|e| tool_error(&format!("share: {e}"))).to_vec();
                        p[..parity_ns.as_bytes().len()].copy_from_slice(parity_ns.as_bytes());
                        par = p;
                        &par
                    }
                    _ => &zero,
                };
                let at = v.len();
                v.extend_from_slice(src);
                flip(&mut v[at..], &f);
            }
            owned = v;
            &owned
        };
        // cross-check the materialisation against the shares the specification names
        for tk in c["toks"].as_array().unwrap() {
            let t = us(&tk[0]);
            let (sq, idx, f) = share_at(m, n, t);
            if sq != tk[1].as_str().unwrap() || idx != us(&tk[2]) || f != tk[3].as_str().unwrap() {
                tool_error(&format!("payload materialisation differs from the specification at {t}: {c}"));
            }
            if f == "none" && sq != "Z" && (kind == "honest" || kind == "trunc") {
                if payload[t * SHARE_SIZE..(t + 1) * SHARE_SIZE] != a.ods[idx][..] {
                    tool_error("payload bytes differ from the named share");
                }
            }
        }

        // ---- the header's square
        let hdr_alt = c["hdr"]["alt"].as_str().unwrap_or("none");
        let altered: DataAvailabilityHeader;
        let (hdr_dah, hdr_eds): (&DataAvailabilityHeader, &ExtendedDataSquare) = {
            let h = sqs.sq(hdr_k, hdr_tag, sv1);
            if hdr_alt == "none" {
                (&h.dah, &h.eds)
            } else {
                altered = alter_dah(&h.dah, &b.dah, hdr_alt);
                (&altered, &h.eds)
            }
        };

        // ---- app versions: the header's own one when the classes agree, else every member of the foreign class
        let happ = c["happ"].as_str().unwrap();
        let app = c["app"].as_str().unwrap();
        let pairs: Vec<AppVersion> = if happ == app { versions(happ) } else { versions(app) };
        let id = EdsId::new(7).unwrap();

        for av in pairs {
            let r = catch(|| eds_decode_and_verify(payload, &id, hdr_dah, av));
            let (got, stage, ret) = match r {
                Ok(Ok(eds)) => ("accept".to_string(), "".to_string(), Some(eds)),
                Ok(Err(e)) => ("reject".to_string(), stage_of(&e).to_string(), None),
                Err(p) => (format!("panic: {p}"), "".to_string(), None),
            };
            *by_k.entry(k).or_default() += 1;
            *by_kind.entry(kind.to_string()).or_default() += 1;
            if !stage.is_empty() {
                *stages.entry(stage.clone()).or_default() += 1;
            }
            let key = if demand != "either" { Some(format!("{k}/{m}/{}/{av:?}", c["hdr"])) } else { None };
            sum.case("C09", key, || json!({"case": c, "app_version": format!("{av:?}"), "got": got, "stage": stage}));

            // the returned square must be the header's square: same shares, same DAH, ODS = payload
            let mut wrong_square = None;
            if let Some(eds) = &ret {
                accepted += 1;
                let dah_ok = DataAvailabilityHeader::from_eds(eds) == *hdr_dah;
                let same = eds.data_square() == hdr_eds.data_square() && eds.square_width() == hdr_eds.square_width();
                let kk = eds.square_width() as usize / 2;
                let ods_ok = payload.len() == kk * kk * SHARE_SIZE
                    && (0..kk * kk).all(|t| {
                        eds.share((t / kk) as u16, (t % kk) as u16).map(|s| s.as_ref() == &payload[t * SHARE_SIZE..(t + 1) * SHARE_SIZE]).unwrap_or(false)
                    });
                if !(dah_ok && same && ods_ok) {
                    wrong_square = Some(format!("dah_equal={dah_ok} square_equal={same} ods_is_payload={ods_ok}"));
                }
            }
            let bad = got.starts_with("panic") || wrong_square.is_some() || (demand != "either" && got != demand);
            if bad {
                let gotk = if got.starts_with("panic") { panic_kind(&got) } else { got.clone() };
                let class = json!({"kind": kind, "demand": demand, "got": gotk, "wrong_square": wrong_square.is_some(),
                                   "hdr": if hdr_alt != "none" { "altered-dah" } else if hdr_tag == TAG_E { "empty-block" } else if hdr_tag == TAG_A { "own" } else { "other" }, "app_match": happ == app});
                sum.violation(
                    "C09",
                    json!({
                        "why": format!("k={k} {m} header {} app {av:?} (header class {happ}): demanded {demand}, decoder says {got} {stage}{}",
                                       c["hdr"], wrong_square.map(|s| format!(" but returned another square: {s}")).unwrap_or_default()),
                        "class": class, "case": c, "app_version": format!("{av:?}"), "got": got,
                    }),
                );
            } else if got != predict {
                sum.drift("C09", json!({"case": c, "app_version": format!("{av:?}"), "got": got, "predict": predict}));
            } else if got == "reject" && !c["stages"].as_array().unwrap().iter().any(|s| s.as_str() == Some(&stage)) {
                sum.drift("C09", json!({"case": c, "app_version": format!("{av:?}"), "stage": stage, "predicted_stages": c["stages"]}));
            }
        }
    }
    sum.set("by_ods_width", json!(by_k));
    sum.set("by_kind", json!(by_kind));
    sum.set("reject_stages", json!(stages));
    sum.set("accepted", json!(accepted));
    sum.set("squares_built", json!(sqs.map.len()));
    sum.write(args.opt("summary").unwrap_or_else(|| tool_error("--summary required")));
}
