//! C10: cases of spec/Multihasher.tla replayed on the real `ShwapMultihasher::hash` and
//! `get_block_container` (through `lumina_node::verif::shrex`).
//!
//! A case = (stored-heights mask, abstract block).  The abstract 4x4 square is scaled onto real
//! squares of width 4..128 (abstract index a -> a member of the a-th quarter); heights 1 and 3
//! carry square A, height 2 square B; real headers from `ExtendedHeaderGenerator`, real
//! `InMemoryStore`, real containers / CIDs / protobuf blocks.

use std::collections::{BTreeMap, HashMap};
use std::sync::Arc;

use bytes::BytesMut;
use celestia_proto::bitswap::Block;
use celestia_proto::shwap::row::HalfSide;
use celestia_proto::shwap::{Row as RawRow, RowNamespaceData as RawRnd, Sample as RawSample, Share as RawShare};
use celestia_types::nmt::Namespace;
use celestia_types::row::{Row, RowId, ROW_ID_CODEC, ROW_ID_MULTIHASH_CODE};
use celestia_types::row_namespace_data::{
    RowNamespaceData, RowNamespaceDataId, ROW_NAMESPACE_DATA_CODEC, ROW_NAMESPACE_DATA_ID_MULTIHASH_CODE,
};
use celestia_types::sample::{Sample, SampleId, SAMPLE_ID_CODEC, SAMPLE_ID_MULTIHASH_CODE};
use celestia_types::test_utils::ExtendedHeaderGenerator;
use celestia_types::consts::appconsts::AppVersion;
use celestia_types::{AxisType, ExtendedHeader};
use cid::multihash::Multihash;
use cid::CidGeneric;
use h_common::{catch, read_cases, tool_error, Args, Summary};
use lumina_node::store::{InMemoryStore, Store};
use lumina_node::verif::shrex::{
    convert_cid, get_block_container, row_decode_and_verify, row_encode_response, sample_cid, sample_decode_and_verify,
    sample_encode_response, Cid, VMultihasherError, VShwapMultihasher,
};
use prost::Message;
use rand::rngs::StdRng;
use rand::{Rng, SeedableRng};
use serde_json::{json, Value};

use crate::sq::{diag_ns, panic_kind, Layout, Sq};

fn us(v: &Value) -> usize {
    v.as_u64().unwrap_or_else(|| tool_error(&format!("not a number: {v}"))) as usize
}
fn st(v: &Value) -> &str {
    v.as_str().unwrap_or_else(|| tool_error(&format!("not a string: {v}")))
}

const WABS: usize = 4;

/// abstract index (0..3, 4 = one past the end) -> concrete index of an EDS of width w
#[derive(Clone)]
struct Scale {
    w: usize,
    off: Vec<usize>,     // per abstract EDS index
    name: &'static str,
    /// concrete height = abstract height * hscale (10 in the history replay: heights never adjacent)
    hscale: u64,
}

impl Scale {
    fn all(w: usize, seed: u64) -> Vec<Scale> {
        let block = w / WABS;
        if block == 1 {
            return vec![Scale { w, off: vec![0; WABS], name: "id", hscale: 1 }];
        }
        let mut rng = StdRng::seed_from_u64(seed ^ 0x5ca1e ^ (w as u64));
        vec![
            Scale { w, off: vec![0; WABS], name: "lo", hscale: 1 },
            Scale { w, off: vec![block - 1; WABS], name: "hi", hscale: 1 },
            Scale {
                w,
                off: (0..WABS).map(|_| rng.gen_range(0..block)).collect(),
                name: "rnd",
                hscale: 1,
            },
        ]
    }
    fn rep(&self, a: usize) -> usize {
        if a >= WABS { self.w + (a - WABS) } else { a * (self.w / WABS) + self.off[a] }
    }
}

struct World {
    a: Sq,
    b: Sq,
    headers: Vec<ExtendedHeader>, // heights 1, 2, 3
    hashers: HashMap<u64, VShwapMultihasher<InMemoryStore>>,
}

impl World {
    fn sq_at(&self, h: usize) -> &Sq {
        if h == 2 { &self.b } else { &self.a }
    }
}

fn code_of(kind: &str) -> u64 {
    match kind {
        "sample" => SAMPLE_ID_MULTIHASH_CODE,
        "row" => ROW_ID_MULTIHASH_CODE,
        "rnd" => ROW_NAMESPACE_DATA_ID_MULTIHASH_CODE,
        "sha256" => 0x12,
        "zero" => 0,
        _ => tool_error(&format!("bad code {kind}")),
    }
}

/// namespace of class n of ODS row r of a diagonal-layout square: 0, 1 = the namespace of the cell at
/// the concrete column standing for abstract column 0, 1; 2 = an absent namespace right above class 0
fn ns_of_class(sc: &Scale, r: usize, n: usize) -> Namespace {
    match n {
        0 | 1 => diag_ns(2 * (r + sc.rep(n))),
        2 => diag_ns(2 * (r + sc.rep(0)) + 1),
        _ => tool_error("bad namespace class"),
    }
}

/// (honest CID of the identifier, identifier bytes = expected digest)
fn id_cid(id: &Value, sc: &Scale) -> (Cid, Vec<u8>) {
    let h = id["h"].as_u64().unwrap() * sc.hscale;
    let (p0, p1) = (us(&id["pos"][0]), us(&id["pos"][1]));
    let mut bytes = BytesMut::new();
    let cid = match st(&id["kind"]) {
        "sample" => {
            let sid = SampleId::new(sc.rep(p0) as u16, sc.rep(p1) as u16, h).unwrap_or_else(|e| tool_error(&format!("SampleId::new: {e}")));
            sid.encode(&mut bytes);
            convert_cid(&CidGeneric::from(sid))
        }
        "row" => {
            let rid = RowId::new(sc.rep(p0) as u16, h).unwrap_or_else(|e| tool_error(&format!("RowId::new: {e}")));
            rid.encode(&mut bytes);
            convert_cid(&CidGeneric::from(rid))
        }
        "rnd" => {
            let r = sc.rep(p1);
            let ns = ns_of_class(sc, r, p0);
            let nid = RowNamespaceDataId::new(ns, r as u16, h).unwrap_or_else(|e| tool_error(&format!("RowNamespaceDataId::new: {e}")));
            nid.encode(&mut bytes);
            convert_cid(&CidGeneric::from(nid))
        }
        k => tool_error(&format!("bad id kind {k}")),
    };
    (cid.unwrap_or_else(|e| tool_error(&format!("convert_cid: {e}"))), bytes.to_vec())
}

fn other_codec(kind: &str) -> u64 {
    match kind {
        "sample" => ROW_ID_CODEC,
        "row" => SAMPLE_ID_CODEC,
        _ => ROW_ID_CODEC,
    }
}

fn cid_bytes(id: &Value, cidm: &str, sc: &Scale) -> Vec<u8> {
    let (cid, digest) = id_cid(id, sc);
    let code = cid.hash().code();
    let wrap = |code: u64, d: &[u8]| Multihash::<64>::wrap(code, d).unwrap();
    match cidm {
        "none" => cid.to_bytes(),
        "garbage" => (0..40u32).map(|i| (i.wrapping_mul(2654435761) >> 13) as u8 | 0x80).collect(),
        "empty" => vec![],
        "trunc" => {
            let mut b = cid.to_bytes();
            b.pop();
            b
        }
        "codec" => Cid::new_v1(other_codec(st(&id["kind"])), *cid.hash()).to_bytes(),
        "mhcode" => Cid::new_v1(cid.codec(), wrap(0x12, &digest)).to_bytes(),
        "size" => {
            let mut d = digest.clone();
            d.push(0);
            Cid::new_v1(cid.codec(), wrap(code, &d)).to_bytes()
        }
        "height0" => {
            let mut d = digest.clone();
            d[..8].fill(0);
            Cid::new_v1(cid.codec(), wrap(code, &d)).to_bytes()
        }
        _ => tool_error(&format!("bad cid mutation {cidm}")),
    }
}

fn flip_proof(p: &mut Option<celestia_proto::proof::pb::Proof>) {
    let p = p.as_mut().unwrap_or_else(|| tool_error("honest container without proof"));
    if let Some(n) = p.nodes.first_mut() {
        n[10] ^= 0x01;
    } else if !p.leaf_hash.is_empty() {
        p.leaf_hash[10] ^= 0x01;
    } else {
        p.end += 1;
    }
}

fn container_bytes(cont: &Value, sc: &Scale, world: &World) -> Vec<u8> {
    let sq = world.sq_at(us(&cont["h"]));
    let (p0, p1) = (us(&cont["pos"][0]), us(&cont["pos"][1]));
    let mutn = st(&cont["mut"]);
    let var = st(&cont["var"]);
    let k = sq.k;
    let honest: Vec<u8> = match st(&cont["kind"]) {
        "sample" => {
            let axis = if var == "colproof" { AxisType::Col } else { AxisType::Row };
            let s = Sample::new(sc.rep(p0) as u16, sc.rep(p1) as u16, axis, &sq.eds).unwrap_or_else(|e| tool_error(&format!("Sample::new: {e}")));
            let mut b = BytesMut::new();
            s.encode(&mut b);
            let mut raw = RawSample::decode(&b[..]).unwrap();
            match mutn {
                "share" => raw.share.as_mut().unwrap().data[100] ^= 0x01,
                "proof" => flip_proof(&mut raw.proof),
                _ => {}
            }
            raw.encode_to_vec()
        }
        "row" => {
            let r = sc.rep(p0);
            let row = Row::new(r as u16, &sq.eds).unwrap_or_else(|e| tool_error(&format!("Row::new: {e}")));
            let mut raw = if var == "right" {
                RawRow {
                    shares_half: row.shares[k..].iter().map(|s| RawShare { data: s.to_vec() }).collect(),
                    half_side: HalfSide::Right.into(),
                }
            } else {
                let mut b = BytesMut::new();
                row.encode(&mut b);
                RawRow::decode(&b[..]).unwrap()
            };
            match mutn {
                "share" => raw.shares_half[0].data[100] ^= 0x01,
                "proof" => {
                    raw.shares_half.pop();
                }
                _ => {}
            }
            raw.encode_to_vec()
        }
        "rnd" => {
            let r = sc.rep(p1);
            let ns = ns_of_class(sc, r, p0);
            let rows = sq.eds.get_namespace_data(ns, &sq.dah, 1).unwrap_or_else(|e| tool_error(&format!("get_namespace_data: {e}")));
            let (_, data): &(RowNamespaceDataId, RowNamespaceData) =
                rows.iter().find(|(id, _)| id.row_index() as usize == r).unwrap_or_else(|| tool_error("namespace not in the range of the row"));
            if (p0 == 2) != data.shares.is_empty() {
                tool_error("presence / absence of the namespace class is not as laid out");
            }
            let mut b = BytesMut::new();
            data.encode(&mut b);
            let mut raw = RawRnd::decode(&b[..]).unwrap();
            match mutn {
                "share" => {
                    if let Some(s) = raw.shares.first_mut() {
                        s.data[100] ^= 0x01
                    } else {
                        let p = raw.proof.as_mut().unwrap();
                        if p.leaf_hash.is_empty() {
                            tool_error("absence proof without leaf hash");
                        }
                        let n = p.leaf_hash.len();
                        p.leaf_hash[n - 1] ^= 0x01;
                    }
                }
                "proof" => flip_proof(&mut raw.proof),
                _ => {}
            }
            raw.encode_to_vec()
        }
        kd => tool_error(&format!("bad container kind {kd}")),
    };
    match mutn {
        "none" | "share" | "proof" => honest,
        "trunc" => honest[..honest.len() - 1].to_vec(),
        "empty" => vec![],
        "garbage" => (0..64u32).map(|i| (i.wrapping_mul(40503) >> 3) as u8 | 0x87).collect(),
        _ => tool_error(&format!("bad container mutation {mutn}")),
    }
}

/// Extra coverage (not a property claim of this group): the same blocks through
///  * the shrex `ResponseCodec` wrappers of the node for Sample / Row (C04 / C05 through the node
///    codec): length-delimited container, request = the embedded identifier, DAH of its height;
///    demanded verdict = the specification's `wire` (container well formed and verifying);
///  * the node's CID helpers `sample_cid` / `convert_cid` (node part of C15).
fn extras(c: &Value, blk: &Value, sc: &Scale, world: &World, built: &Built, sum: &mut Summary) {
    let id = &blk["id"];
    let h = id["h"].as_u64().unwrap();
    let (p0, p1) = (us(&id["pos"][0]), us(&id["pos"][1]));
    let dah = &world.sq_at(h as usize).dah;
    let wire_ok = c["wire"].as_u64().unwrap_or_else(|| tool_error("case without `wire`")) == 1;
    let mut raw = Vec::with_capacity(built.container.len() + 4);
    prost::encoding::encode_varint(built.container.len() as u64, &mut raw);
    raw.extend_from_slice(&built.container);
    let verdict = |r: Result<Result<bool, String>, String>| match r {
        Ok(Ok(true)) => "ok".to_string(),
        Ok(Ok(false)) => "ok-but-reencoding-differs".to_string(),
        Ok(Err(_)) => "err".to_string(),
        Err(p) => format!("panic: {p}"),
    };
    match st(&id["kind"]) {
        "sample" => {
            let sid = SampleId::new(sc.rep(p0) as u16, sc.rep(p1) as u16, h).unwrap();
            let got = verdict(catch(|| {
                sample_decode_and_verify(&raw, &sid, dah, AppVersion::V6).map_err(|e| format!("{e:?}")).map(|s| {
                    // what the node's encoder makes of the accepted sample decodes to the same sample
                    let again = sample_encode_response(&s);
                    sample_decode_and_verify(&again, &sid, dah, AppVersion::V6).map(|s2| sample_encode_response(&s2) == again && s2.share == s.share).unwrap_or(false)
                })
            }));
            sum.case("x-C04-shrex-codec", Some(format!("{}/{}/{}", sc.w, sc.name, blk)), || json!({"case": c, "got": got}));
            if (got == "ok") != wire_ok || got.starts_with("panic") || got.starts_with("ok-") {
                sum.violation("x-C04-shrex-codec", json!({"why": format!("width {} scale {}: shrex Sample decode_and_verify of {} demanded {}, got {got}", sc.w, sc.name, blk, wire_ok),
                    "class": {"op": "shrex-sample", "demand": wire_ok, "got": got}, "case": c, "width": sc.w, "scale": sc.name}));
            }
            // node CID helper: sample_cid = the converted CID of the identifier, and it reads back as the identifier
            let r = catch(|| sample_cid(sc.rep(p0) as u16, sc.rep(p1) as u16, h));
            let want = convert_cid(&CidGeneric::from(sid)).unwrap();
            let good = matches!(&r, Ok(Ok(cid)) if *cid == want && cid.codec() == SAMPLE_ID_CODEC && cid.hash().code() == SAMPLE_ID_MULTIHASH_CODE
                && SampleId::try_from(*cid).ok() == Some(sid));
            sum.case("x-C15-node-cid", Some(format!("s/{}/{}/{}", sc.rep(p0), sc.rep(p1), h)), || json!({"id": id, "ok": good}));
            if !good {
                sum.violation("x-C15-node-cid", json!({"why": format!("sample_cid({}, {}, {h}) = {r:?}", sc.rep(p0), sc.rep(p1)), "class": {"op": "sample_cid"}}));
            }
            let r0 = catch(|| sample_cid(sc.rep(p0) as u16, sc.rep(p1) as u16, 0));
            if !matches!(r0, Ok(Err(_))) {
                sum.violation("x-C15-node-cid", json!({"why": format!("sample_cid at height 0 = {r0:?}"), "class": {"op": "sample_cid-height0"}}));
            }
        }
        "row" => {
            let rid = RowId::new(sc.rep(p0) as u16, h).unwrap();
            let got = verdict(catch(|| {
                row_decode_and_verify(&raw, &rid, dah, AppVersion::V6).map_err(|e| format!("{e:?}")).map(|r| {
                    let again = row_encode_response(&r);
                    row_decode_and_verify(&again, &rid, dah, AppVersion::V6).map(|r2| r2.shares == r.shares).unwrap_or(false)
                })
            }));
            sum.case("x-C05-shrex-codec", Some(format!("{}/{}/{}", sc.w, sc.name, blk)), || json!({"case": c, "got": got}));
            if (got == "ok") != wire_ok || got.starts_with("panic") || got.starts_with("ok-") {
                sum.violation("x-C05-shrex-codec", json!({"why": format!("width {} scale {}: shrex Row decode_and_verify of {} demanded {}, got {got}", sc.w, sc.name, blk, wire_ok),
                    "class": {"op": "shrex-row", "demand": wire_ok, "got": got}, "case": c, "width": sc.w, "scale": sc.name}));
            }
            let cid64 = convert_cid(&CidGeneric::from(rid));
            let good = matches!(&cid64, Ok(cid) if cid.codec() == ROW_ID_CODEC && cid.hash().code() == ROW_ID_MULTIHASH_CODE && RowId::try_from(*cid).ok() == Some(rid));
            sum.case("x-C15-node-cid", Some(format!("r/{}/{}", sc.rep(p0), h)), || json!({"id": id, "ok": good}));
            if !good {
                sum.violation("x-C15-node-cid", json!({"why": format!("convert_cid(row id {rid:?}) = {cid64:?}"), "class": {"op": "convert_cid-row"}}));
            }
        }
        _ => {
            let r = sc.rep(p1);
            let nid = RowNamespaceDataId::new(ns_of_class(sc, r, p0), r as u16, h).unwrap();
            let cid64 = convert_cid(&CidGeneric::from(nid));
            let good = matches!(&cid64, Ok(cid) if cid.codec() == ROW_NAMESPACE_DATA_CODEC && cid.hash().code() == ROW_NAMESPACE_DATA_ID_MULTIHASH_CODE
                && RowNamespaceDataId::try_from(*cid).ok() == Some(nid));
            sum.case("x-C15-node-cid", Some(format!("n/{p0}/{r}/{h}")), || json!({"id": id, "ok": good}));
            if !good {
                sum.violation("x-C15-node-cid", json!({"why": format!("convert_cid(rnd id {nid:?}) = {cid64:?}"), "class": {"op": "convert_cid-rnd"}}));
            }
        }
    }
}

struct Built {
    code: u64,
    block: Vec<u8>,
    container: Vec<u8>,
    /// (code, digest) the multihasher must answer when it answers
    id_hash: (u64, Vec<u8>),
    want: Cid,
}

fn build_block(b: &Value, sc: &Scale, world: &World) -> Built {
    let container = container_bytes(&b["cont"], sc, world);
    let cid = cid_bytes(&b["id"], st(&b["cidm"]), sc);
    let block = match st(&b["blockm"]) {
        "none" => Block { cid, container: container.clone() }.encode_to_vec(),
        "garbage" => vec![0xff; 48],
        "empty" => vec![],
        m => tool_error(&format!("bad block mutation {m}")),
    };
    let (_, digest) = id_cid(&b["id"], sc);
    let (want, _) = id_cid(&b["want"], sc);
    Built { code: code_of(st(&b["code"])), block, container, id_hash: (code_of(st(&b["id"]["kind"])), digest), want }
}

/// C10 histories (spec/MultihasherSeq.tla): every TLC-generated behaviour = initial store + L
/// operations (insert header committing to square A/B as new head, remove a height, hash a block) is
/// replayed on ONE real `ShwapMultihasher` holding an `Arc` of ONE real `InMemoryStore` that is mutated
/// underneath it; each hash must be answered as the specification demands for the store contents
/// at that moment.  Abstract height h is the real height 10 * h (never adjacent: no neighbour checks).
pub fn replay_seq(args: &Args) {
    let lines = read_cases(args.pos(2));
    let seed = args.opt_u64("seed", 1);
    let widths: Vec<usize> = args.opt("widths").unwrap_or("4,8").split(',').map(|s| s.parse().unwrap()).collect();
    let rt = tokio::runtime::Builder::new_current_thread().enable_all().build().unwrap();
    let mut sum = Summary::new("multihasherseq");
    let table: Vec<(String, Value)> = lines
        .iter()
        .find_map(|l| l.get("table"))
        .unwrap_or_else(|| tool_error("no block table in the case file"))
        .as_array()
        .unwrap()
        .iter()
        .map(|e| (e["key"].to_string(), e["b"].clone()))
        .collect();
    let mut outcomes = BTreeMap::<String, u64>::new();
    let mut behaviours = 0u64;
    const HS: u64 = 10;
    for &w in &widths {
        let a = Sq::build(w / 2, seed, 0, Layout::Diag, false);
        let b = Sq::build(w / 2, seed, 1, Layout::Diag, false);
        // a header for every (height, square), each from a generator of its own
        let mut hdr: HashMap<(u64, String), ExtendedHeader> = HashMap::new();
        for h in 1..=2u64 {
            for (name, sq) in [("A", &a), ("B", &b)] {
                let hd = ExtendedHeaderGenerator::new_from_height(h * HS).next_with_dah(sq.dah.clone());
                if hd.height() != h * HS {
                    tool_error("generated header has an unexpected height");
                }
                hdr.insert((h, name.to_string()), hd);
            }
        }
        let world = World { a, b, headers: vec![], hashers: HashMap::new() };
        let mut sc = Scale::all(w, seed).pop().unwrap();
        sc.hscale = HS;
        let built: HashMap<String, Built> = table.iter().map(|(k, blk)| (k.clone(), build_block(blk, &sc, &world))).collect();
        for c in lines.iter().filter(|l| l.get("ops").is_some()) {
            behaviours += 1;
            let store = Arc::new(InMemoryStore::new());
            for (i, sq) in c["init"].as_array().unwrap().iter().enumerate() {
                if st(sq) != "none" {
                    rt.block_on(store.insert(hdr[&(i as u64 + 1, st(sq).to_string())].clone()))
                        .unwrap_or_else(|e| tool_error(&format!("initial insert: {e}")));
                }
            }
            // the one long-lived multihasher of this behaviour
            let hasher = VShwapMultihasher::new(store.clone());
            for (n, op) in c["ops"].as_array().unwrap().iter().enumerate() {
                let h = op["h"].as_u64().unwrap();
                match st(&op["op"]) {
                    "insert" => rt
                        .block_on(store.insert(hdr[&(h, st(&op["sq"]).to_string())].clone()))
                        .unwrap_or_else(|e| tool_error(&format!("store refused an insert the specification allows: {e} in {c}"))),
                    "remove" => rt
                        .block_on(store.remove_height(h * HS))
                        .unwrap_or_else(|e| tool_error(&format!("store refused a removal the specification allows: {e} in {c}"))),
                    "hash" => {
                        let bl = &built[&op["key"].to_string()];
                        let demand_ok = op["res"].as_u64().unwrap() == 1;
                        let r = catch(|| rt.block_on(hasher.hash(bl.code, &bl.block)));
                        let (got, wrong_hash) = match &r {
                            Ok(Ok(hh)) => ("ok".to_string(), *hh != bl.id_hash),
                            Ok(Err(_)) => ("err".to_string(), false),
                            Err(p) => (format!("panic: {p}"), false),
                        };
                        *outcomes.entry(format!("hash:{}", if got.starts_with("panic") { "panic" } else { &got })).or_default() += 1;
                        let prefix = serde_json::to_string(&c["ops"].as_array().unwrap()[..=n]).unwrap();
                        let kh = {
                            use std::hash::{Hash, Hasher};
                            let mut hs = std::collections::hash_map::DefaultHasher::new();
                            (w, c["init"].to_string(), &prefix).hash(&mut hs);
                            hs.finish()
                        };
                        sum.case("C10", Some(format!("seq/{kh:x}")), || json!({"behaviour": c, "step": n, "width": w, "got": got}));
                        if got.starts_with("panic") || wrong_hash || (got == "ok") != demand_ok {
                            let before: Vec<&str> = c["ops"].as_array().unwrap()[..n].iter().map(|o| st(&o["op"])).collect();
                            let same_h = |name: &str| c["ops"].as_array().unwrap()[..n].iter().any(|o| st(&o["op"]) == name && o["h"].as_u64() == Some(h));
                            let gotk = if got.starts_with("panic") { panic_kind(&got) } else { got.clone() };
                            let class = json!({"op": "hash-in-history", "demand": if demand_ok { "ok" } else { "err" }, "got": gotk, "wrong_hash": wrong_hash,
                                               "kind": op["key"][0], "after_remove_of_height": same_h("remove"), "after_insert_at_height": same_h("insert"),
                                               "after_hash_of_height": same_h("hash")});
                            sum.violation(
                                "C10",
                                json!({
                                    "why": format!("width {w}: initial store {} then {:?} then hash({}) at step {n}: demanded {} for the current store, code says {got}",
                                                   c["init"], before, op["key"], if demand_ok { "ok(id hash)" } else { "error" }),
                                    "class": class, "seq": c, "step": n, "width": w, "got": got,
                                    "table": table.iter().map(|(_, b)| json!({"key": [b["code"], b["id"]["h"], b["cont"]["h"]], "b": b})).collect::<Vec<_>>(),
                                }),
                            );
                        }
                    }
                    o => tool_error(&format!("bad op {o}")),
                }
            }
        }
    }
    sum.set("outcomes", json!(outcomes));
    sum.set("behaviours", json!(behaviours));
    sum.write(args.opt("summary").unwrap_or_else(|| tool_error("--summary required")));
}

pub fn replay(args: &Args) {
    let cases = read_cases(args.pos(2));
    let seed = args.opt_u64("seed", 1);
    let widths: Vec<usize> = args.opt("widths").unwrap_or("4,8,16").split(',').map(|s| s.parse().unwrap()).collect();
    let only_scale = args.opt("scale");
    let rt = tokio::runtime::Builder::new_current_thread().enable_all().build().unwrap();
    let mut sum = Summary::new("multihasher");
    let mut by_width = BTreeMap::<String, u64>::new();
    let mut outcomes = BTreeMap::<String, u64>::new();

    for &w in &widths {
        if w % WABS != 0 || w < WABS {
            tool_error("width must be a multiple of 4");
        }
        let a = Sq::build(w / 2, seed, 0, Layout::Diag, false);
        let b = Sq::build(w / 2, seed, 1, Layout::Diag, false);
        let mut generator = ExtendedHeaderGenerator::new();
        let headers = vec![
            generator.next_with_dah(a.dah.clone()),
            generator.next_with_dah(b.dah.clone()),
            generator.next_with_dah(a.dah.clone()),
        ];
        let mut world = World { a, b, headers, hashers: HashMap::new() };
        for mask in (0u64..16).step_by(2) {
            let store = Arc::new(InMemoryStore::new());
            for h in 1..=3u64 {
                if mask & (1 << h) != 0 {
                    let hd = world.headers[h as usize - 1].clone();
                    if hd.height() != h {
                        tool_error("generated header has an unexpected height");
                    }
                    rt.block_on(store.insert(hd)).unwrap_or_else(|e| tool_error(&format!("store insert: {e}")));
                }
            }
            world.hashers.insert(mask, VShwapMultihasher::new(store));
        }
        for sc in Scale::all(w, seed) {
            if only_scale.is_some_and(|s| s != sc.name && sc.name != "id") {
                continue;
            }
            let mut cache: HashMap<String, Built> = HashMap::new();
            for c in cases.iter() {
                let blk = &c["b"];
                let mask = c["stored"].as_u64().unwrap();
                let key = blk.to_string();
                if !cache.contains_key(&key) {
                    cache.insert(key.clone(), build_block(blk, &sc, &world));
                }
                let built = &cache[&key];
                let hasher = world.hashers.get(&mask).unwrap_or_else(|| tool_error("bad stored mask"));
                let demand_ok = c["hash"].as_u64().unwrap() == 1;

                // ---- ShwapMultihasher::hash
                let r = catch(|| rt.block_on(hasher.hash(built.code, &built.block)));
                let (got, cls, wrong_hash) = match &r {
                    Ok(Ok(h)) => ("ok".to_string(), "ok", *h != built.id_hash),
                    Ok(Err(VMultihasherError::UnknownMultihashCode)) => ("err".to_string(), "unknown-code", false),
                    Ok(Err(VMultihasherError::CustomFatal(_))) => ("err".to_string(), "fatal", false),
                    Ok(Err(_)) => ("err".to_string(), "other", false),
                    Err(p) => (format!("panic: {p}"), "panic", false),
                };
                *by_width.entry(format!("{w}/{}", sc.name)).or_default() += 1;
                *outcomes.entry(format!("hash:{cls}")).or_default() += 1;
                let kh = {
                    use std::hash::{Hash, Hasher};
                    let mut hs = std::collections::hash_map::DefaultHasher::new();
                    key.hash(&mut hs);
                    hs.finish()
                };
                let nontrivial = Some(format!("{w}/{}/{mask}/{kh:x}", sc.name));
                sum.case("C10", nontrivial, || json!({"case": c, "width": w, "scale": sc.name, "got": got, "class": cls}));
                let bad = got.starts_with("panic") || wrong_hash || (got == "ok") != demand_ok;
                if bad {
                    let gotk = if got.starts_with("panic") { panic_kind(&got) } else { got.clone() };
                    let class = json!({"op": "hash", "demand": if demand_ok { "ok" } else { "err" }, "got": gotk, "wrong_hash": wrong_hash,
                                       "kind": blk["cont"]["kind"], "code": blk["code"], "cidm": blk["cidm"], "blockm": blk["blockm"],
                                       "cont_mut": blk["cont"]["mut"], "own_id": blk["id"] == blk["want"],
                                       "height_stored": mask & (1 << blk["id"]["h"].as_u64().unwrap()) != 0});
                    sum.violation(
                        "C10",
                        json!({
                            "why": format!("width {w} scale {} stored mask {mask}: hash({}, block {}) demanded {}, code says {got} ({cls}){}",
                                           sc.name, blk["code"], blk, if demand_ok { "ok(id hash)" } else { "error" },
                                           if wrong_hash { " with a hash that is not the embedded identifier's" } else { "" }),
                            "class": class, "case": c, "width": w, "scale": sc.name, "got": got,
                        }),
                    );
                } else if cls != st(&c["cls"]) {
                    sum.drift("C10", json!({"case": c, "width": w, "got_class": cls, "predicted_class": c["cls"]}));
                }

                // ---- get_block_container (independent of the store: once per block)
                if mask == 0 {
                    let ex_ok = c["extract"].as_u64().unwrap() == 1;
                    let r = catch(|| get_block_container(&built.want, &built.block));
                    let (got, wrong) = match &r {
                        Ok(Ok(bytes)) => ("ok".to_string(), *bytes != built.container),
                        Ok(Err(_)) => ("err".to_string(), false),
                        Err(p) => (format!("panic: {p}"), false),
                    };
                    *outcomes.entry(format!("extract:{}", if got.starts_with("panic") { "panic" } else { &got })).or_default() += 1;
                    sum.case("C10", Some(format!("x/{w}/{}/{kh:x}", sc.name)), || json!({"case": c, "op": "extract", "got": got}));
                    if got.starts_with("panic") || wrong || (got == "ok") != ex_ok {
                        let gotk = if got.starts_with("panic") { panic_kind(&got) } else { got.clone() };
                        let class = json!({"op": "extract", "demand": if ex_ok { "ok" } else { "err" }, "got": gotk, "wrong_container": wrong,
                                           "cidm": blk["cidm"], "blockm": blk["blockm"], "own_id": blk["id"] == blk["want"]});
                        sum.violation(
                            "C10",
                            json!({
                                "why": format!("width {w} scale {}: get_block_container(want {}, block {}) demanded {}, code says {got}",
                                               sc.name, blk["want"], blk, if ex_ok { "ok(container)" } else { "error" }),
                                "class": class, "case": c, "width": w, "scale": sc.name, "got": got,
                            }),
                        );
                    }
                    if st(&blk["blockm"]) == "none" && st(&blk["cidm"]) == "none" && !args.0.iter().any(|a| a == "--no-extras") {
                        extras(c, blk, &sc, &world, built, &mut sum);
                    }
                }
            }
        }
    }
    // a CID whose digest does not fit the node's 64-byte multihash is refused by convert_cid
    {
        let big = cid::CidGeneric::<128>::new_v1(0x55, Multihash::<128>::wrap(0x12, &[7u8; 65]).unwrap());
        let r = catch(|| convert_cid(&big));
        sum.case("x-C15-node-cid", Some("oversize".into()), || json!({"oversize": format!("{r:?}")}));
        if !matches!(r, Ok(Err(_))) {
            sum.violation("x-C15-node-cid", json!({"why": format!("convert_cid of a 65-byte digest = {r:?}"), "class": {"op": "convert_cid-oversize"}}));
        }
    }
    sum.set("by_width_scale", json!(by_width));
    sum.set("outcomes", json!(outcomes));
    sum.write(args.opt("summary").unwrap_or_else(|| tool_error("--summary required")));
}
