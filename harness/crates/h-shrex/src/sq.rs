//! Real squares for the symbolic squares of spec/ShrexEds.tla and spec/Multihasher.tla:
//! pairwise distinct shares, real Reed-Solomon parity, real DAH.

use std::collections::HashSet;

use celestia_types::consts::appconsts::{AppVersion, SHARE_SIZE};
use celestia_types::nmt::Namespace;
use celestia_types::{DataAvailabilityHeader, ExtendedDataSquare};
use h_common::tool_error;
use rand::rngs::StdRng;
use rand::{Rng, SeedableRng};

/// Namespace layout of an ODS of width k.
#[derive(Clone, Copy, PartialEq, Eq, Hash, Debug)]
pub enum Layout {
    /// row-major blocks of the ascending 5-element palette: `NsOf(t, n) = t * 5 / n` (ShrexEds.tla)
    RowMajor,
    /// namespace value 2 * (row + col): every ODS row holds k distinct namespaces with gaps between
    /// them (Multihasher.tla: first / last / absent namespace of a row)
    Diag,
}

pub fn palette() -> Vec<Namespace> {
    vec![
        Namespace::PAY_FOR_BLOB,
        Namespace::new_v0(&[0x11, 0x01]).unwrap(),
        Namespace::new_v0(&[0x11, 0x02]).unwrap(),
        Namespace::new_v0(&[0x40, 0x00, 0x07]).unwrap(),
        Namespace::TAIL_PADDING,
    ]
}

/// Namespace with value v of the diagonal layout.
pub fn diag_ns(v: usize) -> Namespace {
    Namespace::new_v0(&[0x20, (v >> 8) as u8, (v & 0xff) as u8]).unwrap()
}

pub struct Sq {
    pub k: usize,
    /// ODS shares, row-major
    pub ods: Vec<Vec<u8>>,
    pub eds: ExtendedDataSquare,
    pub dah: DataAvailabilityHeader,
}

/// The ODS shares only (no extension).
pub fn ods_shares(k: usize, seed: u64, tag: u64, layout: Layout, sv1: bool) -> Vec<Vec<u8>> {
    let mut rng = StdRng::seed_from_u64(seed ^ ((k as u64) << 32) ^ (tag << 48) ^ 0x5e3d);
    let pal = palette();
    let n = k * k;
    let mut ods = Vec::with_capacity(n);
    for t in 0..n {
        let (ns, user) = match layout {
            Layout::RowMajor => {
                let p = t * pal.len() / n;
                (pal[p], p < pal.len() - 1)
            }
            Layout::Diag => (diag_ns(2 * (t / k + t % k)), true),
        };
        let mut v = Vec::with_capacity(SHARE_SIZE);
        v.extend_from_slice(ns.as_bytes());
        // info byte: sequence start, share version 0 (or 1 for the "sv1" squares)
        v.push(if sv1 && user { 0x03 } else { 0x01 });
        v.extend_from_slice(&400u32.to_be_bytes());
        while v.len() < SHARE_SIZE {
            v.push(rng.r#gen());
        }
        ods.push(v);
    }
    ods
}

impl Sq {
    /// A given square (e.g. `ExtendedDataSquare::empty()`).
    pub fn from_eds(eds: ExtendedDataSquare) -> Sq {
        let k = eds.square_width() as usize / 2;
        let ods = (0..k * k).map(|t| eds.share((t / k) as u16, (t % k) as u16).unwrap().to_vec()).collect();
        let dah = DataAvailabilityHeader::from_eds(&eds);
        Sq { k, ods, eds, dah }
    }

    pub fn build(k: usize, seed: u64, tag: u64, layout: Layout, sv1: bool) -> Sq {
        let ods = ods_shares(k, seed, tag, layout, sv1);
        // the newest app version admits every square the harness makes
        let eds = ExtendedDataSquare::from_ods(ods.clone(), AppVersion::V7)
            .unwrap_or_else(|e| tool_error(&format!("from_ods of a generated square (k={k}): {e}")));
        let mut seen = HashSet::new();
        if k > 1 {
            for s in eds.data_square() {
                if !seen.insert(s.to_vec()) {
                    tool_error("generated square has two equal shares");
                }
            }
        }
        let dah = DataAvailabilityHeader::from_eds(&eds);
        Sq { k, ods, eds, dah }
    }

}

/// Coarse kind of a panic message (part of the finding class).
pub fn panic_kind(msg: &str) -> String {
    if msg.contains("unwrap()") {
        "panic:unwrap".to_string()
    } else if msg.contains("overflow") {
        "panic:overflow".to_string()
    } else if msg.contains("index out of bounds") || msg.contains("out of range") {
        "panic:index".to_string()
    } else {
        "panic:other".to_string()
    }
}
