//! Conformance harness (see /verif/CONVENTIONS.md).
//!   <bin> replay <model> <cases.ndjson> --summary <out.json>

use h_common::{tool_error, Args};

mod eds;
mod mh;
mod sq;

fn main() {
    let args = Args::from_env();
    let mode = args.pos(0).to_string();
    let model = args.pos(1).to_string();
    h_common::quiet_panics();
    match (mode.as_str(), model.as_str()) {
        ("replay", "shrexeds") => eds::replay(&args),
        ("replay", "multihasher") => mh::replay(&args),
        ("replay", "multihasherseq") => mh::replay_seq(&args),
        _ => tool_error(&format!("unknown mode/model {mode}/{model}")),
    }
}
