//! Shared helpers: the two-block embedding of u64, header chains, a paused-clock runtime.

use celestia_types::test_utils::ExtendedHeaderGenerator;
use celestia_types::ExtendedHeader;
use tendermint::Time;

/// Model constant standing for u64::MAX.
pub const M: u64 = 1 << 20;

/// Two-block embedding (DESIGN 4): v < M/2 is itself, v >= M/2 is u64::MAX - (M - v).
pub fn emb(v: u64) -> u64 {
    if v < M / 2 { v } else { u64::MAX - (M - v) }
}

/// A chain of `n` valid, adjacent headers of heights 1..=n (index h-1), times well in the past.
pub fn chain(n: u64) -> (ExtendedHeaderGenerator, Vec<ExtendedHeader>) {
    let mut g = ExtendedHeaderGenerator::new();
    let start = (Time::now() - std::time::Duration::from_secs(n * 2 + 3600)).unwrap();
    g.set_time(start, std::time::Duration::from_secs(1));
    let hs = g.next_many_empty(n);
    (g, hs)
}

/// Current-thread runtime with a paused clock: timers fire exactly when everything else is idle.
pub fn runtime() -> tokio::runtime::Runtime {
    tokio::runtime::Builder::new_current_thread().enable_time().start_paused(true).build().unwrap()
}
