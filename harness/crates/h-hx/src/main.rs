//! Conformance harness of the header-ex group (C28..C32); see /verif/CONVENTIONS.md.
//!   h-hx replay <model> <cases.ndjson> --summary <out.json>
//!   h-hx record <model> --seed S --out <trace.ndjson> --summary <out.json>

use h_common::{tool_error, Args};

mod client;
mod common;
mod decode;
mod framing;
mod server;

fn main() {
    let args = Args::from_env();
    let mode = args.pos(0).to_string();
    let model = args.pos(1).to_string();
    h_common::quiet_panics();
    match (mode.as_str(), model.as_str()) {
        ("replay", "hxserver") => server::replay(&args),
        ("replay", "hxdecode") => decode::replay(&args),
        ("replay", "hxframing") => framing::replay(&args),
        ("replay", "hxclient") => client::replay(&args),
        ("record", "hxclient") => client::record(&args),
        _ => tool_error(&format!("unknown mode/model {mode}/{model}")),
    }
}
