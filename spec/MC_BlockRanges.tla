--------------------------- MODULE MC_BlockRanges ---------------------------
EXTENDS BlockRanges
\* op/res are observation variables: hide them from the fingerprint.
View == S
=============================================================================
