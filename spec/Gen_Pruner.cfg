CONSTANTS
  WSamp = 3
  WPrune = 2
  MaxBatch = 512
  N = 4
  Pols = {0, 1, 2, 3}
INIT GInit
NEXT GNext
INVARIANTS Emit SafeRemoval
CHECK_DEADLOCK FALSE
