---------------------------- MODULE FailoverProp ----------------------------
(***************************************************************************)
(* C44, property layer.  Observables only: per call the `start`, the       *)
(* attempts (endpoint, result kind) in the order the endpoints saw them,   *)
(* and the `end` (ok / err).  The clauses of the statement are predicates  *)
(* over this history:                                                      *)
(*   P1  a call ends with an error only after every configured endpoint    *)
(*       failed with a network error, or some endpoint returned a          *)
(*       non-network error;                                                *)
(*   P2  sequentially, the endpoint that succeeded is the first one tried  *)
(*       by the next call;                                                 *)
(*   P3  the set of endpoints never changes: a call only meets configured  *)
(*       endpoints and none of them twice (with P1: an all-network failure *)
(*       has met every one of them).                                       *)
(* "Sequentially" is read strictly: call d is sequential after call c iff  *)
(* c was the only running call during its whole life, d starts after c     *)
(* ended and no other call is running when d starts.                       *)
(***************************************************************************)
EXTENDS Naturals, Sequences, FiniteSets

CONSTANT Calls            \* call identifiers
VARIABLES n,              \* number of configured endpoints (endpoints are 1..n)
          att,            \* att[c]  = sequence of <<endpoint, kind>> met by call c
          st,             \* st[c]   \in {"idle", "run", "ok", "err", ...}
          solo,           \* solo[c] = c has been the only running call since its start
          must,           \* must[c] = <<e>> if the statement pins c's first endpoint, else <<>>
          pred            \* <<e>> = endpoint on which the last call, run alone, succeeded

pvars == <<n, att, st, solo, must, pred>>
Eps   == 1..n
Kinds == {"ok", "net", "app"}        \* success, network error, non-network error

PInit(k) == /\ n = k
            /\ att  = [c \in Calls |-> <<>>]
            /\ st   = [c \in Calls |-> "idle"]
            /\ solo = [c \in Calls |-> FALSE]
            /\ must = [c \in Calls |-> <<>>]
            /\ pred = <<>>

Running == {c \in Calls : st[c] = "run"}

ObsStart(c) ==
    /\ st[c] = "idle"
    /\ st'   = [st EXCEPT ![c] = "run"]
    /\ solo' = [d \in Calls |-> IF d = c THEN Running = {} ELSE IF d \in Running THEN FALSE ELSE solo[d]]
    \* a call that has not met its first endpoint yet may take its snapshot after d's store:
    \* it is no longer "sequentially next"
    /\ must' = [d \in Calls |-> IF d = c THEN (IF Running = {} THEN pred ELSE <<>>)
                                ELSE IF d \in Running /\ att[d] = <<>> THEN <<>> ELSE must[d]]
    /\ UNCHANGED <<n, att, pred>>

ObsAttempt(c, e, r) ==
    /\ st[c] = "run"
    /\ att' = [att EXCEPT ![c] = Append(@, <<e, r>>)]
    /\ UNCHANGED <<n, st, solo, must, pred>>

LastOk(c) == IF Len(att[c]) > 0 /\ att[c][Len(att[c])][2] = "ok" THEN <<att[c][Len(att[c])][1]>> ELSE <<>>

ObsEnd(c, res) ==
    /\ st[c] = "run"
    /\ st'   = [st EXCEPT ![c] = res]
    /\ pred' = IF solo[c] /\ res = "ok" THEN LastOk(c) ELSE <<>>
    /\ UNCHANGED <<n, att, solo, must>>

(* ---- the clauses ---- *)
Idx(c)    == 1..Len(att[c])
NetEps(c) == {att[c][i][1] : i \in {j \in Idx(c) : att[c][j][2] = "net"}}
HasKind(c, k) == \E i \in Idx(c) : att[c][i][2] = k

P1(c)   == st[c] = "err" => (HasKind(c, "app") \/ NetEps(c) = Eps)
P2(c)   == (Len(att[c]) > 0 /\ must[c] # <<>>) => att[c][1][1] = must[c][1]
P3(c)   == \A i \in Idx(c) : /\ att[c][i][1] \in Eps
                             /\ \A j \in Idx(c) : i # j => att[c][i][1] # att[c][j][1]
POk(c)  == st[c] = "ok" => HasKind(c, "ok")
PRes(c) == st[c] \in {"idle", "run", "ok", "err"}

Violated ==
    IF \E c \in Calls : ~PRes(c) THEN "outcome-neither-ok-nor-error"
    ELSE IF \E c \in Calls : ~P1(c) THEN "P1-error-without-cause"
    ELSE IF \E c \in Calls : ~P2(c) THEN "P2-successful-endpoint-not-first"
    ELSE IF \E c \in Calls : ~P3(c) THEN "P3-endpoint-set-changed"
    ELSE IF \E c \in Calls : ~POk(c) THEN "ok-without-successful-endpoint"
    ELSE ""

PropOK == Violated = ""
=============================================================================
