----------------------------- MODULE Gen_Counter ----------------------------
(* spec -> impl: every behaviour (interleaving) of the N guards and the waiter, printed  *)
(* as one JSON line when it reaches its terminal state.  `hist` records, per step, who   *)
(* moved and the model state after the step - the observations the real threads must     *)
(* reproduce when the interleaving is forced on them through the schedule points.        *)
(* Guards are interchangeable, so only behaviours whose guards start dropping in index   *)
(* order are generated (symmetry breaking; the real threads are identical).              *)
EXTENDS Counter, Sequences, Json, TLC
VARIABLE hist
gvars == <<vars, hist>>

Ordered(g) == \A k \in Guards : k < g => gpc[k] # "held"
Rec(who, g) == [who |-> who, g |-> g, count |-> count', wpc |-> wpc', epoch |-> epoch',
                exit |-> IF g = 0 THEN "none" ELSE exitk'[g]]
Terminal == wpc = "Done" /\ \A g \in Guards : gpc[g] = "done"

GenStep == \/ \E g \in Guards : /\ Ordered(g) /\ G1(g) /\ hist' = Append(hist, Rec("G1", g))
           \/ \E g \in Guards : /\ G2(g) /\ hist' = Append(hist, Rec("G2", g))
           \/ /\ WNext /\ hist' = Append(hist, Rec("W", 0))
GenInit == Init /\ hist = <<>>
GenNext == /\ GenStep
           /\ Terminal' => PrintT(ToJson([n |-> N, steps |-> hist']))
=============================================================================
