------------------------------ MODULE SyncerFetch -----------------------------
(***************************************************************************)
(* C24 / C25 under concurrency: Worker::fetch_next_batch (node/src/syncer.rs) *)
(* is not one atomic step.  It reads the stored ranges, then the pruned    *)
(* ranges, then the header right above the batch (three store calls, each  *)
(* an await), while the pruner -- another task on the same store -- may    *)
(* remove headers between any two of them.  Syncer.tla treats the section  *)
(* as one action; this module refines exactly that section, one action per *)
(* store call, with the pruner's removals, sampling marks and the clock    *)
(* interleaved.                                                            *)
(*                                                                         *)
(*   ReadOrder = "SP": stored ranges first, then pruned ranges (the code)  *)
(*             = "PS": the other way round (a design that must be refuted) *)
(*   Recheck   = TRUE: when the header above the batch is not found, the   *)
(*               pruned ranges are read again (the repaired code)          *)
(*             = FALSE: the snapshot taken before is consulted             *)
(***************************************************************************)
EXTENDS Naturals, FiniteSets, Sequences, Ranges, SyncRange

CONSTANTS N, Batch, WSamp, WPrune, ReadOrder, Recheck, MaxNow

VARIABLES stored, pruned, sampled, now, subj,
          pc,            \* "idle" | "r1" | "r2" | "done"
          snapS, snapP,  \* what the two range reads returned
          lastFetch
fvars == <<stored, pruned, sampled, now, subj, pc, snapS, snapP, lastFetch>>

NoFetch == <<>>
Synced == stored \cup pruned
InWin(h, W) == now - h < W

\* any store a node can be in when the section starts: pruned headers left both windows
Init == /\ stored \in SUBSET (1..N) /\ pruned \in SUBSET ((1..N) \ stored) /\ sampled \in SUBSET stored
        /\ now \in N..(N + 1) /\ subj = N
        /\ \A h \in pruned : now - h >= WSamp /\ now - h >= WPrune
        /\ pc = "idle" /\ snapS = {} /\ snapP = {} /\ lastFetch = NoFetch

(* ---- the pruner and the rest of the environment ---- *)
Prunable(h) == /\ h \in stored /\ ~InWin(h, WPrune)
               /\ InWin(h, WSamp) => (h \in sampled /\ h \notin Edges(Synced))
Prune(h) == /\ Prunable(h)
            /\ stored' = stored \ {h} /\ pruned' = pruned \cup {h} /\ sampled' = sampled \ {h}
            /\ UNCHANGED <<now, subj, pc, snapS, snapP, lastFetch>>
MarkSampled(h) == /\ h \in stored /\ h \notin sampled /\ sampled' = sampled \cup {h}
                  /\ UNCHANGED <<stored, pruned, now, subj, pc, snapS, snapP, lastFetch>>
Tick == /\ now < MaxNow /\ now' = now + 1
        /\ UNCHANGED <<stored, pruned, sampled, subj, pc, snapS, snapP, lastFetch>>

(* ---- the section, one action per store call ---- *)
Read1 == /\ pc = "idle" /\ pc' = "r1"
         /\ IF ReadOrder = "SP" THEN snapS' = stored /\ UNCHANGED snapP ELSE snapP' = pruned /\ UNCHANGED snapS
         /\ UNCHANGED <<stored, pruned, sampled, now, subj, lastFetch>>
Read2 == /\ pc = "r1" /\ pc' = "r2"
         /\ IF ReadOrder = "SP" THEN snapP' = pruned /\ UNCHANGED snapS ELSE snapS' = stored /\ UNCHANGED snapP
         /\ UNCHANGED <<stored, pruned, sampled, now, subj, lastFetch>>
\* calculate_range_to_fetch on the snapshots, get_by_height(end + 1) on the store as it is now
Decide ==
    /\ pc = "r2"
    /\ LET b == CalcRange(subj, snapS \cup snapP, Batch) IN
       IF b = {} THEN pc' = "idle" /\ UNCHANGED lastFetch
       ELSE LET e == MaxOf(b) + 1
                go == IF e \in stored THEN InWin(e, WSamp)
                      ELSE e \notin (IF Recheck THEN pruned ELSE snapP)
            IN IF go
               THEN /\ pc' = "done"
                    /\ lastFetch' = [lo |-> MinOf(b), hi |-> MaxOf(b), subj |-> subj, synced |-> Synced,
                                     old |-> {h \in Synced : h > MaxOf(b) /\ ~InWin(h, WSamp)}]
               ELSE pc' = "idle" /\ UNCHANGED lastFetch
    /\ UNCHANGED <<stored, pruned, sampled, now, subj, snapS, snapP>>

Next == Read1 \/ Read2 \/ Decide \/ Tick \/ \E h \in 1..N : Prune(h) \/ MarkSampled(h)
Spec == Init /\ [][Next]_fvars

(* ---- properties: as in Syncer.tla, evaluated on the store as it is when the request goes out ---- *)
NoRequestBelowOldHeader == lastFetch # NoFetch => lastFetch.old = {}
FetchAllowed == lastFetch # NoFetch => Allowed(lastFetch.subj, lastFetch.synced, Batch, lastFetch.lo..lastFetch.hi)
=============================================================================
