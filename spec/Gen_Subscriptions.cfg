CONSTANTS
  N = 8
  D = 9
INIT GInit
NEXT GNext
INVARIANT Emit
CHECK_DEADLOCK FALSE
