CONSTANT N = 2
CONSTANT LateGuards = FALSE
CONSTANT Deviation = "none"
CONSTANT ExitKinds = {"return", "panic"}
INIT GenInit
NEXT GenNext
INVARIANT Safety
CHECK_DEADLOCK FALSE
