CONSTANT N = 2
CONSTANT LateGuards = FALSE
CONSTANT Deviation = "none"
INIT GenInit
NEXT GenNext
INVARIANT Safety
CHECK_DEADLOCK FALSE
