--------------------------- MODULE MC_Subscriptions --------------------------
EXTENDS Subscriptions, TLC
CONSTANT N
VARIABLE lastLo            \* lo of the last AnnounceInsert (0 for other actions), for the completeness invariant
mcvars == <<stored, lastSent, pending, delivered, head0, known, res, lastLo>>
MCInit == Init /\ lastLo = 0
MCNext == \/ \E h \in 1..N : InitBroadcast(h) /\ lastLo' = 0
          \/ \E lo, hi \in 1..N : AnnounceInsert(lo, hi) /\ lastLo' = lo
MCSpec == MCInit /\ [][MCNext]_mcvars
Complete == lastLo # 0 => CompleteAfterInsert(lastLo)
View == <<stored, lastSent, pending, head0, known, res, lastLo>>
=============================================================================
