--------------------------- MODULE Gen_StoreMigration --------------------------
(* spec -> impl: one JSON line per case (old database, expected outcome of Open). *)
EXTENDS MC_StoreMigration, Json
GenInit == /\ MCInit
           /\ PrintT(ToJson([ver |-> db.ver,
                             stored |-> Mask(StoredOf(db)), sampled |-> Mask(SampledOf(db)),
                             pruned |-> Mask(PrunedOf(db)),
                             acc_present |-> IF KAcc \in DOMAIN db.rt THEN 1 ELSE 0,
                             hdr_present |-> IF KHdr \in DOMAIN db.rt THEN 1 ELSE 0,
                             tables |-> db.tabs, ident |-> IF db.ident THEN 1 ELSE 0,
                             post_tables |-> OpenDb(db).tabs, post_ident |-> IF OpenDb(db).ident THEN 1 ELSE 0,
                             refused |-> IF Refused(db) THEN 1 ELSE 0,
                             post_ver |-> OpenDb(db).ver,
                             post_stored |-> Mask(StoredOf(OpenDb(db))),
                             post_sampled |-> Mask(SampledOf(OpenDb(db))),
                             post_pruned |-> Mask(PrunedOf(OpenDb(db))),
                             post_keys |-> DOMAIN OpenDb(db).rt,
                             post_hr_rows |-> Len(OpenDb(db).hr)]))
GenNext == FALSE /\ UNCHANGED vars
=============================================================================
