CONSTANTS
  MinAmt = 2
  MaxAmt = 3
  MaxConc = 2
  MaxL = 9
  ZeroLen = FALSE
INIT MCInit
NEXT Next
INVARIANTS RequestsOk OutDisjoint DoneComplete NothingLost
CHECK_DEADLOCK FALSE
