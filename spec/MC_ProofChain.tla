---------------------------- MODULE MC_ProofChain ---------------------------
EXTENDS ProofChain, TLC
VARIABLE c
Init == c \in Cases
Next == UNCHANGED c
SoundInv    == Sound(c)
CompleteInv == Complete(c)
=============================================================================
