------------------------------ MODULE Trace_Syncer ----------------------------
(* impl -> spec for C25 / C38 / C24: a recorded run of the real Syncer worker   *)
(* against the scripted environment of harness/crates/h-node/src/syncer.rs.     *)
(*                                                                             *)
(* Strict = TRUE  : every event must be the corresponding action of Syncer.tla *)
(*                  (algorithmic layer) and reproduce the logged store state.  *)
(* Strict = FALSE : the logged state is adopted and only the properties are     *)
(*                  evaluated (property layer): C24 relation and C25 at every   *)
(*                  fetch, C38 safety on every state, bounded C38 liveness at   *)
(*                  quiescence.  A trace rejected only in strict mode is DRIFT. *)
EXTENDS Syncer, Json, IOUtils, TLC
CONSTANT Strict
Rec == ndJsonDeserialize(IOEnv.TRACE)
VARIABLE l
tvars == <<stored, pruned, foreign, sampled, now, netHead, peers, trusted, phase, subj, ongoing, hsub, sawPeer, slowH, lastFetch, l>>
Ev == Rec[l]

Observed(st) ==
    /\ CanonicalRanges(st.stored) /\ stored' = SetOfRanges(st.stored)
    /\ pruned' = SetOfRanges(st.pruned) /\ sampled' = SetOfRanges(st.sampled)
    /\ foreign' = ToSet(st.foreign)
    /\ subj' = st.subj

\* property layer: adopt the observed state
Adopt(st) == /\ stored' = SetOfRanges(st.stored) /\ pruned' = SetOfRanges(st.pruned)
             /\ sampled' = SetOfRanges(st.sampled) /\ foreign' = ToSet(st.foreign) /\ subj' = st.subj

FetchFacts(lo, hi) == [lo |-> lo, hi |-> hi, subj |-> subj, synced |-> Synced,
                       old |-> {h \in Synced : h > hi /\ ~InWin(h, WSamp)}]

TStrict ==
    LET n == Ev.name IN
    \/ n = "reset"   /\ stored' = {} /\ pruned' = {} /\ foreign' = {} /\ sampled' = {} /\ now' = Ev.now /\ netHead' = 1
                     /\ peers' = 0 /\ trusted' = FALSE /\ phase' = "connecting" /\ subj' = 0 /\ ongoing' = <<>> /\ hsub' = FALSE
                     /\ sawPeer' = FALSE /\ lastFetch' = NoFetch /\ slowH' = 0
    \/ n = "prefill" /\ Adopt(Ev.st) /\ netHead' = Ev.netHead
                     /\ UNCHANGED <<now, peers, trusted, phase, ongoing, hsub, sawPeer, lastFetch, slowH>>
    \/ n = "mark"    /\ MarkSampled(Ev.h) /\ Observed(Ev.st)
    \* a removal injected *inside* fetch_next_batch (race = 1) is logged together with the header-sub message that
    \* triggered the section: its own snapshot already shows that message's insert, so only the next event is observed
    \/ n = "prune"   /\ Prune(Ev.h) /\ (IF "race" \in DOMAIN Ev THEN subj' = subj ELSE Observed(Ev.st))
    \/ n = "connect" /\ Connect /\ Observed(Ev.st)
    \/ n = "disconnect" /\ Disconnect /\ Observed(Ev.st)
    \/ n = "plainjoin" /\ PlainJoin /\ Observed(Ev.st)
    \/ n = "trustedleave" /\ TrustedLeave /\ Observed(Ev.st)
    \/ n = "trustedjoin" /\ TrustedJoin /\ Observed(Ev.st)
    \/ n = "newblock" /\ netHead' = Ev.netHead
                      /\ UNCHANGED <<stored, pruned, foreign, sampled, now, peers, trusted, phase, subj, ongoing, hsub, sawPeer, lastFetch, slowH>>
    \/ n = "tick"     /\ now' = Ev.now      \* real time passed (aging runs)
                      /\ UNCHANGED <<stored, pruned, foreign, sampled, netHead, peers, trusted, phase, subj, ongoing, hsub, sawPeer, lastFetch, slowH>>
    \/ n = "headsub" /\ Ev.h = netHead /\ HeaderSub /\ Observed(Ev.st)
    \/ n = "tryinit" /\ Ev.h = netHead /\ TryInit /\ Observed(Ev.st)
    \/ n = "fetch"   /\ FetchNext /\ ongoing' = <<Ev.lo, Ev.hi>> /\ Observed(Ev.st)
    \/ n = "batch"   /\ ongoing = <<Ev.lo, Ev.hi>>
                     /\ \/ Ev.kind = "ok" /\ BatchOk
                        \/ Ev.kind = "foreign" /\ BatchForeign
                        \/ Ev.kind = "fail" /\ BatchFail
                     /\ Observed(Ev.st)
    \/ n = "quiescent" /\ (Ev.check_live = 1 => (phase = "connected" /\ WindowStored))
                       /\ UNCHANGED <<stored, pruned, foreign, sampled, now, netHead, peers, trusted, phase, subj, ongoing, hsub, sawPeer, lastFetch, slowH>>

TLoose ==
    LET n == Ev.name IN
    /\ UNCHANGED <<peers, trusted, phase, ongoing, hsub, sawPeer, slowH>>
    /\ \/ n = "reset"   /\ stored' = {} /\ pruned' = {} /\ foreign' = {} /\ sampled' = {} /\ now' = Ev.now /\ netHead' = 1
                        /\ subj' = 0 /\ lastFetch' = NoFetch
       \/ n = "prefill" /\ Adopt(Ev.st) /\ netHead' = Ev.netHead /\ UNCHANGED <<now, lastFetch, slowH>>
       \/ n \in {"mark", "prune", "connect", "disconnect", "plainjoin", "trustedleave", "trustedjoin", "headsub", "tryinit", "batch"}
                        /\ Adopt(Ev.st) /\ UNCHANGED <<now, netHead, lastFetch, slowH>>
       \/ n = "newblock" /\ netHead' = Ev.netHead /\ UNCHANGED <<stored, pruned, foreign, sampled, now, subj, lastFetch, slowH>>
       \/ n = "tick"     /\ now' = Ev.now /\ UNCHANGED <<stored, pruned, foreign, sampled, netHead, subj, lastFetch, slowH>>
       \/ n = "fetch"   /\ Adopt(Ev.st) /\ UNCHANGED <<now, netHead>>
                        \* facts at request time, from the state the request was made in (= observed state)
                        /\ lastFetch' = [lo |-> Ev.lo, hi |-> Ev.hi, subj |-> Ev.st.subj,
                                         synced |-> SetOfRanges(Ev.st.stored) \cup SetOfRanges(Ev.st.pruned),
                                         old |-> {h \in SetOfRanges(Ev.st.stored) \cup SetOfRanges(Ev.st.pruned) :
                                                    h > Ev.hi /\ ~InWin(h, WSamp)}]
       \/ n = "quiescent" /\ (Ev.check_live = 1 => WindowStored)
                          /\ UNCHANGED <<stored, pruned, foreign, sampled, now, netHead, subj, lastFetch, slowH>>

TStep == /\ l <= Len(Rec) /\ l' = l + 1
         /\ IF Strict THEN TStrict ELSE TLoose

TInit == Init /\ l = 1
TSpec == TInit /\ [][TStep]_tvars

Accepted ==
    LET d == TLCGet("stats").diameter IN
    IF d - 1 = Len(Rec) THEN TRUE
    ELSE /\ PrintT(<<"REJECT-AT", d>>)
         /\ PrintT(ToJson(Rec[d]))
         /\ FALSE
=============================================================================
