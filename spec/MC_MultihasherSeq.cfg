CONSTANT Dev = "none"
CONSTANT L = 4
CONSTANT SeqKinds = {"sample"}
INIT SInit
NEXT SNext
INVARIANTS SeqCodeMeetsDemand SeqOkOnlyCurrent SeqRemoved
CHECK_DEADLOCK FALSE
