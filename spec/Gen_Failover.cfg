CONSTANT Calls = {1, 2}
CONSTANT NEp = 3
CONSTANT MaxConc = 2
CONSTANT Lats = {"fast"}
INIT GenInit
NEXT GenNext
INVARIANTS Emit PropOK PermOK
CHECK_DEADLOCK FALSE
