CONSTANT MinN = 1
CONSTANT MaxN = 3
CONSTANT MaxL = 3
CONSTANT Palette = {1, 2, 3}
INIT Init
NEXT GenNext
CHECK_DEADLOCK FALSE
