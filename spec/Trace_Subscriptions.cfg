SPECIFICATION TSpec
INVARIANTS RConsecutive ROnlyStored RComplete RNotAhead
POSTCONDITION Accepted
CHECK_DEADLOCK FALSE
