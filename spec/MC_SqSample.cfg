CONSTANT K = 2
CONSTANT PosCheck = TRUE
CONSTANT NsByIndex = TRUE
INIT Init
NEXT Next
INVARIANTS SampleSound AcceptOnlyRequested HonestAccepted
CHECK_DEADLOCK FALSE
