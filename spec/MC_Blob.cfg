CONSTANT MaxLen = 4096
CONSTANT StreamLen = 4
INIT Init
NEXT Next
INVARIANTS LayoutOK StreamOK InsideStreamOK
