----------------------------- MODULE VerifiedRange ---------------------------
(***************************************************************************)
(* C27.  P2p::get_verified_headers_range(from, amount) (node/src/p2p.rs):  *)
(* requests the `amount` headers following `from` through a HeaderSession. *)
(*                                                                         *)
(* u64 arithmetic: the model works in 0..M where M stands for u64::MAX     *)
(* (two-block embedding: an amount "M - k" is concretised as u64::MAX - k; *)
(* a sum exceeds M in the model iff it exceeds u64::MAX in Rust).          *)
(*                                                                         *)
(* What the statement demands, per case:                                   *)
(*   "prompt"  amount = 0: returns without engaging the network            *)
(*   "exact"   every requested header is served: exactly from+1..from+amount *)
(*   "nopanic" anything else: any result, but no panic                     *)
(***************************************************************************)
EXTENDS Naturals, TLC, Json

CONSTANTS M, Heights, SmallAmounts, TopOffsets, ChainLen

VARIABLES h, amt, top, serve, emitted
vars == <<h, amt, top, serve, emitted>>

\* last requested height = h + amount must be representable
Overflows(hh, a) == hh + a > M

Expect(hh, a, isTop, sv) ==
    IF a = 0 THEN "prompt"
    ELSE IF Overflows(hh, a) THEN "nopanic"
    ELSE IF sv /\ ~isTop /\ hh + a <= ChainLen THEN "exact"
    ELSE "nopanic"

Init == /\ h \in Heights /\ serve \in BOOLEAN /\ emitted = FALSE
        /\ \/ top = FALSE /\ amt \in SmallAmounts
           \/ top = TRUE  /\ amt \in {M - k : k \in TopOffsets}

Emit == /\ ~emitted /\ emitted' = TRUE /\ UNCHANGED <<h, amt, top, serve>>
        /\ PrintT(ToJson([h |-> h,
                          amount |-> IF top THEN [max_minus |-> M - amt] ELSE [v |-> amt],
                          serve |-> IF serve THEN 1 ELSE 0,
                          expect |-> Expect(h, amt, top, serve),
                          overflow |-> IF Overflows(h, amt) THEN 1 ELSE 0]))
Next == Emit
Spec == Init /\ [][Next]_vars

\* sanity of the table: the session is only ever started on a non-empty, representable range
SessionRangeOk == (amt > 0 /\ ~Overflows(h, amt)) => (h + 1 <= h + amt)
=============================================================================
