INIT Init
NEXT Next
INVARIANTS Emit
