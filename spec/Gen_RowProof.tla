---------------------------- MODULE Gen_RowProof ----------------------------
EXTENDS RowProof, Json
B(b) == IF b THEN 1 ELSE 0
Emit == PrintT(ToJson(IF c.kind = "row"
          THEN [kind |-> "row", start |-> c.start, end |-> c.end, nroots |-> c.nroots, nproofs |-> c.nproofs,
                alt |-> c.alt, j |-> c.j, t |-> c.t, v |-> Verdict(c), m |-> B(Model(c))]
          ELSE [kind |-> "share", r0 |-> c.r0, c0 |-> c.c0, r1 |-> c.r1, c1 |-> c.c1, alt |-> c.alt, j |-> c.j,
                ranges |-> c.ranges, nshares |-> c.nshares, v |-> Verdict(c), m |-> B(Model(c))]))
=============================================================================
