------------------------------ MODULE Gen_HvCommit ------------------------------
(* spec -> impl: one JSON line per case (= per transition out of the initial state) *)
EXTENDS HvCommit, Json, TLC
GenNext == Next /\ PrintT(ToJson(out'))
=============================================================================
