---- MODULE SyncerFetch_TTrace_1790078069 ----
EXTENDS Sequences, SyncerFetch, TLCExt, Toolbox, Naturals, TLC

_expression ==
    LET SyncerFetch_TEExpression == INSTANCE SyncerFetch_TEExpression
    IN SyncerFetch_TEExpression!expression
----

_trace ==
    LET SyncerFetch_TETrace == INSTANCE SyncerFetch_TETrace
    IN SyncerFetch_TETrace!trace
----

_inv ==
    ~(
        TLCGet("level") = Len(_TETrace)
        /\
        snapS = ({})
        /\
        pc = ("done")
        /\
        pruned = ({1})
        /\
        now = (5)
        /\
        stored = ({})
        /\
        subj = (5)
        /\
        sampled = ({})
        /\
        lastFetch = ([subj |-> 5, lo |-> 1, hi |-> 2, synced |-> {1}, old |-> {}])
        /\
        snapP = ({})
    )
----

_init ==
    /\ snapP = _TETrace[1].snapP
    /\ snapS = _TETrace[1].snapS
    /\ now = _TETrace[1].now
    /\ pc = _TETrace[1].pc
    /\ pruned = _TETrace[1].pruned
    /\ sampled = _TETrace[1].sampled
    /\ stored = _TETrace[1].stored
    /\ lastFetch = _TETrace[1].lastFetch
    /\ subj = _TETrace[1].subj
----

_next ==
    /\ \E i,j \in DOMAIN _TETrace:
        /\ \/ /\ j = i + 1
              /\ i = TLCGet("level")
        /\ snapP  = _TETrace[i].snapP
        /\ snapP' = _TETrace[j].snapP
        /\ snapS  = _TETrace[i].snapS
        /\ snapS' = _TETrace[j].snapS
        /\ now  = _TETrace[i].now
        /\ now' = _TETrace[j].now
        /\ pc  = _TETrace[i].pc
        /\ pc' = _TETrace[j].pc
        /\ pruned  = _TETrace[i].pruned
        /\ pruned' = _TETrace[j].pruned
        /\ sampled  = _TETrace[i].sampled
        /\ sampled' = _TETrace[j].sampled
        /\ stored  = _TETrace[i].stored
        /\ stored' = _TETrace[j].stored
        /\ lastFetch  = _TETrace[i].lastFetch
        /\ lastFetch' = _TETrace[j].lastFetch
        /\ subj  = _TETrace[i].subj
        /\ subj' = _TETrace[j].subj

\* Uncomment the ASSUME below to write the states of the error trace
\* to the given file in Json format. Note that you can pass any tuple
\* to `JsonSerialize`. For example, a sub-sequence of _TETrace.
    \* ASSUME
    \*     LET J == INSTANCE Json
    \*         IN J!JsonSerialize("SyncerFetch_TTrace_1790078069.json", _TETrace)

=============================================================================

 Note that you can extract this module `SyncerFetch_TEExpression`
  to a dedicated file to reuse `expression` (the module in the 
  dedicated `SyncerFetch_TEExpression.tla` file takes precedence 
  over the module `SyncerFetch_TEExpression` below).

---- MODULE SyncerFetch_TEExpression ----
EXTENDS Sequences, SyncerFetch, TLCExt, Toolbox, Naturals, TLC

expression == 
    [
        \* To hide variables of the `SyncerFetch` spec from the error trace,
        \* remove the variables below.  The trace will be written in the order
        \* of the fields of this record.
        snapP |-> snapP
        ,snapS |-> snapS
        ,now |-> now
        ,pc |-> pc
        ,pruned |-> pruned
        ,sampled |-> sampled
        ,stored |-> stored
        ,lastFetch |-> lastFetch
        ,subj |-> subj
        
        \* Put additional constant-, state-, and action-level expressions here:
        \* ,_stateNumber |-> _TEPosition
        \* ,_snapPUnchanged |-> snapP = snapP'
        
        \* Format the `snapP` variable as Json value.
        \* ,_snapPJson |->
        \*     LET J == INSTANCE Json
        \*     IN J!ToJson(snapP)
        
        \* Lastly, you may build expressions over arbitrary sets of states by
        \* leveraging the _TETrace operator.  For example, this is how to
        \* count the number of times a spec variable changed up to the current
        \* state in the trace.
        \* ,_snapPModCount |->
        \*     LET F[s \in DOMAIN _TETrace] ==
        \*         IF s = 1 THEN 0
        \*         ELSE IF _TETrace[s].snapP # _TETrace[s-1].snapP
        \*             THEN 1 + F[s-1] ELSE F[s-1]
        \*     IN F[_TEPosition - 1]
    ]

=============================================================================



Parsing and semantic processing can take forever if the trace below is long.
 In this case, it is advised to uncomment the module below to deserialize the
 trace from a generated binary file.

\*
\*---- MODULE SyncerFetch_TETrace ----
\*EXTENDS IOUtils, SyncerFetch, TLC
\*
\*trace == IODeserialize("SyncerFetch_TTrace_1790078069.bin", TRUE)
\*
\*=============================================================================
\*

---- MODULE SyncerFetch_TETrace ----
EXTENDS SyncerFetch, TLC

trace == 
    <<
    ([snapS |-> {},pc |-> "idle",pruned |-> {},now |-> 5,stored |-> {1},subj |-> 5,sampled |-> {},lastFetch |-> <<>>,snapP |-> {}]),
    ([snapS |-> {},pc |-> "r1",pruned |-> {},now |-> 5,stored |-> {1},subj |-> 5,sampled |-> {},lastFetch |-> <<>>,snapP |-> {}]),
    ([snapS |-> {},pc |-> "r1",pruned |-> {1},now |-> 5,stored |-> {},subj |-> 5,sampled |-> {},lastFetch |-> <<>>,snapP |-> {}]),
    ([snapS |-> {},pc |-> "r2",pruned |-> {1},now |-> 5,stored |-> {},subj |-> 5,sampled |-> {},lastFetch |-> <<>>,snapP |-> {}]),
    ([snapS |-> {},pc |-> "done",pruned |-> {1},now |-> 5,stored |-> {},subj |-> 5,sampled |-> {},lastFetch |-> [subj |-> 5, lo |-> 1, hi |-> 2, synced |-> {1}, old |-> {}],snapP |-> {}])
    >>
----


=============================================================================

---- CONFIG SyncerFetch_TTrace_1790078069 ----
CONSTANTS
    N = 5
    Batch = 2
    WSamp = 3
    WPrune = 2
    ReadOrder = "PS"
    Recheck = TRUE
    MaxNow = 7

INVARIANT
    _inv

CHECK_DEADLOCK
    \* CHECK_DEADLOCK off because of PROPERTY or INVARIANT above.
    FALSE

INIT
    _init

NEXT
    _next

CONSTANT
    _TETrace <- _trace

ALIAS
    _expression
=============================================================================
\* Generated on Tue Sep 22 11:54:33 UTC 2026