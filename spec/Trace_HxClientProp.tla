------------------------- MODULE Trace_HxClientProp -------------------------
(***************************************************************************)
(* impl -> spec, property layer of C31 / C32.  The events recorded from    *)
(* the real HeaderExClientHandler (through lumina_node::verif::hx's        *)
(* ClientDriver) feed the monitor of HxClientProp; an event after which a  *)
(* clause of the statements is false is not accepted (the clause is        *)
(* printed).                                                               *)
(***************************************************************************)
EXTENDS HxClientProp, Json, IOUtils, TLC
Rec == ndJsonDeserialize(IOEnv.TRACE)
VARIABLES mon, l
tvars == <<mon, l>>
E == Rec[l]
\* palette: 1 -> (height 5, A)  2 -> (height 5, B)  3 -> (height 6, A)  4 -> (height 7, A)
THdrHeight(k) == IF k <= 2 THEN 5 ELSE IF k = 3 THEN 6 ELSE 7

Judge == mon'.bad = "" \/ (PrintT(<<"CLAUSE", mon'.bad>>) /\ FALSE)

TStep ==
    /\ l <= Len(Rec) /\ l' = l + 1
    /\ IF E.name = "reset" THEN mon' = MonInit({}, {}, {}) ELSE mon' = Mon(mon, E)
    /\ Judge

TInit == mon = MonInit({}, {}, {}) /\ l = 1
TSpec == TInit /\ [][TStep]_tvars

Accepted ==
    LET d == TLCGet("stats").diameter IN
    IF d - 1 = Len(Rec) THEN TRUE
    ELSE /\ PrintT(<<"REJECT-AT", d>>)
         /\ PrintT(ToJson(Rec[d]))
         /\ FALSE
=============================================================================
