CONSTANT Peers = {1, 2}
CONSTANT GetCallers = {1}
CONSTANT HeadCallers = {2}
CONSTANT Callers = {1, 2}
CONSTANT Hdrs = {1, 3}
CONSTANT MaxRounds = 1
CONSTANT GetOutcomes = {"valid", "invalid", "notfound", "fail", "fail-dial"}
CONSTANT HeadOutcomes = {"hdr", "invalid", "multi", "fail"}
CONSTANT MaxPeerEvents = 1
CONSTANT HdrHeight <- MCHdrHeight
INIT Init
NEXT Next
VIEW View
CONSTRAINT RoundBound
INVARIANTS TypeOK MonitorOK MonitorInSync OnePlace
CHECK_DEADLOCK FALSE
