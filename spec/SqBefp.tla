------------------------------- MODULE SqBefp -------------------------------
(***************************************************************************)
(* C07.  Case space of BadEncodingFraudProof::validate over the symbolic    *)
(* square of Square.tla.  The committed square is the honest extension with *)
(* the cells of `junk` overwritten before the roots were taken (junk = {}   *)
(* is the honestly encoded block).  A case is the honest prover's proof for *)
(* (axis, index, present slots P, proof axis per present slot) with at most *)
(* one adversarial edit:                                                    *)
(*   swap        two present slots exchange share+proof                     *)
(*   swapshares  two present slots exchange the shares, proofs stay         *)
(*   dup         one slot's share+proof copied over another slot            *)
(*   subst       a slot gets the cell of a parallel line with that cell's   *)
(*               own (valid) proof, along either proof axis                 *)
(*   alt / mode / start   altered share / leaf namespace / proof position   *)
(*   index / flipaxis / nslots   relabelled header fields, wrong length     *)
(* BefpSound: the design (BefpCode) answers what the property demands       *)
(* (BefpDemand): never validates against a codeword line, always validates  *)
(* the honest prover's proof for a corrupted line.                          *)
(***************************************************************************)
EXTENDS Square

CONSTANTS JunkMode,   \* "none" | "quadrants" | "all": which corrupted squares are enumerated
          PaxMode     \* "all": every proof-axis assignment; "some": uniform and alternating ones

VARIABLE kase
\* One initial state per (square variant, axis, index): every case is one step from its seed
\* (this only spreads the enumeration over TLC's workers).
\* jkind / jline say how the junk cells are concretised: "random" = unrelated bytes; "permuted" = the junk
\* cells are the whole parity half of the first-quadrant line jline, recomputed by the block producer from a
\* permutation of that line's data shares (so the line reconstructed from its parity half has valid
\* namespaces that are out of order).
Seed(v, ax, i) == [cls |-> "init", junk |-> v.junk, jkind |-> v.kind, jline |-> v.line, axis |-> ax, index |-> i]

QuadrantReps == {<<0, K - 1>>, <<K - 1, K>>, <<W - 1, 0>>, <<K, W - 1>>}
JunkSets == {{}} \cup
            (CASE JunkMode = "none"      -> {}
               [] JunkMode = "two"       -> {{<<0, K - 1>>}, {<<K, W - 1>>}}
               [] JunkMode = "quadrants" -> {{x} : x \in QuadrantReps}
               [] OTHER                  -> {{<<r, c>>} : r \in Idx, c \in Idx})

Slots == 1..W
PaxAssignments(P) ==
    IF PaxMode = "all" THEN [P -> Axes]
    ELSE {[s \in P |-> "row"], [s \in P |-> "col"],
          [s \in P |-> IF s % 2 = 0 THEN "row" ELSE "col"], [s \in P |-> IF s % 2 = 0 THEN "col" ELSE "row"]}

Base(ax, i, P, pa) ==
    [axis |-> ax, index |-> i,
     slots |-> [s \in Slots |-> IF s \in P THEN <<HonestEntry(ax, i, s - 1, pa[s])>> ELSE <<>>]]

BaseSets == {Q \in SUBSET Slots : Cardinality(Q) >= K - 1 /\ Q # {}}
\* the bases of the current seed
Bases == {<<kase.axis, kase.index, P>> : P \in BaseSets}

Mk(cls, mut, junk, b, pa, f) ==
    [cls |-> cls, mut |-> mut, junk |-> junk, jkind |-> kase.jkind, jline |-> kase.jline, baxis |-> b[1], bindex |-> b[2], bP |-> b[3], bpa |-> pa, f |-> f]

HalfLine(ax, i) == {<<RowOf(ax, i, p), ColOf(ax, i, p)>> : p \in K..(W - 1)}
RandomVariants == {[junk |-> j, kind |-> "random", line |-> <<"-", 0>>] : j \in JunkSets}
PermVariants   == IF JunkMode = "none" THEN {}
                  ELSE {[junk |-> HalfLine("row", 0), kind |-> "permuted", line |-> <<"row", 0>>],
                        [junk |-> HalfLine("col", K - 1), kind |-> "permuted", line |-> <<"col", K - 1>>]}
\* permuted squares: only the lines they corrupt (the completeness cases and their edits)
Init == kase \in {Seed(v, ax, i) : v \in RandomVariants, ax \in Axes, i \in Idx}
             \cup {Seed(v, ax, i) : v \in {x \in PermVariants : TRUE}, ax \in Axes, i \in Idx}
Live(k) == k.jkind = "random" \/ ~LineCodeword(k.junk, k.axis, k.index)

Plain ==
    /\ kase.cls = "init" /\ Live(kase)
    /\ \E junk \in {kase.junk}, b \in Bases : \E pa \in PaxAssignments(b[3]) :
         kase' = Mk("plain", <<"none">>, junk, b, pa, Base(b[1], b[2], b[3], pa))

\* edits that move proven shares between slots
Permute ==
    /\ kase.cls = "init" /\ Live(kase)
    /\ \E junk \in {kase.junk}, b \in Bases : \E pa \in PaxAssignments(b[3]) :
         LET f == Base(b[1], b[2], b[3], pa) P == b[3] IN
         \/ \E x \in P, y \in P :
               /\ x < y
               /\ \/ kase' = Mk("permute", <<"swap", x - 1, y - 1>>, junk, b, pa,
                                [f EXCEPT !.slots[x] = f.slots[y], !.slots[y] = f.slots[x]])
                  \/ LET ex == f.slots[x][1] ey == f.slots[y][1] IN
                     kase' = Mk("permute", <<"swapshares", x - 1, y - 1>>, junk, b, pa,
                                [f EXCEPT !.slots[x] = <<[ex EXCEPT !.share = ey.share, !.mode = ey.mode]>>,
                                          !.slots[y] = <<[ey EXCEPT !.share = ex.share, !.mode = ex.mode]>>])
         \/ \E x \in P, y \in Slots :
               /\ x # y
               /\ kase' = Mk("permute", <<"dup", x - 1, y - 1>>, junk, b, pa, [f EXCEPT !.slots[y] = f.slots[x]])

\* a slot filled with a genuinely proven share of another line
Substitute ==
    /\ kase.cls = "init" /\ Live(kase)
    /\ \E junk \in {kase.junk}, b \in Bases : \E pa \in PaxAssignments(b[3]) :
         LET f == Base(b[1], b[2], b[3], pa) IN
         \E s \in b[3], j \in Idx \ {b[2]}, pax \in Axes :
            kase' = Mk("substitute", <<"subst", s - 1, j, pax>>, junk, b, pa,
                       [f EXCEPT !.slots[s] = <<HonestEntry(b[1], j, s - 1, pax)>>])

\* altered share / leaf namespace / proof position of one slot
AlterSlot ==
    /\ kase.cls = "init" /\ Live(kase)
    /\ \E junk \in {kase.junk}, b \in Bases : \E pa \in PaxAssignments(b[3]) :
         LET f == Base(b[1], b[2], b[3], pa) IN
         \E s \in b[3] :
            LET e == f.slots[s][1] IN
            \/ kase' = Mk("alterslot", <<"alt", s - 1>>, junk, b, pa,
                          [f EXCEPT !.slots[s] = <<[e EXCEPT !.share = AltT(e.share[2], e.share[3])]>>])
            \/ kase' = Mk("alterslot", <<"mode", s - 1>>, junk, b, pa,
                          [f EXCEPT !.slots[s] = <<[e EXCEPT !.mode = IF e.mode = "own" THEN "par" ELSE "own"]>>])
            \/ \E x \in (0..W) \ {e.start} :
                  kase' = Mk("alterslot", <<"start", s - 1, x>>, junk, b, pa,
                             [f EXCEPT !.slots[s] = <<[e EXCEPT !.start = x]>>])

\* relabelled header fields
Relabel ==
    /\ kase.cls = "init" /\ Live(kase)
    /\ \E junk \in {kase.junk}, b \in Bases : \E pa \in PaxAssignments(b[3]) :
         LET f == Base(b[1], b[2], b[3], pa) IN
         \/ \E j \in (0..W) \ {b[2]} : kase' = Mk("relabel", <<"index", j>>, junk, b, pa, [f EXCEPT !.index = j])
         \/ kase' = Mk("relabel", <<"flipaxis">>, junk, b, pa, [f EXCEPT !.axis = Other(b[1])])
         \/ kase' = Mk("relabel", <<"nslots", W - 1>>, junk, b, pa, [f EXCEPT !.slots = SubSeq(f.slots, 1, W - 1)])
         \/ kase' = Mk("relabel", <<"nslots", W + 1>>, junk, b, pa, [f EXCEPT !.slots = f.slots \o <<<<>>>>])

Next == Plain \/ Permute \/ Substitute \/ AlterSlot \/ Relabel

\* ---- properties of the design
Got(k)    == BefpCode(k.junk, k.f)
BefpSound == kase.cls # "init" => Conforms(BefpDemand(kase.junk, kase.f), Got(kase))
\* the statement, spelled out
NeverConvictsCodeword ==
    (kase.cls # "init" /\ kase.f.index \in Idx /\ LineCodeword(kase.junk, kase.f.axis, kase.f.index)) => Got(kase) = "reject"
HonestProverValidates ==
    (kase.cls # "init" /\ kase.f.index \in Idx /\ ~LineCodeword(kase.junk, kase.f.axis, kase.f.index) /\ BefpHonest(kase.f))
        => Got(kase) = "accept"
\* the lemma the fix rests on
Binding == (kase.cls # "init" /\ PosCheck) => SlotBinds(kase.f)
=============================================================================
