CONSTANTS
  N = 4
  Batch = 2
  WSamp = 3
  WPrune = 1
  Lim = 1
  Extra = 1
  MaxBatch = 2
SPECIFICATION LiveSpec
INVARIANTS TypeOK SafeRemoval NoRequestBelowOldHeader
PROPERTIES EventuallySyncedAndSampled EventuallyPruned
CHECK_DEADLOCK FALSE
