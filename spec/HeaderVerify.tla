------------------------------ MODULE HeaderVerify ------------------------------
(***************************************************************************)
(* Symbolic model of celestia-types header validation / verification       *)
(* (properties C01, C02, C03).  Pure operators; the state machines that    *)
(* enumerate cases live in HvCommit (C03), HvValidate (C01), HvChain (C02).*)
(*                                                                         *)
(* Symbolic cryptography (trusted base: collision-free hashing, unforge-   *)
(* able ed25519): a hash is the hashed term itself, a key is a positive    *)
(* natural, the address of a key is the key, a signature is the pair       *)
(* [key, msg] and verification is equality.  key 0 = bytes that no key     *)
(* produced, key -1 = the signature field is missing.                      *)
(*                                                                         *)
(* Two layers (DESIGN 3.1):                                                *)
(*   property layer  : *Verdict operators -- what the property statement   *)
(*                     demands: "MustAccept" / "MustReject" / "Either";    *)
(*   algorithm layer : Alg* operators -- what the Rust code does, step by  *)
(*                     step (early exit at quorum, index-based lookup...). *)
(* The MC modules check the algorithm layer against the property layer;    *)
(* the Gen modules print every case with both results.  Only the verdict   *)
(* is an oracle for the real code, the Alg result is compared as drift.    *)
(***************************************************************************)
EXTENDS Integers, Sequences, FiniteSets

RECURSIVE HvSumTo(_, _)
HvSumTo(f, n) == IF n = 0 THEN 0 ELSE f[n] + HvSumTo(f, n - 1)
HvSum(seq) == HvSumTo(seq, Len(seq))
HvMin(a, b) == IF a < b THEN a ELSE b

---------------------------------------------------------------------------
(* Votes and signatures *)

\* canonical vote: what a validator signs (type is always precommit in a commit)
Msg(chain, h, round, bid, ts) ==
    [chain |-> chain, h |-> h, round |-> round, bid |-> bid, ts |-> ts]
Sig(k, m) == [key |-> k, chain |-> m.chain, h |-> m.h, round |-> m.round, bid |-> m.bid, ts |-> m.ts]
SigMsg(s) == Msg(s.chain, s.h, s.round, s.bid, s.ts)
SigValid(s, k, m) == k > 0 /\ s.key = k /\ SigMsg(s) = m

\* a validator: [key, power]; its address is Addr(key) = key
Val(k, p) == [key |-> k, power |-> p]
Total(vals) == HvSum([i \in 1..Len(vals) |-> vals[i].power])

\* a commit entry: [flag \in {"absent","nil","commit"}, addr, ts, sig]
\* a commit: [h, round, bid, sigs]
\* message entry i of commit c has to carry when c is presented for (chain, h)
EntryMsg(chain, h, c, i) == Msg(chain, h, c.round, c.bid, c.sigs[i].ts)

---------------------------------------------------------------------------
(* C03, property layer: light verification (2/3 of the set itself) *)

\* validator i of the set has a valid block-commit signature in c for block (chain,h,c.bid)
LightSigner(vals, chain, h, c, i) ==
    /\ i <= Len(c.sigs)
    /\ c.sigs[i].flag = "commit"
    /\ SigValid(c.sigs[i].sig, vals[i].key, EntryMsg(chain, h, c, i))

LightSignedPower(vals, chain, h, c) ==
    HvSum([i \in 1..Len(vals) |-> IF LightSigner(vals, chain, h, c, i) THEN vals[i].power ELSE 0])

\* the antecedent of the exactness clause: right height, one entry per validator (at its own
\* index, under its own address), every block-commit signature valid
LightWellFormed(vals, chain, h, c) ==
    /\ c.h = h
    /\ Len(c.sigs) = Len(vals)
    /\ \A i \in 1..Len(vals) :
          /\ c.sigs[i].flag # "absent" => c.sigs[i].addr = vals[i].key
          /\ c.sigs[i].flag = "commit" => LightSigner(vals, chain, h, c, i)

LightVerdict(vals, chain, h, c) ==
    IF 3 * LightSignedPower(vals, chain, h, c) <= 2 * Total(vals) THEN "MustReject"
    ELSE IF LightWellFormed(vals, chain, h, c) THEN "MustAccept"
    ELSE "Either"

(* C03, property layer: trusting verification (1/3 of a trusted set) *)

\* trusted validator j has a valid block-commit signature in c (entry names j's address)
TrustSigner(tvals, chain, c, j) ==
    \E i \in 1..Len(c.sigs) :
        /\ c.sigs[i].flag = "commit"
        /\ c.sigs[i].addr = tvals[j].key
        /\ SigValid(c.sigs[i].sig, tvals[j].key, EntryMsg(chain, c.h, c, i))

\* a SET of validators: nobody is counted twice
TrustSigners(tvals, chain, c) == {j \in 1..Len(tvals) : TrustSigner(tvals, chain, c, j)}
TrustSignedPower(tvals, chain, c) ==
    HvSum([j \in 1..Len(tvals) |-> IF j \in TrustSigners(tvals, chain, c) THEN tvals[j].power ELSE 0])

\* well-formed commit of the (untrusted) set uvals: one entry per validator of uvals under
\* its own address, all block-commit signatures valid
TrustWellFormed(uvals, chain, c) ==
    /\ Len(c.sigs) = Len(uvals)
    /\ \A i, k \in 1..Len(uvals) : i # k => uvals[i].key # uvals[k].key
    /\ \A i \in 1..Len(uvals) :
          /\ c.sigs[i].flag # "absent" => c.sigs[i].addr = uvals[i].key
          /\ c.sigs[i].flag = "commit" =>
                SigValid(c.sigs[i].sig, uvals[i].key, EntryMsg(chain, c.h, c, i))

TrustVerdict(tvals, uvals, chain, c) ==
    IF 3 * TrustSignedPower(tvals, chain, c) <= Total(tvals) THEN "MustReject"
    ELSE IF TrustWellFormed(uvals, chain, c) THEN "MustAccept"
    ELSE "Either"

---------------------------------------------------------------------------
(* C03, algorithm layer: ValidatorSetExt::verify_commit_light{,_trusting} *)

RECURSIVE AlgLightFrom(_, _, _, _, _, _)
AlgLightFrom(vals, chain, c, i, tally, need) ==
    IF i > Len(vals) THEN "err_power"
    ELSE LET e == c.sigs[i] IN
         IF e.flag # "commit" THEN AlgLightFrom(vals, chain, c, i + 1, tally, need)
         ELSE IF e.sig.key = -1 THEN "err_nosig"
         ELSE IF ~SigValid(e.sig, vals[i].key, EntryMsg(chain, c.h, c, i)) THEN "err_sig"
         ELSE IF tally + vals[i].power > need THEN "ok"
         ELSE AlgLightFrom(vals, chain, c, i + 1, tally + vals[i].power, need)

AlgLight(vals, chain, h, c) ==
    IF Len(vals) # Len(c.sigs) THEN "err_len"
    ELSE IF h # c.h THEN "err_height"
    ELSE AlgLightFrom(vals, chain, c, 1, 0, (2 * Total(vals)) \div 3)

\* number of entries the light algorithm looks at before it returns ok (0 if it does not)
RECURSIVE AlgLightQuorumAt(_, _, _, _, _, _)
AlgLightQuorumAt(vals, chain, c, i, tally, need) ==
    IF i > Len(vals) \/ i > Len(c.sigs) THEN 0
    ELSE LET e == c.sigs[i] IN
         IF e.flag # "commit" THEN AlgLightQuorumAt(vals, chain, c, i + 1, tally, need)
         ELSE IF ~SigValid(e.sig, vals[i].key, EntryMsg(chain, c.h, c, i)) THEN 0
         ELSE IF tally + vals[i].power > need THEN i
         ELSE AlgLightQuorumAt(vals, chain, c, i + 1, tally + vals[i].power, need)
LightQuorumAt(vals, chain, c) == AlgLightQuorumAt(vals, chain, c, 1, 0, (2 * Total(vals)) \div 3)

FindVal(tvals, addr) ==
    LET S == {j \in 1..Len(tvals) : tvals[j].key = addr}
    IN IF S = {} THEN 0 ELSE CHOOSE j \in S : \A k \in S : j <= k

RECURSIVE AlgTrustFrom(_, _, _, _, _, _, _)
AlgTrustFrom(tvals, chain, c, i, seen, tally, need) ==
    IF i > Len(c.sigs) THEN "err_power"
    ELSE LET e == c.sigs[i]
             j == FindVal(tvals, e.addr) IN
         IF e.flag # "commit" THEN AlgTrustFrom(tvals, chain, c, i + 1, seen, tally, need)
         ELSE IF e.sig.key = -1 THEN "err_nosig"
         ELSE IF j = 0 THEN AlgTrustFrom(tvals, chain, c, i + 1, seen, tally, need)
         ELSE IF j \in seen THEN "err_double"
         ELSE IF ~SigValid(e.sig, tvals[j].key, EntryMsg(chain, c.h, c, i)) THEN "err_sig"
         ELSE IF tally + tvals[j].power > need THEN "ok"
         ELSE AlgTrustFrom(tvals, chain, c, i + 1, seen \cup {j}, tally + tvals[j].power, need)

AlgTrust(tvals, chain, c) == AlgTrustFrom(tvals, chain, c, 1, {}, 0, Total(tvals) \div 3)

=============================================================================
