CONSTANT NTasks = 6
CONSTANT MaxSteps = 60
CONSTANT Deviation = "none"
INIT TInit
NEXT TNext
INVARIANTS JoinOnlyAfterEnd OneStepAfterCancel
PROPERTIES NoStepAfterSaw
POSTCONDITION Accepted
CHECK_DEADLOCK FALSE
