CONSTANTS
  N = 6
  Batch = 2
  WSamp = 3
  WPrune = 4
  AsIsDeviation = FALSE
  EnablePrune = TRUE
  EnableForeign = FALSE
  SlowThr = 1000000
SPECIFICATION Spec
INVARIANTS TypeOK NoRequestBelowOldHeader FetchAllowed StoreOnHonestChain HeadAboveSynced
CHECK_DEADLOCK FALSE
