CONSTANT K = 2
CONSTANT Complete = TRUE
INIT Init
NEXT GenNext
CHECK_DEADLOCK FALSE
