------------------------------ MODULE HxFraming -----------------------------
(***************************************************************************)
(* C30.  Header-ex wire framing: length-delimited protobuf frames written  *)
(* by the codec and read back through a stream that delivers the bytes in  *)
(* arbitrary chunks, possibly cut short (EOF or a stalled peer) or         *)
(* followed by garbage.                                                    *)
(*                                                                         *)
(* A frame is abstracted to the tokens at whose boundaries a reader could  *)
(* go wrong:                                                               *)
(*   class "e" (empty body)          <<P>>                                 *)
(*   class "s" (1-byte varint)       <<P, B1, B2>>                         *)
(*   class "l" (2-byte varint)       <<P1, P2, B1, B2>>                    *)
(*   class "x" (4-byte varint, fills the size limit) <<P1, P2, B1, B2>>    *)
(* (prefix bytes, first part of the body, rest of the body; the harness    *)
(* picks the concrete split point inside the body at random).  Garbage is  *)
(* two tokens <<G1, G2>> that never form a frame.  The stream is the       *)
(* concatenation; chunk boundaries are any subset of the token boundaries; *)
(* `trunc` tokens are delivered, then EOF or silence.                      *)
(*                                                                         *)
(* Algorithmic layer: the reader appends chunks until the stream ends,     *)
(* then parses frames from the front (read_up_to, then the frame parser).  *)
(* Property layer (DESIGN 7 C30):                                          *)
(*   clean stream (all tokens, no garbage) -> exactly the written value;   *)
(*   otherwise, responses -> an error or a non-empty prefix of the written *)
(*     list consisting of frames that were delivered completely;           *)
(*   requests -> an error if the frame is incomplete or garbage leads; if  *)
(*     the complete frame is followed by garbage both outcomes pass.       *)
(* The empty response list is outside the domain (it has no encoding).     *)
(***************************************************************************)
EXTENDS Naturals, Sequences, FiniteSets

CONSTANTS Classes,     \* frame classes in use
          MaxFrames,   \* frames per response list
          MaxCuts,     \* chunk boundaries per stream
          Garbage      \* garbage kinds in use ("none" always)

VARIABLES cfg, delivered, phase, result
vars == <<cfg, delivered, phase, result>>

Toks(c) == IF c = "e" THEN 1 ELSE IF c = "s" THEN 3 ELSE 4
RECURSIVE EndPos(_, _)
EndPos(fs, i) == IF i = 0 THEN 0 ELSE EndPos(fs, i - 1) + Toks(fs[i])
GTok(g) == IF g = "none" THEN 0 ELSE 2
StreamLen(fs, g) == EndPos(fs, Len(fs)) + GTok(g)
\* number of frames lying completely within the first d tokens
CompleteFrames(fs, d) == Cardinality({i \in 1..Len(fs) : EndPos(fs, i) <= d})

FrameLists(mode) ==
    IF mode = "req" THEN {<<>>} \cup {<<c>> : c \in Classes}
    ELSE UNION {[1..k -> Classes] : k \in 0..MaxFrames}

RECURSIVE SubsetsUpTo(_, _)
SubsetsUpTo(S, k) == IF k = 0 THEN {{}}
                     ELSE LET prev == SubsetsUpTo(S, k - 1) IN prev \cup {p \cup {x} : p \in prev, x \in S}

IsConfig(c) ==
    /\ c.mode \in {"req", "resp"} /\ c.frames \in FrameLists(c.mode) /\ c.garbage \in Garbage
    /\ (c.frames = <<>> => c.garbage # "none")
    /\ c.trunc <= StreamLen(c.frames, c.garbage)
    /\ Cardinality(c.cuts) <= MaxCuts
    /\ \A p \in c.cuts : 1 <= p /\ p < c.trunc
    /\ c.end \in {"eof", "stall"}

Err == 0   \* result: 0 = error, k > 0 = Ok(first k frames)

Parse(c, d) ==
    LET k == CompleteFrames(c.frames, d) IN
    IF c.mode = "req" THEN (IF k >= 1 THEN 1 ELSE Err) ELSE k

NextStop(c, d) == LET later == {p \in c.cuts \cup {c.trunc} : p > d}
                  IN CHOOSE p \in later : \A q \in later : p <= q

Init == /\ \E m \in {"req", "resp"} : \E f \in FrameLists(m) : \E g \in Garbage :
             /\ (f = <<>> => g # "none")
             /\ \E t \in 0..StreamLen(f, g) : \E cs \in SubsetsUpTo(1..(t - 1), MaxCuts) : \E e \in {"eof", "stall"} :
                    cfg = [mode |-> m, frames |-> f, garbage |-> g, cuts |-> cs, trunc |-> t, end |-> e]
        /\ delivered = 0 /\ phase = "reading" /\ result = Err
ReadChunk == /\ phase = "reading" /\ delivered < cfg.trunc
             /\ delivered' = NextStop(cfg, delivered)
             /\ UNCHANGED <<cfg, phase, result>>
\* EOF (read returns 0) or the time limit passing on a silent peer
EndOfStream == /\ phase = "reading" /\ delivered = cfg.trunc
               /\ phase' = "done" /\ result' = Parse(cfg, delivered)
               /\ UNCHANGED <<cfg, delivered>>
Next == ReadChunk \/ EndOfStream
Spec == Init /\ [][Next]_vars

(* ---- property layer ---- *)
Clean(c) == c.trunc = StreamLen(c.frames, c.garbage) /\ c.garbage = "none"
\* "exact": the written value; "err": an error; "prefix": an error or Ok of 1..K complete frames
Must(c) ==
    IF Clean(c) THEN "exact"
    ELSE IF CompleteFrames(c.frames, c.trunc) = 0 THEN "err"
    ELSE "prefix"
K(c) == IF c.mode = "req" THEN (IF CompleteFrames(c.frames, c.trunc) >= 1 THEN 1 ELSE 0)
        ELSE CompleteFrames(c.frames, c.trunc)

Allowed(c, r) ==
    CASE Must(c) = "exact"  -> r = Len(c.frames)
      [] Must(c) = "err"    -> r = Err
      [] Must(c) = "prefix" -> r = Err \/ (1 <= r /\ r <= K(c))

TypeOK == IsConfig(cfg) /\ delivered <= cfg.trunc /\ phase \in {"reading", "done"}
\* the design satisfies the property, and the result depends on the concatenation only
DesignAllowed == phase = "done" => Allowed(cfg, result)
ChunkIndependent == phase = "done" => result = Parse([cfg EXCEPT !.cuts = {}], cfg.trunc)
=============================================================================
