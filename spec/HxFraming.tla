------------------------------ MODULE HxFraming -----------------------------
(***************************************************************************)
(* C30.  Header-ex wire framing: length-delimited protobuf frames written  *)
(* by the codec and read back through a stream that delivers the bytes in  *)
(* arbitrary chunks, possibly cut short (EOF or a stalled peer) or         *)
(* followed by garbage.                                                    *)
(*                                                                         *)
(* A frame is abstracted to the tokens at whose boundaries a reader could  *)
(* go wrong:                                                               *)
(*   class "e" (empty body)          <<P>>                                 *)
(*   class "s" (1-byte varint)       <<P, B1, B2>>                         *)
(*   class "l" (2-byte varint)       <<P1, P2, B1, B2>>                    *)
(*   class "x" (padded so that the whole stream has a chosen total size:   *)
(*              around every power of two from 64 KiB to 8 MiB and around  *)
(*              the codec's size limit)                <<P1, P2, B1, B2>>  *)
(* (prefix bytes, first part of the body, rest of the body; the harness    *)
(* picks the concrete split point inside the body at random).  Garbage is  *)
(* two tokens <<G1, G2>> that never form a frame.  The stream is the       *)
(* concatenation; chunk boundaries are any subset of the token boundaries; *)
(* `trunc` tokens are delivered, then EOF or silence.                      *)
(*                                                                         *)
(* Algorithmic layer: the reader appends chunks until the stream ends,     *)
(* then parses frames from the front (read_up_to, then the frame parser).  *)
(* Property layer (DESIGN 7 C30):                                          *)
(*   clean stream (all tokens, no garbage) -> exactly the written value;   *)
(*   otherwise, responses -> an error or a non-empty prefix of the written *)
(*     list consisting of frames that were delivered completely;           *)
(*   requests -> an error if the frame is incomplete or garbage leads; if  *)
(*     the complete frame is followed by garbage both outcomes pass.       *)
(* The empty response list is outside the domain (it has no encoding).     *)
(***************************************************************************)
EXTENDS Naturals, Sequences, FiniteSets

CONSTANTS Classes,     \* frame classes in use
          MaxFrames,   \* frames per response list
          MaxCuts,     \* chunk boundaries per stream
          Garbage      \* garbage kinds in use ("none" always)

CONSTANTS Sizes,       \* size targets for streams whose last frame is of class "x" (see SizeNames)
          FullOnly     \* TRUE: only complete streams ending by EOF (the expensive size rounds)

VARIABLES cfg, delivered, phase, result
vars == <<cfg, delivered, phase, result>>

Toks(c) == IF c = "e" THEN 1 ELSE IF c = "s" THEN 3 ELSE 4
RECURSIVE EndPos(_, _)
EndPos(fs, i) == IF i = 0 THEN 0 ELSE EndPos(fs, i - 1) + Toks(fs[i])
GTok(g) == IF g = "none" THEN 0 ELSE 2
StreamLen(fs, g) == EndPos(fs, Len(fs)) + GTok(g)
\* number of frames lying completely within the first d tokens
CompleteFrames(fs, d) == Cardinality({i \in 1..Len(fs) : EndPos(fs, i) <= d})

\* a frame of class "x" is padded so that the whole stream has the target size; it is the last frame
XLast(f) == \A i \in 1..(Len(f) - 1) : f[i] # "x"
FrameLists(mode) ==
    IF mode = "req" THEN {<<>>} \cup {<<c>> : c \in Classes}
    ELSE {f \in UNION {[1..k -> Classes] : k \in 0..MaxFrames} : XLast(f)}

(* Size targets: total length of the written stream in bytes.  "pN", "pN-1", "pN+1" = 2^N, 2^N -+ 1  *)
(* (N = 16..23: 64 KiB .. 8 MiB, the sizes around which a growing read buffer changes), "lim-1",   *)
(* "lim", "lim+1" around the codec's size limit (1024 B for a request, 10 MiB for a response list). *)
(* A stream fits iff its size is at most the limit of its direction.                                *)
PowNames == UNION {{"p16", "p17", "p18", "p19", "p20", "p21", "p22", "p23"},
                   {"p16-1", "p17-1", "p18-1", "p19-1", "p20-1", "p21-1", "p22-1", "p23-1"},
                   {"p16+1", "p17+1", "p18+1", "p19+1", "p20+1", "p21+1", "p22+1", "p23+1"}}
SizeNames == PowNames \cup {"lim-1", "lim", "lim+1"}
Fits(mode, sz) == sz = "na" \/ sz \in {"lim-1", "lim"} \/ (mode = "resp" /\ sz \in PowNames)
SizesOf(f) == IF f # <<>> /\ f[Len(f)] = "x" THEN Sizes ELSE {"na"}
\* a stream that does not fit is cut by the reader inside its last ("x") frame
Oversize(c) == ~Fits(c.mode, c.size)
CF(c, d) == LET k == CompleteFrames(c.frames, d)
            IN IF Oversize(c) /\ k = Len(c.frames) THEN k - 1 ELSE k

RECURSIVE SubsetsUpTo(_, _)
SubsetsUpTo(S, k) == IF k = 0 THEN {{}}
                     ELSE LET prev == SubsetsUpTo(S, k - 1) IN prev \cup {p \cup {x} : p \in prev, x \in S}

IsConfig(c) ==
    /\ c.mode \in {"req", "resp"} /\ c.frames \in FrameLists(c.mode) /\ c.garbage \in Garbage
    /\ (c.frames = <<>> => c.garbage # "none")
    /\ c.trunc <= StreamLen(c.frames, c.garbage)
    /\ Cardinality(c.cuts) <= MaxCuts
    /\ \A p \in c.cuts : 1 <= p /\ p < c.trunc
    /\ c.end \in {"eof", "stall"}
    /\ c.size \in SizesOf(c.frames) /\ Sizes \subseteq SizeNames

Err == 0   \* result: 0 = error, k > 0 = Ok(first k frames)

Parse(c, d) ==
    LET k == CF(c, d) IN
    IF c.mode = "req" THEN (IF k >= 1 THEN 1 ELSE Err) ELSE k

NextStop(c, d) == LET later == {p \in c.cuts \cup {c.trunc} : p > d}
                  IN CHOOSE p \in later : \A q \in later : p <= q

Init == /\ \E m \in {"req", "resp"} : \E f \in FrameLists(m) : \E g \in Garbage :
             /\ (f = <<>> => g # "none")
             /\ \E t \in (IF FullOnly THEN {StreamLen(f, g)} ELSE 0..StreamLen(f, g)) :
                \E cs \in SubsetsUpTo(1..(t - 1), MaxCuts) : \E e \in (IF FullOnly THEN {"eof"} ELSE {"eof", "stall"}) :
                \E sz \in SizesOf(f) :
                    cfg = [mode |-> m, frames |-> f, garbage |-> g, cuts |-> cs, trunc |-> t, end |-> e, size |-> sz]
        /\ delivered = 0 /\ phase = "reading" /\ result = Err
ReadChunk == /\ phase = "reading" /\ delivered < cfg.trunc
             /\ delivered' = NextStop(cfg, delivered)
             /\ UNCHANGED <<cfg, phase, result>>
\* EOF (read returns 0) or the time limit passing on a silent peer
EndOfStream == /\ phase = "reading" /\ delivered = cfg.trunc
               /\ phase' = "done" /\ result' = Parse(cfg, delivered)
               /\ UNCHANGED <<cfg, delivered>>
Next == ReadChunk \/ EndOfStream
Spec == Init /\ [][Next]_vars

(* ---- property layer ---- *)
Clean(c) == c.trunc = StreamLen(c.frames, c.garbage) /\ c.garbage = "none" /\ ~Oversize(c)
\* "exact": the written value; "err": an error; "prefix": an error or Ok of 1..K complete frames
Must(c) ==
    IF Clean(c) THEN "exact"
    ELSE IF CF(c, c.trunc) = 0 THEN "err"
    ELSE "prefix"
K(c) == IF c.mode = "req" THEN (IF CF(c, c.trunc) >= 1 THEN 1 ELSE 0)
        ELSE CF(c, c.trunc)

Allowed(c, r) ==
    CASE Must(c) = "exact"  -> r = Len(c.frames)
      [] Must(c) = "err"    -> r = Err
      [] Must(c) = "prefix" -> r = Err \/ (1 <= r /\ r <= K(c))

TypeOK == IsConfig(cfg) /\ delivered <= cfg.trunc /\ phase \in {"reading", "done"}
\* the design satisfies the property, and the result depends on the concatenation only
DesignAllowed == phase = "done" => Allowed(cfg, result)
ChunkIndependent == phase = "done" => result = Parse([cfg EXCEPT !.cuts = {}], cfg.trunc)
=============================================================================
