CONSTANT Subs = {1, 2, 3, 4, 5, 6}
SPECIFICATION TSpec
POSTCONDITION Accepted
CHECK_DEADLOCK FALSE
