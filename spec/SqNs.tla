-------------------------------- MODULE SqNs --------------------------------
(***************************************************************************)
(* C06.  Namespace data over an abstract square.  The ODS (width K) holds   *)
(* namespaces from a palette, sorted row-major; every other cell is parity. *)
(* A NamespaceData value for namespace t is a list of row entries; an entry *)
(* carries shares and an NMT proof.  Proofs are symbolic: the genuine       *)
(* complete-namespace / range proof of nmt-rs for leaves [lo, hi) of row    *)
(* `prow` ("presence"), or the genuine proof of the single leaf `lo` used   *)
(* as an absence proof.  Shares are identified by the coordinates they were *)
(* committed at (Square.tla conventions).                                   *)
(*                                                                         *)
(* Property layer  (NsDemand):  the honest data must be accepted; anything  *)
(*   whose content differs from the brute-force scan (rows whose range      *)
(*   covers t, in row order, exactly the shares of t) must be rejected.     *)
(* Algorithmic layer (NsCode): NamespaceData::verify = row count check +    *)
(*   per row, in order, complete-namespace verification (RowOk), which is   *)
(*   the contract of a correct NMT verifier under collision-freeness.       *)
(***************************************************************************)
EXTENDS Integers, Sequences, FiniteSets, TLC

CONSTANTS K,
          Complete    \* TRUE: the verifier checks namespace completeness (FALSE: sensitivity run)
W    == 2 * K
Idx  == 0..(W - 1)
Palette == 1..5          \* 1 = a reserved low namespace, 5 = tail padding, 2..4 user namespaces
Par     == 9             \* PARITY_SHARE, the maximum namespace
Targets == (0..6) \cup {Par}

VARIABLE kase

Sorted(q) == \A i \in 1..(K * K - 1) : q[i] <= q[i + 1]
Squares   == {q \in [1..(K * K) -> Palette] : Sorted(q)}

NsAt(q, r, c) == IF r < K /\ c < K THEN q[r * K + c + 1] ELSE Par
\* namespace range of a row root (parity is ignored unless the row is all parity)
RowLo(q, r) == IF r < K THEN NsAt(q, r, 0) ELSE Par
RowHi(q, r) == IF r < K THEN NsAt(q, r, K - 1) ELSE Par
Covers(q, r, t) == RowLo(q, r) <= t /\ t <= RowHi(q, r)

RECURSIVE SeqOfRows(_, _, _)
SeqOfRows(q, t, r) == IF r = W THEN <<>> ELSE (IF Covers(q, r, t) THEN <<r>> ELSE <<>>) \o SeqOfRows(q, t, r + 1)
RowsFor(q, t) == SeqOfRows(q, t, 0)

ColsOf(q, r, t) == {c \in Idx : NsAt(q, r, c) = t}
MinOf(S) == CHOOSE x \in S : \A y \in S : x <= y
MaxOf(S) == CHOOSE x \in S : \A y \in S : x >= y
CellsOf(r, lo, hi) == [i \in 1..(IF hi > lo THEN hi - lo ELSE 0) |-> <<"cell", r, lo + i - 1>>]

\* brute-force scan: per covered row, the shares of t in column order
Scan(q, t) == [j \in 1..Len(RowsFor(q, t)) |->
                 LET r == RowsFor(q, t)[j] cs == ColsOf(q, r, t) IN
                 IF cs = {} THEN <<>> ELSE CellsOf(r, MinOf(cs), MaxOf(cs) + 1)]

\* An entry.  Range actually proven = [lo + dl, hi + dh); (lo, hi) are block-aligned coordinates
\* and (dl, dh) single-leaf adjustments, kept apart so that the harness can scale them.
Ent(kind, prow, lo, hi, dl, dh, shares) ==
    [kind |-> kind, prow |-> prow, lo |-> lo, hi |-> hi, dl |-> dl, dh |-> dh, shares |-> shares]
PLo(e) == e.lo + e.dl
PHi(e) == e.hi + e.dh

\* what the square itself produces for (row r, namespace t): r need not be covered
SuccPos(q, r, t) == LET S == {c \in Idx : NsAt(q, r, c) > t} IN IF S = {} THEN W - 1 ELSE MinOf(S)
HonestEnt(q, r, t) ==
    LET cs == ColsOf(q, r, t) IN
    IF cs # {} THEN Ent("presence", r, MinOf(cs), MaxOf(cs) + 1, 0, 0, CellsOf(r, MinOf(cs), MaxOf(cs) + 1))
    ELSE LET p == SuccPos(q, r, t) IN Ent("absence", r, p, p + 1, 0, 0, <<>>)
HonestData(q, t) == [j \in 1..Len(RowsFor(q, t)) |-> HonestEnt(q, RowsFor(q, t)[j], t)]

(* ---- algorithmic layer *)
ShareNs(q, sh) == NsAt(q, sh[2], sh[3])          \* an altered share keeps its namespace prefix
RowOk(q, e, r, t) ==
    /\ (Len(e.shares) = 0) <=> (e.kind = "absence")                     \* WrongProofType
    /\ \A i \in 1..Len(e.shares) : ShareNs(q, e.shares[i]) = t           \* from_raw: equal namespaces
    /\ e.prow = r /\ 0 <= PLo(e) /\ PLo(e) < PHi(e) /\ PHi(e) <= W      \* proof recombines only with its own row
    /\ IF e.kind = "presence"
       THEN /\ e.shares = CellsOf(r, PLo(e), PHi(e))                    \* leaf hashes recombine to the root
            /\ Complete => (PLo(e) = 0 \/ NsAt(q, r, PLo(e) - 1) < t)   \* completeness to the left
            /\ Complete => (PHi(e) = W \/ NsAt(q, r, PHi(e)) > t)       \* and to the right
       ELSE /\ PHi(e) = PLo(e) + 1
            /\ NsAt(q, r, PLo(e)) > t                                   \* the leaf follows the namespace
            /\ PLo(e) = 0 \/ NsAt(q, r, PLo(e) - 1) < t                 \* and its left neighbour precedes it
NsCode(q, t, es) ==
    LET rows == RowsFor(q, t) IN
    /\ Len(es) = Len(rows)
    /\ \A j \in 1..Len(es) : RowOk(q, es[j], rows[j], t)

(* ---- property layer *)
Content(es) == [j \in 1..Len(es) |-> es[j].shares]
NsDemand(q, t, es) ==
    IF es = HonestData(q, t) THEN "accept"
    ELSE IF Content(es) = Scan(q, t) THEN "either"
    ELSE "reject"

Verdict(b) == IF b THEN "accept" ELSE "reject"
Conforms(demand, got) == demand = "either" \/ demand = got

(* ---- case space: the honest data with one edit *)
Seed(q, t) == [cls |-> "init", q |-> q, t |-> t]
Mk(cls, mut, es) == [cls |-> cls, mut |-> mut, q |-> kase.q, t |-> kase.t, es |-> es]
Init == kase \in {Seed(q, t) : q \in Squares, t \in Targets}

H == HonestData(kase.q, kase.t)
Without(s, j) == SubSeq(s, 1, j - 1) \o SubSeq(s, j + 1, Len(s))

Honest == kase.cls = "init" /\ kase' = Mk("honest", <<"none">>, H)

RowEdit ==
    /\ kase.cls = "init"
    /\ \/ \E j \in 1..Len(H) : kase' = Mk("rowedit", <<"drop_row", j - 1>>, Without(H, j))
       \/ \E j \in 1..Len(H) : kase' = Mk("rowedit", <<"dup_row", j - 1>>, SubSeq(H, 1, j) \o SubSeq(H, j, Len(H)))
       \/ \E i \in 1..Len(H), j \in 1..Len(H) :
             i < j /\ kase' = Mk("rowedit", <<"swap_rows", i - 1, j - 1>>, [H EXCEPT ![i] = H[j], ![j] = H[i]])
       \/ \E r \in Idx : ~Covers(kase.q, r, kase.t) /\
             kase' = Mk("rowedit", <<"add_row", r>>, H \o <<HonestEnt(kase.q, r, kase.t)>>)

ShareEdit ==
    /\ kase.cls = "init"
    /\ \E j \in 1..Len(H) :
         LET e == H[j] n == Len(e.shares) IN
         /\ e.kind = "presence"
         /\ \/ kase' = Mk("shareedit", <<"drop_first", j - 1>>,
                          [H EXCEPT ![j] = IF n > 1 THEN [e EXCEPT !.dl = 1, !.shares = SubSeq(e.shares, 2, n)]
                                                  ELSE [e EXCEPT !.shares = <<>>]])
            \/ kase' = Mk("shareedit", <<"drop_last", j - 1>>,
                          [H EXCEPT ![j] = IF n > 1 THEN [e EXCEPT !.dh = -1, !.shares = SubSeq(e.shares, 1, n - 1)]
                                                  ELSE [e EXCEPT !.shares = <<>>]])
            \/ e.lo > 0 /\ kase' = Mk("shareedit", <<"add_left", j - 1>>,
                          [H EXCEPT ![j] = [e EXCEPT !.dl = -1, !.shares = <<<<"cell", e.prow, e.lo - 1>>>> \o e.shares]])
            \/ e.hi < W /\ kase' = Mk("shareedit", <<"add_right", j - 1>>,
                          [H EXCEPT ![j] = [e EXCEPT !.dh = 1, !.shares = e.shares \o <<<<"cell", e.prow, e.hi>>>>]])
            \/ kase' = Mk("shareedit", <<"alt_share", j - 1>>,
                          [H EXCEPT ![j] = [e EXCEPT !.shares = <<<<"alt", e.shares[1][2], e.shares[1][3]>>>> \o SubSeq(e.shares, 2, n)]])

Substitute ==
    /\ kase.cls = "init"
    /\ \E j \in 1..Len(H) :
         LET e == H[j] IN
         \/ \E t2 \in Targets \ {kase.t} :
               kase' = Mk("substitute", <<"subst_ns", j - 1, t2>>, [H EXCEPT ![j] = HonestEnt(kase.q, e.prow, t2)])
         \/ \E r2 \in Idx \ {e.prow} :
               kase' = Mk("substitute", <<"subst_row", j - 1, r2>>, [H EXCEPT ![j] = HonestEnt(kase.q, r2, kase.t)])
         \/ /\ e.kind = "presence"
            /\ \E p \in ({e.hi} \cap Idx) \cup ({e.lo - 1} \cap Idx) :
                  kase' = Mk("substitute", <<"to_absence", j - 1, p>>,
                             [H EXCEPT ![j] = Ent("absence", e.prow, p, p + 1, 0, 0, <<>>)])
         \/ /\ e.kind = "absence"
            /\ kase' = Mk("substitute", <<"to_presence", j - 1>>,
                          [H EXCEPT ![j] = Ent("presence", e.prow, e.lo, e.hi, 0, 0, CellsOf(e.prow, e.lo, e.hi))])

(* ---- single rows: RowNamespaceData::verify(id(row, namespace), dah), for ANY row (its range may or may *)
(* ---- not cover the namespace), with the shares and the proof taken from anywhere                      *)
\* what the row really holds of t
WantRow(q, r, t) == LET cs == ColsOf(q, r, t) IN IF cs = {} THEN <<>> ELSE CellsOf(r, MinOf(cs), MaxOf(cs) + 1)
\* algorithmic layer: as RowOk, except that nmt-rs accepts an absence proof unseen when the root's range
\* does not cover the namespace (so the shares/proof-type guard is what keeps foreign shares out)
RowVerify(q, e, r, t) ==
    IF ~Covers(q, r, t) /\ e.kind = "absence"
    THEN Len(e.shares) = 0
    ELSE Covers(q, r, t) /\ RowOk(q, e, r, t)
SingleDemand(q, e, r, t) ==
    IF Covers(q, r, t) /\ e = HonestEnt(q, r, t) THEN "accept"
    ELSE IF e.shares = WantRow(q, r, t) THEN "either"
    ELSE "reject"

MkS(mut, r, e) == [cls |-> "single", mut |-> mut, q |-> kase.q, t |-> kase.t, row |-> r, e |-> e]
SingleRow ==
    /\ kase.cls = "init"
    /\ \E r \in Idx :
         LET hon == HonestEnt(kase.q, r, kase.t) IN
         \/ kase' = MkS(<<"own">>, r, hon)
         \* the entry of another row, as it is
         \/ \E r2 \in Idx \ {r} : kase' = MkS(<<"of_row", r2>>, r, HonestEnt(kase.q, r2, kase.t))
         \* the row's own absence-shaped proof (leaf following the namespace) with the shares of t of any row
         \/ \E r2 \in Idx : WantRow(kase.q, r2, kase.t) # <<>> /\
               LET p == SuccPos(kase.q, r, kase.t) IN
               kase' = MkS(<<"absence_with_shares", r2>>, r, Ent("absence", r, p, p + 1, 0, 0, WantRow(kase.q, r2, kase.t)))
         \* another row's absence proof with shares
         \/ \E r2 \in Idx, r3 \in Idx \ {r} : WantRow(kase.q, r2, kase.t) # <<>> /\
               LET p == SuccPos(kase.q, r3, kase.t) IN
               kase' = MkS(<<"foreign_absence_with_shares", r2, r3>>, r, Ent("absence", r3, p, p + 1, 0, 0, WantRow(kase.q, r2, kase.t)))
         \* the row's own presence proof with the shares of t of another row
         \/ \E r2 \in Idx \ {r} : hon.kind = "presence" /\ WantRow(kase.q, r2, kase.t) # <<>> /\
               kase' = MkS(<<"presence_with_foreign_shares", r2>>, r, [hon EXCEPT !.shares = WantRow(kase.q, r2, kase.t)])
         \* no shares at all with the row's presence proof / the honest absence proof for a row that has shares
         \/ hon.kind = "presence" /\ kase' = MkS(<<"presence_without_shares">>, r, [hon EXCEPT !.shares = <<>>])

Next == Honest \/ RowEdit \/ ShareEdit \/ Substitute \/ SingleRow

SingleSound == kase.cls = "single" =>
    Conforms(SingleDemand(kase.q, kase.e, kase.row, kase.t), Verdict(RowVerify(kase.q, kase.e, kase.row, kase.t)))
\* the statement for one row: accepted => exactly the shares of t in that row
SingleOnlyOwn == (kase.cls = "single" /\ RowVerify(kase.q, kase.e, kase.row, kase.t)) => kase.e.shares = WantRow(kase.q, kase.row, kase.t)
NsSound == kase.cls \notin {"init", "single"} => Conforms(NsDemand(kase.q, kase.t, kase.es), Verdict(NsCode(kase.q, kase.t, kase.es)))
\* the statement, spelled out
AcceptOnlyScan == (kase.cls \notin {"init", "single"} /\ NsCode(kase.q, kase.t, kase.es)) => Content(kase.es) = Scan(kase.q, kase.t)
HonestIsScan   == kase.cls = "honest" => (Content(kase.es) = Scan(kase.q, kase.t) /\ NsCode(kase.q, kase.t, kase.es))
=============================================================================
