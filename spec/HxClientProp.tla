---------------------------- MODULE HxClientProp ----------------------------
(***************************************************************************)
(* C31 / C32, property layer: a monitor over the observable events of the  *)
(* header-ex client handler.  Pure operators on a monitor record, so that  *)
(* the same definition judges (a) every step of the algorithmic model      *)
(* HxClient (TLC, exhaustive) and (b) traces recorded from the real        *)
(* HeaderExClientHandler (Trace_HxClientProp).                             *)
(*                                                                         *)
(* Events (records with fields name, c, id, p, t, o, k):                   *)
(*   conn/disc/arch/trust p       peer tracker changes (disc clears arch)  *)
(*   request c t                  caller c asks; t = "get" | "head" | "bad"*)
(*   cancel c                     caller c drops its receiver              *)
(*   sched / poll / stop          handler entry points                     *)
(*   sent id p t c                the handler gave a request to the sender *)
(*   outcome id o k               the environment answered request id:     *)
(*                                get:  valid | invalid | notfound | fail* *)
(*                                head: hdr (k = header) | invalid | multi *)
(*                                      | fail                             *)
(*   answer c t(ok|err) o k       caller c received a message; for get/ok  *)
(*                                k = id of the attempt whose response it  *)
(*                                carries; for head/ok k = the header; for *)
(*                                err o = the error kind                   *)
(*   stepend                      end of one handler entry call            *)
(*   quiescent                    nothing in flight, everything polled, a  *)
(*                                schedule round would send nothing        *)
(*                                                                         *)
(* C32 clauses: <= 3 sends per request; each to a connected peer; the 3rd  *)
(*   to an archival peer; never for a cancelled or already answered        *)
(*   caller; <= 1 answer; Ok carries the (only) valid response delivered;  *)
(*   an error (before stop) is the error of the last attempt, which was    *)
(*   directed to an archival peer, and no valid response was ignored; once *)
(*   stopped (and polled) every waiting caller is answered; at quiescence a*)
(*   request implies no connected peer of the kind its next attempt needs. *)
(* C31 clauses: head requests go to connected trusted peers only; a head   *)
(*   answer is given only when the round is complete and obeys the         *)
(*   best-head rule over the round's valid single-header reports (every    *)
(*   asked peer has answered or failed - there is no time limit); all      *)
(*   waiting callers are answered in the same step with the same header    *)
(*   (an error for one and a header for another is a different answer).    *)
(***************************************************************************)
EXTENDS Naturals, Sequences, FiniteSets

CONSTANTS Callers,   \* caller identifiers
          HdrHeight(_)  \* height of palette header k

MonInit(c0, t0, a0) ==
    [conn |-> c0, trusted |-> t0, arch |-> a0, stopped |-> FALSE,
     req |-> [c \in Callers |-> "none"], cancelled |-> {}, answered |-> {},
     sent |-> {},      \* [id, c, t, a (peer archival when sent), n (send index of c / head round)]
     out |-> {},       \* [id, o, k]
     hround |-> 0, newRound |-> FALSE,
     hk |-> 0,         \* head answer given in the current step (0 = none)
     herr |-> FALSE,   \* a head caller got an error in the current step
     polled |-> FALSE, \* the handler was polled after stop
     bad |-> ""]

Waiting(m, t) == {c \in Callers : m.req[c] = t /\ c \notin m.answered /\ c \notin m.cancelled}
SentOf(m, c)  == {r \in m.sent : r.t = "get" /\ r.c = c}
Outcomes(m, id) == {x \in m.out : x.id = id}
ValidFor(m, c) == {r \in SentOf(m, c) : \E x \in Outcomes(m, r.id) : x.o = "valid"}
\* outbound failures: ConnectionClosed, DialFailure, Timeout, UnsupportedProtocols, Io
FailKinds == {"fail", "fail-dial", "fail-timeout", "fail-unsupported", "fail-io"}
ErrKind(o) == IF o = "notfound" THEN "notfound" ELSE IF o = "invalid" THEN "invalid"
              ELSE IF o \in FailKinds THEN "failure" ELSE "?"

(* best-head rule over a set of reports [id, k] *)
Count(reports, k) == Cardinality({x \in reports : x.k = k})
MaxH(ks) == CHOOSE h \in {HdrHeight(k) : k \in ks} : \A k \in ks : HdrHeight(k) <= h
Best(reports) ==
    LET ks == {x.k : x \in reports}
        agreed == {k \in ks : Count(reports, k) >= 2}
    IN
    IF ks = {} THEN {}
    ELSE IF agreed # {} THEN {k \in agreed : HdrHeight(k) = MaxH(agreed)}
    ELSE {k \in ks : HdrHeight(k) = MaxH(ks)}

Fail(m, why) == [m EXCEPT !.bad = why]

OnSent(m, e) ==
    IF m.stopped THEN Fail(m, "sent-after-stop")
    ELSE IF e.p \notin m.conn THEN Fail(m, "sent-to-disconnected-peer")
    ELSE IF e.t = "head" THEN
        IF e.p \notin m.trusted THEN Fail(m, "head-request-to-untrusted-peer")
        ELSE LET r == IF m.newRound THEN m.hround + 1 ELSE m.hround IN
             [m EXCEPT !.sent = @ \cup {[id |-> e.id, c |-> 0, t |-> "head", a |-> e.p \in m.arch, n |-> r]},
                       !.hround = r, !.newRound = FALSE]
    ELSE
        LET n == Cardinality(SentOf(m, e.c)) IN
        IF e.c \notin Callers \/ m.req[e.c] # "get" THEN Fail(m, "sent-for-unknown-request")
        ELSE IF e.c \in m.cancelled THEN Fail(m, "sent-for-cancelled-caller")
        ELSE IF e.c \in m.answered THEN Fail(m, "sent-after-answer")
        ELSE IF n >= 3 THEN Fail(m, "more-than-three-sends")
        ELSE IF n = 2 /\ e.p \notin m.arch THEN Fail(m, "third-attempt-not-to-archival-peer")
        ELSE [m EXCEPT !.sent = @ \cup {[id |-> e.id, c |-> e.c, t |-> "get", a |-> e.p \in m.arch, n |-> n + 1]}]

OnAnswer(m, e) ==
    LET c == e.c IN
    IF c \notin Callers \/ m.req[c] = "none" THEN Fail(m, "answer-without-request")
    ELSE IF c \in m.answered THEN Fail(m, "answered-twice")
    ELSE LET m2 == [m EXCEPT !.answered = @ \cup {c}] IN
    IF m.req[c] = "bad" THEN (IF e.t = "ok" THEN Fail(m, "invalid-request-accepted") ELSE m2)
    ELSE IF m.req[c] = "get" THEN
        IF e.t = "ok" THEN
            IF ~\E r \in ValidFor(m, c) : r.id = e.k THEN Fail(m, "ok-answer-not-from-a-valid-response")
            ELSE IF \E r \in ValidFor(m, c) : r.id # e.k THEN Fail(m, "valid-response-ignored")
            ELSE m2
        ELSE IF m.stopped THEN m2
        ELSE LET S == SentOf(m, c) IN
             IF S = {} THEN Fail(m, "error-without-attempt")
             ELSE LET last == CHOOSE r \in S : \A q \in S : q.n <= r.n
                      lo   == Outcomes(m, last.id) IN
                  IF ValidFor(m, c) # {} THEN Fail(m, "valid-response-ignored")
                  ELSE IF lo = {} \/ \E x \in lo : x.o = "valid" THEN Fail(m, "error-answer-not-from-last-attempt")
                  ELSE IF ~\E x \in lo : ErrKind(x.o) = e.o THEN Fail(m, "error-kind-not-that-of-last-attempt")
                  ELSE IF ~last.a THEN Fail(m, "final-error-from-non-archival-attempt")
                  ELSE m2
    ELSE \* head
        IF e.t # "ok" THEN (IF m.hk # 0 THEN Fail(m, "head-callers-got-different-answers")
                            ELSE [m2 EXCEPT !.herr = TRUE])
        ELSE LET R == {r \in m.sent : r.t = "head" /\ r.n = m.hround}
                 reports == {x \in m.out : x.o = "hdr" /\ \E r \in R : r.id = x.id} IN
             IF m.stopped THEN Fail(m, "head-answer-after-stop")
             ELSE IF R = {} \/ \E r \in R : Outcomes(m, r.id) = {} THEN Fail(m, "head-answer-before-round-complete")
             ELSE IF e.k \notin Best(reports) THEN Fail(m, "head-answer-violates-best-head-rule")
             ELSE IF (m.hk # 0 /\ m.hk # e.k) \/ m.herr THEN Fail(m, "head-callers-got-different-answers")
             ELSE [m2 EXCEPT !.hk = e.k]

OnStepEnd(m) ==
    IF m.hk # 0 /\ Waiting(m, "head") # {} THEN Fail(m, "waiting-head-caller-not-answered")
    ELSE IF m.stopped /\ m.polled /\ Waiting(m, "get") \cup Waiting(m, "head") \cup Waiting(m, "bad") # {}
         THEN Fail(m, "not-answered-on-stop")
    ELSE [m EXCEPT !.hk = 0, !.herr = FALSE]

OnQuiescent(m) ==
    LET starved == {c \in Waiting(m, "get") :
                      LET n == Cardinality(SentOf(m, c)) IN
                      \/ n >= 3
                      \/ (n = 2 /\ m.conn \cap m.arch # {})
                      \/ (n < 2 /\ m.conn # {})}
    IN IF ~m.stopped /\ starved # {} THEN Fail(m, "request-unanswered-although-peers-of-required-kind-connected")
       ELSE m

Mon(m, e) ==
    IF m.bad # "" THEN m
    ELSE CASE e.name = "conn"    -> [m EXCEPT !.conn = @ \cup {e.p}]
           [] e.name = "disc"    -> [m EXCEPT !.conn = @ \ {e.p}, !.arch = @ \ {e.p}]
           [] e.name = "arch"    -> [m EXCEPT !.arch = @ \cup {e.p}]
           [] e.name = "trust"   -> [m EXCEPT !.trusted = @ \cup {e.p}]
           [] e.name = "request" -> IF e.c \in Callers /\ m.req[e.c] = "none"
                                    THEN [m EXCEPT !.req[e.c] = e.t] ELSE Fail(m, "harness-request-twice")
           [] e.name = "cancel"  -> [m EXCEPT !.cancelled = @ \cup {e.c}]
           [] e.name = "sched"   -> [m EXCEPT !.newRound = TRUE]
           [] e.name = "poll"    -> [m EXCEPT !.polled = m.stopped]
           [] e.name = "stop"    -> [m EXCEPT !.stopped = TRUE]
           [] e.name = "sent"    -> OnSent(m, e)
           [] e.name = "outcome" -> [m EXCEPT !.out = @ \cup {[id |-> e.id, o |-> e.o, k |-> e.k]}]
           [] e.name = "answer"  -> OnAnswer(m, e)
           [] e.name = "stepend" -> OnStepEnd(m)
           [] e.name = "quiescent" -> OnQuiescent(m)
           [] OTHER -> Fail(m, "unknown-event")

RECURSIVE MonSeq(_, _)
MonSeq(m, es) == IF es = <<>> THEN m ELSE MonSeq(Mon(m, Head(es)), Tail(es))

Ev(nm, c, id, p, t, o, k) == [name |-> nm, c |-> c, id |-> id, p |-> p, t |-> t, o |-> o, k |-> k]
=============================================================================
