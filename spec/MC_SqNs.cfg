CONSTANT K = 2
CONSTANT Complete = TRUE
INIT Init
NEXT Next
INVARIANTS SingleSound SingleOnlyOwn NsSound AcceptOnlyScan HonestIsScan
CHECK_DEADLOCK FALSE
