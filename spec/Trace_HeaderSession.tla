-------------------------- MODULE Trace_HeaderSession ------------------------
(* impl -> spec for C26: events observed at the mocked P2p command channel.  *)
(*   start(lo, len)       a session for lo..lo+len-1 begins                  *)
(*   req(h, amt)          a HeaderExRequest reached the (mock) P2p worker    *)
(*   resp(h, amt, k)      the harness answered it with its first k headers   *)
(*   hxerr(h, amt)        ... with a header-ex error                          *)
(*   fatal(h, amt)        ... with a non header-ex error                      *)
(*   finish(ok, spans)    the session returned (spans: the returned heights  *)
(*                        as [lo,hi] ranges in the order returned)           *)
(* The harness drains every pending request before it answers one, so at     *)
(* every answer all outstanding requests of the model must have been seen.   *)
EXTENDS HeaderSession, Json, IOUtils, TLC
Rec == ndJsonDeserialize(IOEnv.TRACE)
VARIABLES l, seen, fin
tvars == <<Lo, L, rem, out, recv, spans, st, issued, more, l, seen, fin>>
Ev == Rec[l]
R == Req(Ev.h, Ev.amt)

\* returned ranges, in order, flattened
RECURSIVE Flatten(_)
Flatten(rs) == IF rs = <<>> THEN <<>>
               ELSE [i \in 1..(rs[1][2] - rs[1][1] + 1) |-> rs[1][1] + i - 1] \o Flatten(Tail(rs))
Ascending(rs) == /\ \A i \in DOMAIN rs : rs[i][1] <= rs[i][2]
                 /\ \A i \in DOMAIN rs : i > 1 => rs[i-1][2] < rs[i][1]

TStep ==
    /\ l <= Len(Rec) /\ l' = l + 1
    /\ LET n == Ev.name IN
       \/ n = "start" /\ Reset(Ev.lo, Ev.len) /\ seen' = {} /\ fin' = FALSE
       \/ n = "req"   /\ (IF st = "init" THEN Start ELSE UNCHANGED allvars)   \* first observation triggers Start
                      /\ R \in out' /\ R \notin seen /\ seen' = seen \cup {R} /\ UNCHANGED fin
       \/ n = "resp"  /\ seen = out /\ Respond(R, Ev.k) /\ seen' = seen \ {R} /\ UNCHANGED fin
       \/ n = "hxerr" /\ seen = out /\ RespondHxErr(R) /\ seen' = seen \ {R} /\ UNCHANGED fin
       \/ n = "fatal" /\ seen = out /\ RespondFatal(R) /\ seen' = {} /\ UNCHANGED fin
       \/ n = "finish" /\ fin' = TRUE /\ UNCHANGED seen
                       /\ IF Ev.ok = 1
                          THEN /\ (IF st = "init" THEN FALSE ELSE Finish)
                               \* C26: every wanted height exactly once, ascending
                               /\ Ascending(Ev.spans) /\ SetOfRanges(Ev.spans) = Wanted
                               /\ Len(Flatten(Ev.spans)) = L
                          ELSE st = "failed" /\ UNCHANGED allvars

TInit == Init0(1, 1) /\ l = 1 /\ seen = {} /\ fin = FALSE
TSpec == TInit /\ [][TStep]_tvars

Accepted ==
    LET d == TLCGet("stats").diameter IN
    IF d - 1 = Len(Rec) THEN TRUE
    ELSE /\ PrintT(<<"REJECT-AT", d>>)
         /\ PrintT(ToJson(Rec[d]))
         /\ FALSE
=============================================================================
