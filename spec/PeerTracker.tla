----------------------------- MODULE PeerTracker -----------------------------
(* C39: `PeerTracker` (node/src/peer_tracker.rs).                                       *)
(* State: what the tracker knows about each peer, the published `PeerTrackerInfo`       *)
(* (`pub`, written only where the code calls recount_peer_tracker_info) and the per-tag *)
(* protect counters (`pcount`, maintained incrementally as in the code).  One action    *)
(* per tracker method.  The property = the three invariants at the bottom.              *)
EXTENDS Naturals, FiniteSets, Sequences

CONSTANTS NP,       \* peers 1..NP
          NC,       \* connection slots 1..NC per peer
          NT,       \* protection tags 1..NT
          Kinds     \* node kinds that agent-version events announce (0 unknown 1 bridge 2 full 3 light)
\* `old` of a peer: it is disconnected and its disconnected_at is more than EXPIRED_AFTER (120 s) in the past.
\* Real time never gets there in a check; the environment action Age(p) (a verification hook that moves the
\* stored Instant into the past) does.

VARIABLES P, pub, pcount, op, res
vars == <<P, pub, pcount, op, res>>
Peers == 1..NP
Conns == 1..NC
Tags  == 1..NT

Fresh == [k |-> TRUE, c |-> {}, t |-> FALSE, a |-> FALSE, kind |-> 0, pr |-> {}, old |-> FALSE]   \* Peer::new (disconnected_at = now)
Gone  == [k |-> FALSE, c |-> {}, t |-> FALSE, a |-> FALSE, kind |-> 0, pr |-> {}, old |-> FALSE]
Known(S, p)     == S[p].k
Connected(S, p) == S[p].c # {}
Protected(S, p) == S[p].pr # {}
IsFull(kind)    == kind \in {1, 2}

Recount(S) ==
    LET C == {p \in Peers : S[p].k /\ S[p].c # {}} IN
    [conn    |-> Cardinality(C),
     trusted |-> Cardinality({p \in C : S[p].t}),
     full    |-> Cardinality({p \in C : IsFull(S[p].kind)}),
     arch    |-> Cardinality({p \in C : S[p].a})]
TagCount(S, t) == Cardinality({p \in Peers : S[p].k /\ t \in S[p].pr})

TypeOK == /\ \A p \in Peers : /\ P[p].k \in BOOLEAN /\ P[p].c \subseteq Conns /\ P[p].t \in BOOLEAN
                              /\ P[p].a \in BOOLEAN /\ P[p].kind \in 0..3 /\ P[p].pr \subseteq Tags /\ P[p].old \in BOOLEAN
          /\ \A t \in Tags : pcount[t] \in 0..NP

Init == /\ P = [p \in Peers |-> Gone]
        /\ pub = [conn |-> 0, trusted |-> 0, full |-> 0, arch |-> 0]
        /\ pcount = [t \in Tags |-> 0]
        /\ op = [name |-> "init", p |-> 0, x |-> 0] /\ res = <<>>

Ensure(S, p) == IF S[p].k THEN S ELSE [S EXCEPT ![p] = Fresh]       \* entry(..).or_insert_with(Peer::new)
Op(n, p, x) == op' = [name |-> n, p |-> p, x |-> x]
B(b) == IF b THEN <<1>> ELSE <<0>>
Republish == pub' = Recount(P')

AddPeerId(p) ==
    /\ Op("add_peer_id", p, 0) /\ res' = B(~P[p].k)
    /\ P' = Ensure(P, p) /\ UNCHANGED <<pub, pcount>>
SetTrusted(p, b) ==
    /\ Op("set_trusted", p, IF b THEN 1 ELSE 0) /\ res' = <<>>
    /\ P' = [Ensure(P, p) EXCEPT ![p].t = b] /\ Republish /\ UNCHANGED pcount
Protect(p, t) ==
    /\ Op("protect", p, t) /\ res' = B(~Protected(P, p))
    /\ P' = [Ensure(P, p) EXCEPT ![p].pr = @ \cup {t}]
    /\ pcount' = IF t \in P[p].pr THEN pcount ELSE [pcount EXCEPT ![t] = @ + 1]
    /\ UNCHANGED pub
Unprotect(p, t) ==
    /\ Op("unprotect", p, t)
    /\ IF ~P[p].k THEN /\ res' = B(FALSE) /\ UNCHANGED <<P, pcount>>
       ELSE /\ P' = [P EXCEPT ![p].pr = @ \ {t}]
            /\ pcount' = IF t \in P[p].pr THEN [pcount EXCEPT ![t] = @ - 1] ELSE pcount
            /\ res' = B(Protected(P, p) /\ ~Protected(P', p))
    /\ UNCHANGED pub
AddConnection(p, c) ==
    /\ Op("add_connection", p, c) /\ res' = <<>>
    /\ P' = [Ensure(P, p) EXCEPT ![p].c = @ \cup {c}, ![p].old = FALSE]          \* disconnected_at.take()
    /\ IF ~Connected(P, p) THEN Republish ELSE UNCHANGED pub
    /\ UNCHANGED pcount
RemoveConnection(p, c) ==
    /\ Op("remove_connection", p, c) /\ res' = <<>>
    /\ IF ~P[p].k THEN UNCHANGED <<P, pub>>
       ELSE LET left == P[p].c \ {c} IN
            IF left = {} THEN /\ P' = [P EXCEPT ![p].c = {}, ![p].kind = 0, ![p].a = FALSE, ![p].old = FALSE]   \* disconnected_at = now
                              /\ Republish
            ELSE /\ P' = [P EXCEPT ![p].c = left] /\ UNCHANGED pub
    /\ UNCHANGED pcount
AgentVersion(p, kind) ==
    /\ Op("on_agent_version", p, kind) /\ res' = <<>>
    /\ IF P[p].k /\ Connected(P, p) THEN P' = [P EXCEPT ![p].kind = kind] /\ Republish
       ELSE UNCHANGED <<P, pub>>
    /\ UNCHANGED pcount
MarkArchival(p) ==
    /\ Op("mark_as_archival", p, 0) /\ res' = <<>>
    /\ P' = [Ensure(P, p) EXCEPT ![p].a = TRUE] /\ Republish /\ UNCHANGED pcount
Ping(p, c) ==
    /\ Op("on_ping", p, c) /\ res' = <<>> /\ UNCHANGED <<P, pub, pcount>>
\* environment (hook): the peer's disconnection becomes older than EXPIRED_AFTER
Age(p) ==
    /\ Op("age", p, 0) /\ res' = B(P[p].k /\ ~Connected(P, p))
    /\ P' = IF P[p].k /\ ~Connected(P, p) THEN [P EXCEPT ![p].old = TRUE] ELSE P
    /\ UNCHANGED <<pub, pcount>>
\* gc keeps connected peers, protected peers and recently disconnected peers
Forgettable(S) == {p \in Peers : S[p].k /\ ~Connected(S, p) /\ ~Protected(S, p) /\ S[p].old}
Gc ==
    /\ Op("gc", 0, 0) /\ res' = <<>>
    /\ P' = [p \in Peers |-> IF p \in Forgettable(P) THEN Gone ELSE P[p]]
    /\ UNCHANGED <<pub, pcount>>

Next == \/ \E p \in Peers : \/ AddPeerId(p) \/ MarkArchival(p) \/ Age(p)
                            \/ \E b \in BOOLEAN : SetTrusted(p, b)
                            \/ \E t \in Tags : Protect(p, t) \/ Unprotect(p, t)
                            \/ \E c \in Conns : AddConnection(p, c) \/ RemoveConnection(p, c) \/ Ping(p, c)
                            \/ \E kind \in Kinds : AgentVersion(p, kind)
        \/ Gc
Spec == Init /\ [][Next]_vars

----------------------------------------------------------------------------
\* C39
InfoIsRecount  == pub = Recount(P)
TagsAreRecount == \A t \in Tags : pcount[t] = TagCount(P, t)
GcKeeps == [][op'.name = "gc" => \A p \in Peers : (P[p].k /\ (Connected(P, p) \/ Protected(P, p))) => P'[p] = P[p]]_vars
\* structure
Shape == \A p \in Peers : /\ ~P[p].k => P[p] = Gone
                          /\ P[p].kind # 0 => Connected(P, p)
                          /\ P[p].old => (P[p].k /\ ~Connected(P, p))
=============================================================================
