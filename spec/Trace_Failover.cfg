CONSTANT Calls = {1, 2, 3, 4, 5, 6, 7, 8}
SPECIFICATION TSpec
INVARIANTS PermOK
POSTCONDITION Accepted
CHECK_DEADLOCK FALSE
