CONSTANTS
  N = 4
  WSamp = 3
  WPrune = 1
  MaxNow = 6
  NoAsk = FALSE
SPECIFICATION Spec
INVARIANT SafeRemoval
CHECK_DEADLOCK FALSE
