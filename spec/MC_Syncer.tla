------------------------------- MODULE MC_Syncer ------------------------------
EXTENDS Syncer, TLC
View == <<stored, pruned, foreign, sampled, now, netHead, peers, trusted, phase, subj, ongoing, hsub, sawPeer, slowH, lastFetch>>
=============================================================================
