------------------------------- MODULE MC_Syncer ------------------------------
EXTENDS Syncer, TLC
View == <<stored, pruned, foreign, sampled, now, netHead, peers, phase, subj, ongoing, hsub, sawPeer, lastFetch>>
=============================================================================
