CONSTANT M = 1048576
CONSTANT MaxLen = 3
CONSTANT Base = 5
CONSTANT Requests <- MCRequests
CONSTANT EntriesOf <- MCEntries
INIT Init
NEXT Next
INVARIANTS DecodeSound DecodeComplete VerdictSane
CHECK_DEADLOCK FALSE
