---------------------------- MODULE Gen_ProofChain --------------------------
(* spec -> impl: every enumerated answer with the verdict of the algorithmic layer (as the code is) and the *)
(* verdict the property demands (0 must not be reported as verified, 1 must, 2 either).                      *)
EXTENDS ProofChain, Json, TLC
VARIABLE c
Init == c \in Cases
Next == UNCHANGED c
Emit == PrintT(ToJson([ops |-> c.ops, value |-> c.value, root |-> c.root, rkey |-> c.rkey,
                       verdict |-> VerdictOf(c), mverdict |-> MechVerdictOf(c), demand |-> Demand(c)]))
=============================================================================
