------------------------------ MODULE Gen_HvChain ------------------------------
(* spec -> impl: first the pool of headers of the range cases, then one JSON line per case *)
EXTENDS HvChain, Json
ASSUME PrintT(ToJson([pool |-> Pool, now |-> Now]))
GenNext == Next /\ PrintT(ToJson(out'))
=============================================================================
