CONSTANT N = 6
INIT MCInit
NEXT MCNext
VIEW View
INVARIANTS Consecutive OnlyStored LastSentOk Complete NotAhead
CHECK_DEADLOCK FALSE
