CONSTANT N = 7
INIT Init
NEXT GenFetch
CHECK_DEADLOCK FALSE
