CONSTANT N = 8
CONSTANT LateGuards = FALSE
CONSTANT Deviation = "none"
CONSTANT ExitKinds = {"return"}
SPECIFICATION TSpec
INVARIANT Safety
POSTCONDITION Accepted
CHECK_DEADLOCK FALSE
