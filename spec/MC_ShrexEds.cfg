CONSTANT Ks = {1, 2, 4}
CONSTANT Kinds <- AllKinds
CONSTANT AppendMax = 64
CONSTANT Dev = "none"
INIT Init
NEXT Next
INVARIANTS CodeMeetsDemand AcceptOnlyOriginal HonestAccepted OriginalsKnown
CHECK_DEADLOCK FALSE
