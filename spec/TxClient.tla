------------------------------ MODULE TxClient ------------------------------
(***************************************************************************)
(* C43, algorithmic layer: grpc/src/client.rs                              *)
(*   sign_and_broadcast_tx / sign_and_broadcast_blobs                      *)
(*      lock the account (tokio Mutex: FIFO), then loop:                   *)
(*        [estimate gas (unless gas limit and price are configured):       *)
(*           mismatch(e) -> sequence := e, again; other error -> return]   *)
(*        sign with the cached sequence, broadcast:                        *)
(*           ok | already in mempool cache -> sequence + 1, leave loop     *)
(*           mismatch(e) -> sequence := e, again                           *)
(*           any other error -> return it                                  *)
(*      (the lock is released when the function returns)                   *)
(*   confirm_tx: poll the status of the tx's hash                          *)
(*        pending -> wait, poll again          committed -> return         *)
(*        rejected -> unless the code is a sequence error: lock the        *)
(*                    account, sequence := the tx's sequence; return error *)
(*        evicted | unknown -> broadcast the same bytes again;             *)
(*                    any error answer -> return error, else poll again    *)
(* The node is the environment: it answers every request with any of the   *)
(* possible answers.  One action = one answered request (or one internal   *)
(* step of the client that needs no answer).                               *)
(***************************************************************************)
EXTENDS TxClientProp

CONSTANTS MaxSeq,      \* sequences the node can name are 0..MaxSeq
          Fuel,        \* bound on the number of answers that prolong a submission
          UseEst       \* TRUE: gas is estimated by the node before every signature

VARIABLES seq,     \* cached account sequence; -1 = account not loaded yet (here: Nat + 1 encoding, see None)
          lock,    \* 0 = free, else the submission holding the account lock
          lockq,   \* FIFO queue of submissions waiting for the lock
          pc,      \* per submission
          mytx,    \* mytx[s] = <<tx, q>> broadcast by s and under confirmation
          res,     \* res[s] = result to return
          fuel

avars == <<seq, lock, lockq, pc, mytx, res, fuel>>
vars  == <<pvars, avars>>

None == 1000000                        \* "account not loaded"
Tx(s, q) == s * 1000 + q               \* identity of the bytes signed by s with sequence q
BAns  == {"ok", "cached", "mismatch", "reject", "err"}
SAns  == {"pending", "committed", "failed", "rejected", "evicted", "unknown"}
Codes == {"seq", "other"}

AInit == /\ PInit
         /\ seq = None /\ lock = 0 /\ lockq = <<>>
         /\ pc = [s \in Subs |-> "idle"]
         /\ mytx = [s \in Subs |-> <<>>]
         /\ res = [s \in Subs |-> ""]
         /\ fuel = Fuel

Begin(s) == /\ pc[s] = "idle"
            /\ ObsBegin(s)
            /\ pc' = [pc EXCEPT ![s] = "acct"]
            /\ UNCHANGED <<seq, lock, lockq, mytx, res, fuel>>

\* lock_account: the OnceCell is initialised by the first submission (account query), then the
\* submission queues for the mutex
Acct(s, q) == /\ pc[s] = "acct" /\ seq = None
              /\ ObsAcct(q)
              /\ seq' = q
              /\ pc' = [pc EXCEPT ![s] = "queue"]
              /\ UNCHANGED <<lock, lockq, mytx, res, fuel>>

HaveAcct(s) == /\ pc[s] = "acct" /\ seq # None
               /\ pc' = [pc EXCEPT ![s] = "queue"]
               /\ UNCHANGED <<seq, lock, lockq, mytx, res, fuel, pvars>>

Enqueue(s) == /\ pc[s] \in {"queue", "rbqueue"}
              /\ lockq' = Append(lockq, s)
              /\ pc' = [pc EXCEPT ![s] = IF pc[s] = "queue" THEN "wait" ELSE "rbwait"]
              /\ UNCHANGED <<seq, lock, mytx, res, fuel, pvars>>

\* the head of the queue gets the free lock; a roll-back is done and the lock released at once
Grant == /\ lock = 0 /\ lockq # <<>>
         /\ LET s == Head(lockq) IN
            /\ lockq' = Tail(lockq)
            /\ IF pc[s] = "wait"
               THEN /\ lock' = s
                    /\ pc' = [pc EXCEPT ![s] = IF UseEst THEN "est" ELSE "sign"]
                    /\ UNCHANGED seq
               ELSE /\ seq' = mytx[s][2]                      \* pc[s] = "rbwait"
                    /\ pc' = [pc EXCEPT ![s] = "ret"]
                    /\ UNCHANGED lock
         /\ UNCHANGED <<mytx, res, fuel, pvars>>

Burn == fuel > 0 /\ fuel' = fuel - 1

Est(s, ans, e) ==
    /\ pc[s] = "est" /\ lock = s
    /\ ObsEst(s, seq, ans, e)
    /\ CASE ans = "ok"       -> /\ pc' = [pc EXCEPT ![s] = "sign"]
                                /\ UNCHANGED <<seq, lock, res, fuel>>
         [] ans = "mismatch" -> /\ Burn /\ seq' = e
                                /\ UNCHANGED <<pc, lock, res>>
         [] ans = "err"      -> /\ pc' = [pc EXCEPT ![s] = "ret"]
                                /\ res' = [res EXCEPT ![s] = "err"]
                                /\ lock' = 0
                                /\ UNCHANGED <<seq, fuel>>
    /\ UNCHANGED <<lockq, mytx>>

Bcast(s, ans, e) ==
    /\ pc[s] = "sign" /\ lock = s
    /\ ObsBcast(s, Tx(s, seq), seq, ans, e)
    /\ CASE ans \in {"ok", "cached"} -> /\ seq' = seq + 1
                                        /\ mytx' = [mytx EXCEPT ![s] = <<Tx(s, seq), seq>>]
                                        /\ pc' = [pc EXCEPT ![s] = "conf"]
                                        /\ lock' = 0
                                        /\ UNCHANGED <<res, fuel>>
         [] ans = "mismatch"         -> /\ Burn /\ seq' = e
                                        /\ pc' = [pc EXCEPT ![s] = IF UseEst THEN "est" ELSE "sign"]
                                        /\ UNCHANGED <<mytx, lock, res>>
         [] ans \in {"reject", "err"} -> /\ pc' = [pc EXCEPT ![s] = "ret"]
                                         /\ res' = [res EXCEPT ![s] = "err"]
                                         /\ lock' = 0
                                         /\ UNCHANGED <<seq, mytx, fuel>>
    /\ UNCHANGED lockq

Status(s, ans, code) ==
    /\ pc[s] = "conf"
    /\ ObsStatus(s, mytx[s][1], ans, code)
    /\ CASE ans = "pending"   -> Burn /\ UNCHANGED <<pc, res>>
         [] ans = "committed" -> pc' = [pc EXCEPT ![s] = "ret"] /\ res' = [res EXCEPT ![s] = "ok"] /\ UNCHANGED fuel
         [] ans = "failed"    -> pc' = [pc EXCEPT ![s] = "ret"] /\ res' = [res EXCEPT ![s] = "err"] /\ UNCHANGED fuel
         [] ans = "rejected"  -> /\ pc' = [pc EXCEPT ![s] = IF code = "seq" THEN "ret" ELSE "rbqueue"]
                                 /\ res' = [res EXCEPT ![s] = "err"] /\ UNCHANGED fuel
         [] ans \in {"evicted", "unknown"} -> Burn /\ pc' = [pc EXCEPT ![s] = "rebc"] /\ UNCHANGED res
    /\ UNCHANGED <<seq, lock, lockq, mytx>>

\* re-broadcast of the very same bytes; the sequence is not touched whatever the answer
Rebcast(s, ans, e) ==
    /\ pc[s] = "rebc"
    /\ ObsBcast(s, mytx[s][1], mytx[s][2], ans, e)
    /\ IF ans = "ok"
       THEN pc' = [pc EXCEPT ![s] = "conf"] /\ UNCHANGED res
       ELSE pc' = [pc EXCEPT ![s] = "ret"] /\ res' = [res EXCEPT ![s] = "err"]
    /\ UNCHANGED <<seq, lock, lockq, mytx, fuel>>

Return(s) == /\ pc[s] = "ret"
             /\ ObsEnd(s, res[s])
             /\ pc' = [pc EXCEPT ![s] = "done"]
             /\ UNCHANGED <<seq, lock, lockq, mytx, res, fuel>>

SeqVals == 0..MaxSeq
Internal == Grant \/ \E s \in Subs : HaveAcct(s) \/ Enqueue(s)
Env(s) == \/ \E q \in SeqVals : Acct(s, q)
          \/ \E ans \in {"ok", "err"} : Est(s, ans, 0)
          \/ \E e \in SeqVals : Est(s, "mismatch", e) \/ Bcast(s, "mismatch", e) \/ Rebcast(s, "mismatch", e)
          \/ \E ans \in BAns \ {"mismatch"} : Bcast(s, ans, 0) \/ Rebcast(s, ans, 0)
          \/ \E ans \in SAns \ {"rejected"} : Status(s, ans, "")
          \/ \E code \in Codes : Status(s, "rejected", code)
Next == Internal \/ \E s \in Subs : Begin(s) \/ Env(s) \/ Return(s)

(* ---- invariants of the design ---- *)
TypeOK == /\ lock \in Subs \cup {0}
          /\ \A s \in Subs : pc[s] \in {"idle", "acct", "queue", "wait", "est", "sign", "conf", "rebc",
                                        "rbqueue", "rbwait", "ret", "done"}
\* signing and broadcasting happen under the lock, by one submission at a time
LockOK == /\ \A s \in Subs : pc[s] \in {"est", "sign"} => lock = s
          /\ lock # 0 => pc[lock] \in {"est", "sign"}
\* the cached sequence is always one the property layer regards as believable
BeliefOK == seq # None => seq \in (B \cup RollVals)
=============================================================================
