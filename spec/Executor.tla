------------------------------ MODULE Executor ------------------------------
(* C42: lumina_utils::executor::{spawn, spawn_cancellable, JoinHandle} and               *)
(* token::{Token, TokenTriggerDropGuard} (utils/src/executor.rs, token.rs).              *)
(*                                                                                      *)
(*   spawn(fut):             tokio::spawn(async { let _guard = guard; fut.await })        *)
(*   spawn_cancellable(c,f): tokio::spawn(async { let _guard = guard;                     *)
(*                               select! { biased; _ = c.cancelled() => {}, _ = f => {} } }) *)
(*   JoinHandle::join():     token.triggered().await                                      *)
(*                                                                                      *)
(* A task is polled repeatedly; a poll of a cancellable task first looks at the           *)
(* cancellation flag (PollStart), then runs the body up to its next yield: one Step, or   *)
(* the end of the body (Finish / Panic).  When the task's future is gone the drop guard   *)
(* triggers the token (DropGuard) and the join resolves (JoinReturn).                     *)
(*                                                                                      *)
(* plan[i] = what the body does and whether somebody cancels:                             *)
(*   [c |-> cancellable, n |-> steps before the body ends (Loop = never ends by itself), *)
(*    fin |-> "finish" | "panic", x |-> the cancellation token gets cancelled]            *)
(* Deviation: "guard_first" lets the guard drop while the task still runs; "no_bias" lets *)
(* a poll run the body although the flag is set - both wrong, used to show the checks can  *)
(* tell.                                                                                  *)
EXTENDS Naturals, FiniteSets

CONSTANTS NTasks, MaxSteps, Deviation
Loop == 99
Tasks == 1..NTasks

VARIABLES plan, tpc, creq, saw, cnt, after, endk, jpc
vars == <<plan, tpc, creq, saw, cnt, after, endk, jpc>>

Plans == [c : BOOLEAN, n : (0..MaxSteps) \cup {Loop}, fin : {"finish", "panic"}, x : BOOLEAN]
GoodPlan(p) == /\ p.x => p.c                         \* only cancellable tasks have a token to cancel
               /\ p.n = Loop => (p.x /\ p.fin = "finish")   \* an endless body must get cancelled

Init == /\ plan \in [Tasks -> {p \in Plans : GoodPlan(p)}]
        /\ tpc = [i \in Tasks |-> "idle"] /\ creq = [i \in Tasks |-> FALSE] /\ saw = [i \in Tasks |-> FALSE]
        /\ cnt = [i \in Tasks |-> 0] /\ after = [i \in Tasks |-> 0] /\ endk = [i \in Tasks |-> "none"]
        /\ jpc = [i \in Tasks |-> "waiting"]

Sat(k) == IF k >= MaxSteps + 1 THEN MaxSteps + 1 ELSE k        \* counters saturate (endless bodies)

\* env: CancellationToken::cancel()
Cancel(i) == /\ plan[i].x /\ ~creq[i] /\ creq' = [creq EXCEPT ![i] = TRUE]
             /\ UNCHANGED <<plan, tpc, saw, cnt, after, endk, jpc>>

\* a poll begins: biased select looks at the flag first
PollStart(i) ==
    /\ tpc[i] = "idle"
    /\ IF plan[i].c /\ creq[i] /\ Deviation # "no_bias"
       THEN tpc' = [tpc EXCEPT ![i] = "ended"] /\ endk' = [endk EXCEPT ![i] = "cancelled"]
       ELSE \/ tpc' = [tpc EXCEPT ![i] = "polling"] /\ UNCHANGED endk
            \/ /\ plan[i].c /\ creq[i]                       \* (no_bias only) may also honour the flag
               /\ tpc' = [tpc EXCEPT ![i] = "ended"] /\ endk' = [endk EXCEPT ![i] = "cancelled"]
    /\ UNCHANGED <<plan, creq, saw, cnt, after, jpc>>

\* the body logs one step (it may notice the flag) and yields
Step(i) == /\ tpc[i] = "polling" /\ (plan[i].n = Loop \/ cnt[i] < plan[i].n)
           /\ tpc' = [tpc EXCEPT ![i] = "idle"] /\ cnt' = [cnt EXCEPT ![i] = Sat(@ + 1)]
           /\ \E b \in BOOLEAN : (b => creq[i]) /\ saw' = [saw EXCEPT ![i] = b]
           /\ after' = [after EXCEPT ![i] = IF creq[i] THEN Sat(@ + 1) ELSE @]
           /\ UNCHANGED <<plan, creq, endk, jpc>>
\* the body ends (returns or panics): the task's future is dropped
End(i) == /\ tpc[i] = "polling" /\ plan[i].n # Loop /\ cnt[i] = plan[i].n
          /\ tpc' = [tpc EXCEPT ![i] = "ended"] /\ endk' = [endk EXCEPT ![i] = plan[i].fin]
          /\ UNCHANGED <<plan, creq, saw, cnt, after, jpc>>
\* TokenTriggerDropGuard::drop -> token.cancel()
DropGuard(i) == /\ IF Deviation = "guard_first" THEN tpc[i] # "triggered" ELSE tpc[i] = "ended"
                /\ tpc' = [tpc EXCEPT ![i] = "triggered"]
                /\ UNCHANGED <<plan, creq, saw, cnt, after, endk, jpc>>
\* JoinHandle::join() resolves
JoinReturn(i) == /\ tpc[i] = "triggered" /\ jpc[i] = "waiting" /\ jpc' = [jpc EXCEPT ![i] = "returned"]
                 /\ UNCHANGED <<plan, tpc, creq, saw, cnt, after, endk>>

TaskNext(i) == PollStart(i) \/ Step(i) \/ End(i) \/ DropGuard(i) \/ JoinReturn(i)
Next == \E i \in Tasks : Cancel(i) \/ TaskNext(i)
\* the runtime polls runnable tasks and joiners fairly; whoever holds a token with plan.x cancels it eventually
Spec == Init /\ [][Next]_vars /\ \A i \in Tasks : WF_vars(TaskNext(i)) /\ WF_vars(Cancel(i))

----------------------------------------------------------------------------
\* C42
JoinOnlyAfterEnd == \A i \in Tasks : jpc[i] = "returned" => endk[i] # "none"
JoinAlways       == \A i \in Tasks : (endk[i] # "none") ~> (jpc[i] = "returned")
CancelStops      == \A i \in Tasks : creq[i] ~> (endk[i] # "none")
NoStepAfterSaw   == [][\A i \in Tasks : (cnt'[i] # cnt[i] /\ cnt'[i] = Sat(cnt[i] + 1)) => ~saw[i]]_vars
OneStepAfterCancel == \A i \in Tasks : after[i] <= 1
EverybodyJoins   == <>(\A i \in Tasks : jpc[i] = "returned")
=============================================================================
