--------------------------- MODULE Gen_PoolTracker --------------------------
(* spec -> impl: every transition of the scope (or, with Sample = K > 1, a random 1/K of  *)
(* them) is printed together with the path (sequence of operations) that first reached   *)
(* its source state; the harness replays the path on a fresh tracker and compares the     *)
(* last step.                                                                             *)
(* Only the deterministic fragment is generated: at most one header task is ready at any *)
(* time (which of several ready tasks FuturesUnordered yields first is not specified).    *)
EXTENDS PoolTracker, Json, TLC
CONSTANT Sample
VARIABLE hist
View == <<hd, pools, vpk, vp, tasks, initTask, arrived, expired, quiet, ev>>
MinH == CHOOSE h \in Up : \A k \in Up : h <= k
XH == [h \in Heights |-> IF h = MinH THEN {h, CHOOSE k \in Heights : k # h} ELSE {h}]   \* one cross-height hash

OneReady == Cardinality(Ready') <= 1
Enc(o) == <<o.a, o.p, o.x, o.h>>
Exp == [act |-> Enc(op'), res |-> res', q |-> [h \in Heights |-> Query(h)'], hd |-> hd',
        owe |-> owe', why |-> why', pend |-> Len(ev')]

GenInit    == Init /\ hist = <<>>
GenNextBfs == /\ Next /\ OneReady
              /\ hist' = Append(hist, Enc(op'))
              /\ (Sample = 1 \/ RandomElement(1..Sample) = 1) => PrintT(ToJson([path |-> hist] @@ Exp))
=============================================================================
