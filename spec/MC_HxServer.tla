---------------------------- MODULE MC_HxServer ----------------------------
EXTENDS HxServer, TLC
CONSTANTS N,      \* small universe: every store over 1..N
          BigMode \* TRUE: palette of stores over 1..700 (the 512 cap is real)

SmallStores == {RunsOfSet(S) : S \in SUBSET (1..N)}
BigStores == { {<<1, 700>>}, {<<1, 511>>, <<513, 700>>}, {<<3, 514>>}, {<<2, 514>>, <<600, 650>>},
               {<<100, 612>>, <<614, 700>>}, {<<189, 700>>}, {} }

MCStores  == IF BigMode THEN BigStores ELSE SmallStores
MCOrigins == IF HistMode THEN 0..(N + 1) ELSE IF BigMode
             THEN {0, 1, 2, 3, 100, 101, 188, 189, 190, 512, 513, 514, 515, 600, 613, 650, 651, 699, 700, 701,
                   M \div 2 - 1, M \div 2, M - 513, M - 512, M - 5, M - 2, M - 1, M}
             ELSE (0..(N + 2)) \cup {M \div 2 - 1, M \div 2, M - 2, M - 1, M}
MCAmounts == IF HistMode THEN {1, 2, 3, N + 2} ELSE IF BigMode
             THEN {0, 1, 2, 5, 100, 511, 512, 513, 600, 700, 1000, M \div 2, M - 1, M}
             ELSE (0..(N + 2)) \cup {511, 512, 513, M \div 2, M - 1, M}
MCHashTargets == IF HistMode THEN 1..N ELSE IF BigMode THEN {1, 2, 189, 512, 700, 701} ELSE 1..(N + 1)
MCHashLens    == IF HistMode THEN {32} ELSE {0, 31, 32, 33}
MCSmallAmounts == IF HistMode THEN {1} ELSE {0, 1, 2, M}

View == <<store, req, ph>>
=============================================================================
