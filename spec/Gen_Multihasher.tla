--------------------------- MODULE Gen_Multihasher ---------------------------
EXTENDS Multihasher, Json
RECURSIVE MaskOf(_)
MaskOf(S) == IF S = {} THEN 0 ELSE LET x == CHOOSE y \in S : TRUE IN 2 ^ x + MaskOf(S \ {x})
OutHash(st, b) == [stored |-> MaskOf(st), b |-> b,
                   hash |-> HashDemand(st, b)[1], cls |-> HashCode(st, b).cls,
                   extract |-> ExtractDemand(b)[1],
                   \* the container bytes are a well-formed container that verifies for the embedded identifier
                   \* against the DAH at its height (what the shrex response codecs must decide; extra coverage)
                   wire |-> IF ContWellFormed(b) /\ Verifies(b.id, b.cont) THEN 1 ELSE 0]
GenHash(b) == Hash(b) /\ PrintT(ToJson(OutHash(stored, b)))
GenNext == (\E h \in Heights : Insert(h)) \/ (\E b \in Blocks : GenHash(b))
=============================================================================
