--------------------------- MODULE Gen_Multihasher ---------------------------
EXTENDS Multihasher, Json
RECURSIVE MaskOf(_)
MaskOf(S) == IF S = {} THEN 0 ELSE LET x == CHOOSE y \in S : TRUE IN 2 ^ x + MaskOf(S \ {x})
OutHash(st, b) == [stored |-> MaskOf(st), b |-> b,
                   hash |-> HashDemand(st, b)[1], cls |-> HashCode(st, b).cls,
                   extract |-> ExtractDemand(b)[1]]
GenHash(b) == Hash(b) /\ PrintT(ToJson(OutHash(stored, b)))
GenNext == (\E h \in Heights : Insert(h)) \/ (\E b \in Blocks : GenHash(b))
=============================================================================
