CONSTANT NMax = 5000
CONSTANT Thresholds = {64}
CONSTANT Dense = 600
INIT Init
NEXT Next
INVARIANTS Emit
