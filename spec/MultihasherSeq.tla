--------------------------- MODULE MultihasherSeq ---------------------------
(***************************************************************************)
(* C10, histories.  ONE long-lived multihasher over a header store that     *)
(* changes underneath it: headers are inserted (as new head), removed, and  *)
(* a different header (committing to another square) is stored at a height  *)
(* that was removed.  Every `hash` call must be answered against the        *)
(* CURRENT store contents: HashDemandS(current squares, current heights).   *)
(* A behaviour is a sequence of L operations from any initial store; TLC    *)
(* enumerates all of them; the harness replays each on one real             *)
(* ShwapMultihasher holding an Arc of one real InMemoryStore.               *)
(* `seen` models the deviation "DAH remembered per height and never         *)
(* invalidated" (Dev = "stale"), which must violate SeqCodeMeetsDemand.     *)
(***************************************************************************)
EXTENDS Multihasher

CONSTANTS L,         \* operations per behaviour
          SeqKinds   \* container kinds used in the histories

VARIABLES store,     \* [SHeights -> {"none", "A", "B"}]: the square the header stored at h commits to
          seen,      \* what a never-invalidated per-height cache would hold
          init0,     \* the initial store of the behaviour
          hist       \* the operations so far, with the demanded result of each hash

SHeights == {1, 2}
Sqs == {"A", "B"}
StoredOf(s) == {h \in SHeights : s[h] # "none"}
SqatOf(s) == [h \in Heights |-> IF h \in SHeights THEN s[h] ELSE "none"]

\* the block of kind kd for height h whose container was made from the square of height label src
\* (1: square A, 2: square B), at the first position of the kind, own identifier
SeqVar(kd) == CASE kd = "sample" -> "rowproof" [] kd = "row" -> "left" [] OTHER -> "std"
SeqBlock(kd, h, src) == Block(kd, "none", Id(kd, <<0, 0>>, h), Cont(kd, <<0, 0>>, src, SeqVar(kd), "none"), "none", Id(kd, <<0, 0>>, h))
SeqKeys == SeqKinds \X SHeights \X {1, 2}
BlockOfKey(key) == SeqBlock(key[1], key[2], key[3])

NoKey == <<"none", 0, 0>>
Entry(op, h, sq, key, res, code) == [op |-> op, h |-> h, sq |-> sq, key |-> key, res |-> res, code |-> code]

\* the design: hash against the current store ("stale": against what was first seen at the height)
SeqCode(s, sn, b) ==
    IF Dev = "stale" THEN HashDemandS(SqatOf(sn), StoredOf(sn), b)[1] ELSE HashDemandS(SqatOf(s), StoredOf(s), b)[1]

SInit == /\ store \in [SHeights -> {"none"} \cup Sqs]
        /\ seen = [h \in SHeights |-> "none"]
        /\ init0 = store /\ hist = <<>>
        /\ stored = StoredOf(store) /\ out = <<>>

Bookkeeping == stored' = StoredOf(store') /\ out' = <<>> /\ init0' = init0
\* the store takes a new head (the real store refuses insertions below the head that are not adjacent)
SInsert(h, sq) == /\ Len(hist) < L /\ store[h] = "none" /\ \A g \in StoredOf(store) : g < h
                  /\ store' = [store EXCEPT ![h] = sq] /\ seen' = seen
                  /\ hist' = Append(hist, Entry("insert", h, sq, NoKey, 0, 0)) /\ Bookkeeping
SRemove(h) == /\ Len(hist) < L /\ store[h] # "none"
              /\ store' = [store EXCEPT ![h] = "none"] /\ seen' = seen
              /\ hist' = Append(hist, Entry("remove", h, "none", NoKey, 0, 0)) /\ Bookkeeping
SHash(key) == LET b == BlockOfKey(key)
                  sn == IF seen[key[2]] = "none" THEN [seen EXCEPT ![key[2]] = store[key[2]]] ELSE seen IN
              /\ Len(hist) < L /\ store' = store /\ seen' = sn
              /\ hist' = Append(hist, Entry("hash", key[2], "none", key,
                                            HashDemandS(SqatOf(store), StoredOf(store), b)[1], SeqCode(store, sn, b)))
              /\ Bookkeeping
SNext == \/ \E h \in SHeights, sq \in Sqs : SInsert(h, sq)
         \/ \E h \in SHeights : SRemove(h)
         \/ \E key \in SeqKeys : SHash(key)

LastE == hist[Len(hist)]
\* the design answers every hash as the statement demands for the store contents at that moment
SeqCodeMeetsDemand == Len(hist) > 0 /\ LastE.op = "hash" => LastE.code = LastE.res
\* a hash is produced only while a header committing to the container's square is stored at the height
SeqOkOnlyCurrent == Len(hist) > 0 /\ LastE.op = "hash" /\ LastE.res = 1 =>
                        store[LastE.h] # "none" /\ store[LastE.h] = SqAt[LastE.key[3]]
\* after a removal of h nothing for h is hashed until a header is stored there again
SeqRemoved == \A i \in 1..Len(hist) : \A j \in (i + 1)..Len(hist) :
                 (hist[i].op = "remove" /\ hist[j].op = "hash" /\ hist[j].h = hist[i].h /\ hist[j].res = 1)
                    => \E m \in (i + 1)..(j - 1) : hist[m].op = "insert" /\ hist[m].h = hist[i].h
=============================================================================
