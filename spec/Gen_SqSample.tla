---------------------------- MODULE Gen_SqSample ----------------------------
(* spec -> impl: every case with the demanded verdict and the design's prediction. *)
EXTENDS SqSample, Json
GenNext == /\ Next
           /\ PrintT(ToJson([k |-> K, cls |-> kase'.cls, id |-> <<kase'.id.r, kase'.id.c>>,
                             share |-> kase'.share, sax |-> kase'.sax,
                             proof |-> <<kase'.proof.ax, kase'.proof.line, kase'.proof.pos>>,
                             start |-> kase'.start, len |-> kase'.len, sm |-> kase'.sm,
                             demand |-> SampleDemand(kase'), predict |-> Verdict(SampleCode(kase'))]))
=============================================================================
