---------------------------------- MODULE Node --------------------------------
(***************************************************************************)
(* The light node as a composition: header store + syncer + sampler        *)
(* (daser) + pruner + clock + network, at the grain of the component       *)
(* specifications Syncer.tla, Daser.tla and Pruner.tla (whose environment  *)
(* actions are replaced here by the other components' real actions).       *)
(* Conformance is per component (trace validation of each real worker      *)
(* against its own module); this module shows that the composition of the  *)
(* component designs has the system-level properties.                      *)
(*                                                                         *)
(* Heights 1..N, header h has time h, one block per tick.                  *)
(***************************************************************************)
EXTENDS Naturals, FiniteSets, Sequences, Ranges, SyncRange

CONSTANTS N, Batch, WSamp, WPrune, Lim, Extra, MaxBatch,
          SlowThr     \* slow sync threshold (Syncer.tla)

VARIABLES now, netHead, peers,
          stored, sampled, pruned, meta, bstore,          \* header store and blockstore
          sphase, subj, fetching, slowH,                   \* syncer
          dphase, queue, ongoing, timedOut, promised, headH,   \* daser
          batch,                                           \* pruner: heights decided for removal
          obs

vars == <<now, netHead, peers, stored, sampled, pruned, meta, bstore, sphase, subj, fetching, slowH,
          dphase, queue, ongoing, timedOut, promised, headH, batch, obs>>

InWin(h, W) == now - h < W
Synced == stored \cup pruned
StoreHead == IF stored = {} THEN 0 ELSE MaxOf(stored)
Cids(h) == {2 * h, 2 * h + 1}
MetaOf(h) == IF h \in DOMAIN meta THEN meta[h] ELSE {}
NoObs == [kind |-> "none"]

Init == /\ now = 1 /\ netHead = 1 /\ peers = 0
        /\ stored = {} /\ sampled = {} /\ pruned = {} /\ meta = <<>> /\ bstore = {}
        /\ sphase = "connecting" /\ subj = 0 /\ fetching = <<>> /\ slowH = 0
        /\ dphase = "connecting" /\ queue = {} /\ ongoing = {} /\ timedOut = {} /\ promised = {} /\ headH = 0
        /\ batch = <<>> /\ obs = NoObs

InsertRange(lo, hi) ==
    /\ stored' = stored \cup (lo..hi) /\ pruned' = pruned \ (lo..hi) /\ sampled' = sampled \ (lo..hi)

UNCH_STORE  == UNCHANGED <<stored, sampled, pruned, meta, bstore>>
UNCH_SYNCER == UNCHANGED <<sphase, subj, fetching, slowH>>
UNCH_DASER  == UNCHANGED <<dphase, queue, ongoing, timedOut, promised, headH>>
UNCH_ENV    == UNCHANGED <<now, netHead, peers>>

(* ---- environment ---- *)
NewBlock == /\ netHead < N /\ netHead' = netHead + 1 /\ now' = now + 1 /\ obs' = NoObs
            /\ UNCHANGED peers /\ UNCH_STORE /\ UNCH_SYNCER /\ UNCH_DASER /\ UNCHANGED batch
Connect == /\ peers = 0 /\ peers' = 1 /\ obs' = NoObs
           /\ UNCHANGED <<now, netHead, batch>> /\ UNCH_STORE /\ UNCH_SYNCER /\ UNCH_DASER
\* both workers notice in their own time; modelled as one step
Disconnect == /\ peers = 1 /\ peers' = 0 /\ obs' = NoObs
              /\ sphase' = "connecting" /\ fetching' = <<>> /\ UNCHANGED <<subj, slowH>>
              /\ dphase' = "connecting" /\ queue' = {} /\ ongoing' = {} /\ timedOut' = {} /\ headH' = 0
              /\ UNCHANGED <<promised, now, netHead, batch>> /\ UNCH_STORE

(* ---- syncer (Syncer.tla) ---- *)
TryInit ==
    /\ sphase = "connecting" /\ peers = 1
    /\ LET h == netHead
           skip == stored # {} /\ StoreHead = h
       IN /\ skip \/ Admit(stored, h, h)
          /\ IF skip THEN UNCHANGED <<stored, pruned, sampled>> ELSE InsertRange(h, h)
          /\ subj' = IF h > subj THEN h ELSE subj
    /\ sphase' = "connected" /\ obs' = NoObs
    /\ UNCHANGED <<fetching, slowH, meta, bstore, batch>> /\ UNCH_ENV /\ UNCH_DASER
HeaderSub ==
    /\ sphase = "connected" /\ netHead > subj /\ subj' = netHead
    /\ IF stored # {} /\ StoreHead + 1 = netHead
       THEN InsertRange(netHead, netHead) ELSE UNCHANGED <<stored, pruned, sampled>>
    /\ obs' = NoObs /\ UNCHANGED <<sphase, fetching, slowH, meta, bstore, batch>> /\ UNCH_ENV /\ UNCH_DASER
\* slow sync (Syncer.tla): below the pruning window the syncer stays at most SlowThr unsampled headers ahead
SlowSyncHolds(b) == slowH # 0 /\ MaxOf(b) <= slowH /\ Cardinality(stored \ sampled) > SlowThr
FetchNext ==
    /\ sphase = "connected" /\ fetching = <<>> /\ peers = 1 /\ subj # 0
    /\ LET b == CalcRange(subj, Synced, Batch) IN
       /\ b # {}
       /\ ~SlowSyncHolds(b)
       /\ LET e == MaxOf(b) + 1 IN
            \/ e \in stored /\ InWin(e, WSamp)
            \/ e \notin stored /\ e \notin pruned
       /\ fetching' = <<MinOf(b), MaxOf(b)>>
       /\ obs' = [kind |-> "fetch", lo |-> MinOf(b), hi |-> MaxOf(b),
                  old |-> {h \in Synced : h > MaxOf(b) /\ ~InWin(h, WSamp)}]
    /\ UNCHANGED <<sphase, subj, slowH, batch>> /\ UNCH_STORE /\ UNCH_ENV /\ UNCH_DASER
BatchOk ==
    /\ sphase = "connected" /\ fetching # <<>>
    /\ IF Admit(stored, fetching[1], fetching[2]) THEN InsertRange(fetching[1], fetching[2])
       ELSE UNCHANGED <<stored, pruned, sampled>>
    /\ fetching' = <<>> /\ obs' = NoObs
    /\ slowH' = LET O == {h \in fetching[1]..fetching[2] : ~InWin(h, WPrune)} IN
                 IF O # {} /\ MaxOf(O) > slowH THEN MaxOf(O) ELSE slowH
    /\ UNCHANGED <<sphase, subj, meta, bstore, batch>> /\ UNCH_ENV /\ UNCH_DASER
BatchFail ==
    /\ sphase = "connected" /\ fetching # <<>> /\ fetching' = <<>> /\ obs' = NoObs
    /\ UNCHANGED <<sphase, subj, slowH, batch>> /\ UNCH_STORE /\ UNCH_ENV /\ UNCH_DASER

(* ---- daser (Daser.tla); a block's shares are answered as a whole here ---- *)
QueueNow == (((stored \ sampled) \ timedOut) \ ongoing) \ promised
DaserConnect ==     \* connecting_event_loop -> connected_event_loop: update_queue
    /\ dphase = "connecting" /\ peers = 1 /\ dphase' = "connected"
    /\ headH' = StoreHead /\ queue' = QueueNow /\ obs' = NoObs
    /\ UNCHANGED <<ongoing, timedOut, promised, batch>> /\ UNCH_STORE /\ UNCH_ENV /\ UNCH_SYNCER
DaserNoticeHead ==  \* wait_new_head fired
    /\ dphase = "connected" /\ headH # StoreHead
    /\ headH' = StoreHead /\ queue' = QueueNow /\ obs' = NoObs
    /\ UNCHANGED <<dphase, ongoing, timedOut, promised, batch>> /\ UNCH_STORE /\ UNCH_ENV /\ UNCH_SYNCER
Schedule ==
    /\ dphase = "connected" /\ queue # {}
    /\ LET h == MaxOf(queue)
           limit == IF h = headH THEN Lim + Extra ELSE Lim
       IN /\ Cardinality(ongoing) < limit
          /\ IF h \notin stored
             THEN \* height was pruned meanwhile: repopulate the queue
                  /\ headH' = StoreHead /\ queue' = QueueNow
                  /\ UNCHANGED <<ongoing, timedOut, meta>> /\ obs' = NoObs
             ELSE IF ~InWin(h, WSamp)
             THEN /\ queue' = queue \ (1..h) /\ timedOut' = timedOut \cup (1..h)
                  /\ UNCHANGED <<ongoing, headH, meta>> /\ obs' = NoObs
             ELSE /\ queue' = queue \ {h} /\ ongoing' = ongoing \cup {h}
                  /\ meta' = [x \in (DOMAIN meta) \cup {h} |-> IF x = h THEN MetaOf(h) \cup Cids(h) ELSE meta[x]]
                  /\ UNCHANGED <<timedOut, headH>>
                  /\ obs' = [kind |-> "start", h |-> h, before |-> Cardinality(ongoing), limit |-> limit]
    /\ UNCHANGED <<dphase, promised, stored, sampled, pruned, bstore, batch>> /\ UNCH_ENV /\ UNCH_SYNCER
SampleOk(h) ==      \* every share arrived (and landed in the blockstore), the block is marked
    /\ h \in ongoing /\ ongoing' = ongoing \ {h}
    /\ bstore' = bstore \cup Cids(h) /\ sampled' = sampled \cup {h}
    /\ obs' = [kind |-> "mark", h |-> h, isStored |-> h \in stored]
    /\ UNCHANGED <<dphase, queue, timedOut, promised, headH, stored, pruned, meta, batch>> /\ UNCH_ENV /\ UNCH_SYNCER
SampleTimeout(h, got) ==   \* some shares arrived, at least one did not
    /\ h \in ongoing /\ got \subseteq Cids(h) /\ got # Cids(h)
    /\ ongoing' = ongoing \ {h} /\ timedOut' = timedOut \cup {h} /\ bstore' = bstore \cup got
    /\ obs' = NoObs
    /\ UNCHANGED <<dphase, queue, promised, headH, stored, sampled, pruned, meta, batch>> /\ UNCH_ENV /\ UNCH_SYNCER

(* ---- pruner (Pruner.tla); want_to_prune is answered by the daser above ---- *)
AfterWindow(W) == LET O == {h \in stored : ~InWin(h, W)} IN IF O = {} THEN 0 ELSE MaxOf(O)
Candidates    == {h \in stored : h <= AfterWindow(WPrune)}
AfterSampling == {h \in Candidates : h <= AfterWindow(WSamp)}
PrunableAndSampled == ((Candidates \ AfterSampling) \ Edges(Synced)) \cap sampled
ComputeBatch ==
    /\ batch = <<>>
    /\ LET ask    == AfterSampling \ sampled          \* heights the daser is asked about
           grant  == ask \ ongoing                    \* on_want_to_prune
           first  == HeadN(PrunableAndSampled, MaxBatch)
           more   == HeadN({h \in AfterSampling : h \in sampled \/ h \in grant}, MaxBatch - Cardinality(first))
       IN /\ batch' = SetToSortSeq(first \cup more, <)
          /\ queue' = queue \ grant /\ promised' = promised \cup grant
    /\ obs' = NoObs
    /\ UNCHANGED <<dphase, ongoing, timedOut, headH>> /\ UNCH_STORE /\ UNCH_ENV /\ UNCH_SYNCER
RemoveNext ==
    /\ batch # <<>>
    /\ LET h == Head(batch) IN
       /\ bstore' = bstore \ MetaOf(h)
       /\ stored' = stored \ {h} /\ sampled' = sampled \ {h} /\ pruned' = pruned \cup {h}
       /\ meta' = [x \in (DOMAIN meta) \ {h} |-> meta[x]]
       /\ obs' = [kind |-> "remove", h |-> h, inPrune |-> InWin(h, WPrune), inSamp |-> InWin(h, WSamp),
                  wasSampled |-> h \in sampled, wasEdge |-> h \in Edges(Synced), ongoing |-> h \in ongoing]
    /\ batch' = Tail(batch)
    /\ UNCH_ENV /\ UNCH_SYNCER /\ UNCH_DASER

Next == \/ NewBlock \/ Connect \/ Disconnect
        \/ TryInit \/ HeaderSub \/ FetchNext \/ BatchOk \/ BatchFail
        \/ DaserConnect \/ DaserNoticeHead \/ Schedule
        \/ \E h \in 1..N : SampleOk(h) \/ \E g \in SUBSET Cids(h) : SampleTimeout(h, g)
        \/ ComputeBatch \/ RemoveNext
Spec == Init /\ [][Next]_vars

(* ---- system-level properties ---- *)
TypeOK == /\ stored \cap pruned = {} /\ sampled \subseteq stored /\ DOMAIN meta \subseteq stored
          /\ subj <= netHead /\ netHead <= now
\* C25 with the real pruner
NoRequestBelowOldHeader == obs.kind = "fetch" => obs.old = {}
\* C35 with the real daser
SafeRemoval == obs.kind = "remove" =>
    /\ ~obs.inPrune /\ (obs.inSamp => (obs.wasSampled /\ ~obs.wasEdge)) /\ ~obs.ongoing
\* C33/C34 at system level
MarkOnlyStored == obs.kind = "mark" => obs.isStored          \* mark_as_sampled never hits a removed header
StartBound == obs.kind = "start" => obs.before < obs.limit
OngoingStored == ongoing \subseteq stored
\* by-product: the blockstore holds no CID whose header is gone
BlockstoreNoLeak == \A c \in bstore : \E h \in stored : c \in MetaOf(h)
\* the pruner never removes an edge inside the sampling window, so the syncer's repaired guard is sound:
\* a pruned header that bounds a gap is outside the sampling window
PrunedEdgesAreOld == \A h \in pruned : (h \in Edges(Synced)) => ~InWin(h, WSamp)

(* ---- liveness of the composition (honest, eventually quiet environment) ---- *)
\* In a finite model the chain stops at height N.  The real chain keeps producing blocks and every
\* head change makes the daser rebuild its queue (that is the only time back-filled headers enter it:
\* observation recorded in DESIGN 12.3).  DaserRefresh stands for "a later head change happened".
DaserRefresh == /\ dphase = "connected" /\ netHead = N /\ queue # QueueNow
                /\ headH' = StoreHead /\ queue' = QueueNow /\ obs' = NoObs
                /\ UNCHANGED <<dphase, ongoing, timedOut, promised, batch>> /\ UNCH_STORE /\ UNCH_ENV /\ UNCH_SYNCER
Workers == DaserRefresh \/ TryInit \/ HeaderSub \/ FetchNext \/ BatchOk \/ DaserConnect \/ DaserNoticeHead \/ Schedule
           \/ (\E h \in 1..N : SampleOk(h)) \/ ComputeBatch \/ RemoveNext
LiveNext == Workers \/ NewBlock \/ Connect
Fairness == /\ WF_vars(TryInit) /\ WF_vars(HeaderSub) /\ WF_vars(FetchNext) /\ WF_vars(BatchOk)
            /\ WF_vars(DaserConnect) /\ WF_vars(DaserNoticeHead) /\ WF_vars(Schedule)
            /\ WF_vars(\E h \in 1..N : SampleOk(h)) /\ WF_vars(ComputeBatch) /\ WF_vars(RemoveNext)
            /\ WF_vars(Connect) /\ WF_vars(NewBlock) /\ WF_vars(DaserRefresh)
LiveSpec == Init /\ [][LiveNext]_vars /\ Fairness
\* every height of the sampling window up to the head ends up synced (stored, or sampled and pruned)
WindowSynced == \A h \in 1..netHead : InWin(h, WSamp) => h \in Synced
\* ... and every stored block of the window ends up sampled
WindowSampled == \A h \in stored : InWin(h, WSamp) => h \in sampled
EventuallySyncedAndSampled == <>[](netHead = N => (WindowSynced /\ WindowSampled))
\* the pruner eventually removes everything outside both windows
\* vacuity guard for the configurations: slow sync does hold the syncer back in some reachable state (must be violated)
SlowSyncNeverHolds == LET b == CalcRange(subj, Synced, Batch) IN
    ~(sphase = "connected" /\ fetching = <<>> /\ subj # 0 /\ b # {} /\ SlowSyncHolds(b))
EventuallyPruned == <>[](netHead = N => \A h \in stored : InWin(h, WPrune) \/ InWin(h, WSamp))
=============================================================================
