------------------------------ MODULE PrunerBatch -----------------------------
(***************************************************************************)
(* C35 under concurrency: Worker::get_next_prunable_batch (node/src/pruner.rs) *)
(* is not one atomic step.  It fixes the two cut-offs from the clock, reads *)
(* the stored, the pruned and the sampled ranges with three store calls,    *)
(* decides the batch from those snapshots (asking the daser about the       *)
(* unsampled candidates), and removes the batch height by height -- while   *)
(* the syncer inserts headers, the daser starts and finishes sampling, and  *)
(* time passes.  Pruner.tla treats the decision as one action on the current *)
(* state; this module refines it, one action per store call, and checks     *)
(* SafeRemoval against the state AT THE TIME OF EACH REMOVAL.                *)
(*                                                                         *)
(* Why it holds: everything the decision relies on only moves in the safe   *)
(* direction afterwards -- time only makes headers older, sampled marks are *)
(* only added, synced heights are only added (the syncer never re-inserts a *)
(* pruned height, C24), the pruner is the only remover, and the daser never *)
(* starts a block it has promised.  The constant NoAsk gives a design that       *)
(* breaks the last of these and must be refuted.                            *)
(***************************************************************************)
EXTENDS Naturals, FiniteSets, Sequences, Ranges

CONSTANTS N, WSamp, WPrune, MaxNow,
          NoAsk        \* TRUE: a (wrong) design that does not ask the daser about unsampled old blocks

VARIABLES stored, pruned, sampled, ongoingD, promised, now,
          pc,                    \* "idle" | "r1" | "r2" | "r3" | "removing"
          cutNow,                \* the clock value the cut-offs were computed from
          snapS, snapP, snapA,   \* the three range reads
          snapOngoing,           \* the blocks in progress when the round began (observation only)
          batch, obs
bvars == <<stored, pruned, sampled, ongoingD, promised, now, pc, cutNow, snapS, snapP, snapA, snapOngoing, batch, obs>>

NoObs == [kind |-> "none"]
InWinAt(t, h, W) == t - h < W
InWin(h, W) == InWinAt(now, h, W)
Synced == stored \cup pruned

Init == /\ stored \in SUBSET (1..N) /\ pruned \in SUBSET ((1..N) \ stored) /\ sampled \in SUBSET stored
        /\ ongoingD = {} /\ promised = {} /\ now \in N..(N + 1)
        /\ \A h \in pruned : now - h >= WPrune        \* what was pruned before had left the pruning window
        /\ pc = "idle" /\ cutNow = 0 /\ snapS = {} /\ snapP = {} /\ snapA = {} /\ snapOngoing = {}
        /\ batch = <<>> /\ obs = NoObs

(* ---- the other tasks ---- *)
\* the syncer inserts a run of heights that were never synced (C24) and exist already (not above the clock)
SyncInsert(lo, hi) == /\ lo <= hi /\ hi <= now /\ (lo..hi) \cap Synced = {}
                      /\ stored' = stored \cup (lo..hi) /\ obs' = NoObs
                      /\ UNCHANGED <<pruned, sampled, ongoingD, promised, now, pc, cutNow, snapS, snapP, snapA, snapOngoing, batch>>
\* the daser starts a block it has not promised and that is inside the sampling window, finishes one
StartSampling(h) == /\ h \in stored \ sampled /\ h \notin promised /\ h \notin ongoingD /\ InWin(h, WSamp)
                    /\ ongoingD' = ongoingD \cup {h} /\ obs' = NoObs
                    /\ UNCHANGED <<stored, pruned, sampled, promised, now, pc, cutNow, snapS, snapP, snapA, snapOngoing, batch>>
FinishSampling(h) == /\ h \in ongoingD /\ ongoingD' = ongoingD \ {h}
                     /\ sampled' = (IF h \in stored THEN sampled \cup {h} ELSE sampled) /\ obs' = NoObs
                     /\ UNCHANGED <<stored, pruned, promised, now, pc, cutNow, snapS, snapP, snapA, snapOngoing, batch>>
Tick == /\ now < MaxNow /\ now' = now + 1 /\ obs' = NoObs
        /\ UNCHANGED <<stored, pruned, sampled, ongoingD, promised, pc, cutNow, snapS, snapP, snapA, snapOngoing, batch>>

(* ---- the pruner, one action per store call ---- *)
Begin == /\ pc = "idle" /\ pc' = "r1" /\ cutNow' = now /\ snapOngoing' = ongoingD /\ obs' = NoObs
         /\ UNCHANGED <<stored, pruned, sampled, ongoingD, promised, now, snapS, snapP, snapA, batch>>
Read1 == /\ pc = "r1" /\ pc' = "r2" /\ snapS' = stored /\ obs' = NoObs
         /\ UNCHANGED <<stored, pruned, sampled, ongoingD, promised, now, cutNow, snapP, snapA, snapOngoing, batch>>
Read2 == /\ pc = "r2" /\ pc' = "r3" /\ snapP' = pruned /\ obs' = NoObs
         /\ UNCHANGED <<stored, pruned, sampled, ongoingD, promised, now, cutNow, snapS, snapA, snapOngoing, batch>>
\* third read, then the decision on the snapshots; the daser is asked NOW about the unsampled old candidates
AfterWin(S, W) == LET O == {h \in S : ~InWinAt(cutNow, h, W)} IN IF O = {} THEN 0 ELSE MaxOf(O)
Decide ==
    /\ pc = "r3"
    /\ LET sA    == sampled
           cand  == {h \in snapS : h <= AfterWin(snapS, WPrune)}
           afterS == {h \in cand : h <= AfterWin(snapS, WSamp)}
           ps    == ((cand \ afterS) \ Edges(snapS \cup snapP)) \cap sA
           busy  == IF NoAsk THEN {} ELSE ongoingD
           grant == (afterS \ sA) \ busy
           b     == ps \cup {h \in afterS : h \in sA \/ h \in grant}
       IN /\ snapA' = sA
          /\ promised' = promised \cup grant
          /\ batch' = SetToSortSeq(b, <)
          /\ pc' = IF b = {} THEN "idle" ELSE "removing"
    /\ obs' = NoObs
    /\ UNCHANGED <<stored, pruned, sampled, ongoingD, now, cutNow, snapS, snapP, snapOngoing>>
RemoveNext ==
    /\ pc = "removing" /\ batch # <<>>
    /\ LET h == Head(batch) IN
       /\ stored' = stored \ {h} /\ sampled' = sampled \ {h} /\ pruned' = pruned \cup {h}
       /\ obs' = [kind |-> "remove", h |-> h, inPrune |-> InWin(h, WPrune), inSamp |-> InWin(h, WSamp),
                  wasSampled |-> h \in sampled, wasEdge |-> h \in Edges(Synced), ongoing |-> h \in ongoingD,
                  wasStored |-> h \in stored]
    /\ batch' = Tail(batch) /\ pc' = IF Len(batch) = 1 THEN "idle" ELSE "removing"
    /\ UNCHANGED <<ongoingD, promised, now, cutNow, snapS, snapP, snapA, snapOngoing>>

Next == \/ Begin \/ Read1 \/ Read2 \/ Decide \/ RemoveNext \/ Tick
        \/ \E lo, hi \in 1..N : SyncInsert(lo, hi)
        \/ \E h \in 1..N : StartSampling(h) \/ FinishSampling(h)
Spec == Init /\ [][Next]_bvars

(* ---- C35, on the state in which the removal happens ---- *)
SafeRemoval == obs.kind = "remove" =>
    /\ obs.wasStored
    /\ ~obs.inPrune
    /\ obs.inSamp => (obs.wasSampled /\ ~obs.wasEdge)
    /\ ~obs.ongoing
=============================================================================
