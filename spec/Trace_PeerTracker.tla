-------------------------- MODULE Trace_PeerTracker -------------------------
(* impl -> spec: a recorded history of PeerTracker events.  Each line carries the      *)
(* operation, its result and what the real tracker shows afterwards: per-peer views,   *)
(* the published PeerTrackerInfo (watch channel), info(), protected_len per tag.       *)
(*                                                                                     *)
(* Every line must satisfy the three clauses of C39 evaluated on the REAL views         *)
(* (PropOK).  With Strict = TRUE the line must in addition be exactly what the model's  *)
(* action yields (conformance); with Strict = FALSE the model state just follows the    *)
(* real views - used to tell a broken clause (still rejected) from model drift.         *)
EXTENDS PeerTracker, Json, IOUtils, TLC
CONSTANT Strict
Rec == ndJsonDeserialize(IOEnv.TRACE)
VARIABLE l
tvars == <<vars, l>>
Ev == Rec[l]

MaskSet(m, n) == {i \in 1..n : (m \div (2^(i-1))) % 2 = 1}
Dec(v) == [p \in Peers |-> [k |-> v[p][1] = 1, c |-> MaskSet(v[p][2], NC), t |-> v[p][3] = 1,
                            a |-> v[p][4] = 1, kind |-> v[p][5], pr |-> MaskSet(v[p][6], NT), old |-> v[p][7] = 1]]
PubSeq(i) == <<i.conn, i.trusted, i.full, i.arch>>
PubRec(s) == [conn |-> s[1], trusted |-> s[2], full |-> s[3], arch |-> s[4]]
Real == Dec(Ev.views)

PropOK == /\ Ev.pub = PubSeq(Recount(Real)) /\ Ev.info = Ev.pub                     \* clause 1
          /\ \A t \in Tags : Ev.pcount[t] = TagCount(Real, t)                       \* clause 2
          /\ Ev.name = "gc" =>                                                      \* clause 3
                \A p \in Peers : (P[p].k /\ (Connected(P, p) \/ Protected(P, p))) => Real[p].k

Act == LET n == Ev.name  p == Ev.p  x == Ev.x IN
       \/ n = "add_peer_id"       /\ AddPeerId(p)
       \/ n = "set_trusted"       /\ SetTrusted(p, x = 1)
       \/ n = "protect"           /\ Protect(p, x)
       \/ n = "unprotect"         /\ Unprotect(p, x)
       \/ n = "add_connection"    /\ AddConnection(p, x)
       \/ n = "remove_connection" /\ RemoveConnection(p, x)
       \/ n = "on_agent_version"  /\ AgentVersion(p, x)
       \/ n = "mark_as_archival"  /\ MarkArchival(p)
       \/ n = "on_ping"           /\ Ping(p, x)
       \/ n = "gc"                /\ Gc
       \/ n = "age"               /\ Age(p)
Conform == /\ P' = Real /\ res' = Ev.res /\ PubSeq(pub') = Ev.pub
           /\ \A t \in Tags : pcount'[t] = Ev.pcount[t]
Follow == /\ P' = Real /\ pub' = PubRec(Ev.pub) /\ pcount' = [t \in Tags |-> Ev.pcount[t]]
          /\ op' = [name |-> Ev.name, p |-> Ev.p, x |-> Ev.x] /\ res' = Ev.res

TStep == /\ l <= Len(Rec) /\ l' = l + 1
         /\ IF Ev.name = "reset"
            THEN /\ P' = [p \in Peers |-> Gone] /\ pub' = PubRec(<<0, 0, 0, 0>>)
                 /\ pcount' = [t \in Tags |-> 0] /\ op' = [name |-> "init", p |-> 0, x |-> 0] /\ res' = <<>>
            ELSE /\ PropOK
                 /\ IF Strict THEN Act /\ Conform ELSE Follow

TInit == Init /\ l = 1
TSpec == TInit /\ [][TStep]_tvars

Accepted ==
    LET d == TLCGet("stats").diameter IN
    IF d - 1 = Len(Rec) THEN TRUE
    ELSE /\ PrintT(<<"REJECT-AT", d>>)
         /\ PrintT(ToJson(Rec[d]))
         /\ FALSE
=============================================================================
