CONSTANT N = 6
INIT Init
NEXT GenNext
VIEW View
CHECK_DEADLOCK FALSE
