CONSTANT N = 5
INIT MCInit
NEXT Next
INVARIANTS MigrationPreserves NewerRefused
PROPERTY Idempotent
CHECK_DEADLOCK FALSE
