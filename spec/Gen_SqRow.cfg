CONSTANT K = 2
INIT Init
NEXT GenNext
CHECK_DEADLOCK FALSE
