---------------------------- MODULE StoreMigration ----------------------------
(***************************************************************************)
(* C23.  Opening a redb header store of schema version 1..5                *)
(* (node/src/store/redb_store.rs: RedbStore::new, migrate_v1_to_v2,        *)
(* migrate_v2_to_v3).                                                      *)
(*                                                                         *)
(* A database is the record                                                *)
(*   ver  - content of STORE.SCHEMA_VERSION                                *)
(*   hr   - the v1 table STORE.HEIGHT_RANGES (u64 -> (u64,u64)): sequence  *)
(*          of its rows in key order, <<>> when the table does not exist   *)
(*   rt   - the table STORE.RANGES (&str -> Vec<(u64,u64)>): function from *)
(*          the keys present to range lists                                *)
(*   tabs - the set of tables that exist in the file                       *)
(*   ident- whether LIBP2P.IDENTITY holds a key pair                       *)
(* Layouts:  v1: stored ranges are the rows of hr, no STORE.RANGES;        *)
(*           v2: rt[KHdr] stored, rt[KAcc] sampled ("accepted") ranges;    *)
(*           v3: rt[KHdr], rt[KSmp], rt[KPrn].                             *)
(* A database written by a newer version (4, 5) is modelled with the v3    *)
(* layout, or with only some of today's tables ("part": no hash index, no  *)
(* metadata, no identity) or none but the version table ("min") - a newer  *)
(* version may have renamed or dropped any of them; whatever the file      *)
(* holds must be left alone: no table and no identity may be added.        *)
(*                                                                         *)
(* Open is the composition the code performs inside one write transaction: *)
(* version check, then the stepwise migrations; a refused open aborts the  *)
(* transaction.                                                            *)
(***************************************************************************)
EXTENDS Naturals, FiniteSets, Sequences, Ranges

CONSTANT N                 \* heights 1..N
U == 1..N
Current  == 3              \* SCHEMA_VERSION
Versions == 1..5

KHdr == "KEY.HEADER_RANGES"
KSmp == "KEY.SAMPLED_RANGES"
KAcc == "KEY.ACCEPTED_SAMPING_RANGES"      \* sic, the v2 key
KPrn == "KEY.PRUNED_RANGES"

VARIABLES db,      \* the database file
          db0,     \* the database as it was before the first open (history variable)
          res,     \* result of the last open: "none" | "ok" | "refused"
          opens    \* number of opens performed

vars == <<db, db0, res, opens>>

Get(rt, k) == IF k \in DOMAIN rt THEN rt[k] ELSE <<>>        \* get_ranges: missing key = empty
Put(rt, k, v) == [x \in (DOMAIN rt) \cup {k} |-> IF x = k THEN v ELSE rt[x]]
Del(rt, k) == [x \in (DOMAIN rt) \ {k} |-> rt[x]]

(* ---- what a database of each layout holds ---- *)
StoredOf(d)  == IF d.ver = 1 THEN SetOfRanges(d.hr) ELSE SetOfRanges(Get(d.rt, KHdr))
SampledOf(d) == CASE d.ver = 1 -> {}                      \* v1 kept no sampled ranges
                  [] d.ver = 2 -> SetOfRanges(Get(d.rt, KAcc))
                  [] OTHER     -> SetOfRanges(Get(d.rt, KSmp))
PrunedOf(d)  == IF d.ver = 1 THEN {} ELSE SetOfRanges(Get(d.rt, KPrn))

(* ---- databases written by the old code ---- *)
\* `accPresent`: a v2 store that never sampled has no KAcc row (and no row at all if it never
\* stored a header); one that did may hold an empty list
TVer == "STORE.SCHEMA_VERSION"  THdr == "STORE.HEADERS"  THgt == "STORE.HEIGHTS"
TMeta == "STORE.SAMPLING_METADATA"  TRng == "STORE.RANGES"  TOld == "STORE.HEIGHT_RANGES"
TIdent == "LIBP2P.IDENTITY"
AllTables == {TVer, THdr, THgt, TMeta, TRng, TIdent}         \* what RedbStore::new leaves behind
Layouts == {"full", "part", "min"}

MkDb(v, stored, sampled, prunedS, accPresent, lay) ==
    CASE v = 1 -> [ver |-> 1, hr |-> RunSeq(stored), rt |-> <<>>,
                   tabs |-> (AllTables \ {TRng}) \cup {TOld}, ident |-> TRUE]
      [] v = 2 -> [ver |-> 2, hr |-> <<>>,
                   rt |-> IF accPresent THEN (KHdr :> RunSeq(stored)) @@ (KAcc :> RunSeq(sampled))
                          ELSE IF stored = {} THEN <<>>            \* a store that was never written to
                          ELSE (KHdr :> RunSeq(stored)),
                   tabs |-> AllTables, ident |-> TRUE]
      [] lay = "min" -> [ver |-> v, hr |-> <<>>, rt |-> <<>>, tabs |-> {TVer}, ident |-> FALSE]
      [] OTHER -> [ver |-> v, hr |-> <<>>,
                   rt |-> (KHdr :> RunSeq(stored)) @@ (KSmp :> RunSeq(sampled)) @@ (KPrn :> RunSeq(prunedS)),
                   tabs |-> IF lay = "part" THEN {TVer, THdr, TRng} ELSE AllTables,
                   ident |-> lay = "full"]

(* ---- the migrations (each a no-op from its target version on) ---- *)
Migrate12(d) ==
    IF d.ver >= 2 THEN d
    ELSE [d EXCEPT !.ver = 2, !.hr = <<>>, !.rt = Put(d.rt, KHdr, d.hr),      \* rows copied, old table deleted
                   !.tabs = (d.tabs \ {TOld}) \cup {TRng}]

Migrate23(d) ==
    IF d.ver >= 3 THEN d
    ELSE [d EXCEPT !.ver = 3, !.rt = Del(Put(d.rt, KSmp, Get(d.rt, KAcc)), KAcc)]

Refused(d) == d.ver > Current
\* after the migrations the tables of the current layout and the node identity are created if missing
Complete(d) == [d EXCEPT !.tabs = d.tabs \cup AllTables, !.ident = TRUE]
OpenDb(d)  == IF Refused(d) THEN d ELSE Complete(Migrate23(Migrate12(d)))

Open == /\ opens < 2
        /\ db' = OpenDb(db)
        /\ res' = IF Refused(db) THEN "refused" ELSE "ok"
        /\ opens' = opens + 1
        /\ UNCHANGED db0

Next == Open
Spec == db = db0 /\ res = "none" /\ opens = 0 /\ [][Next]_vars

(* ---- C23 ---- *)
\* an older (or current) database is migrated and reports the ranges it held, unchanged
MigrationPreserves ==
    (opens > 0 /\ db0.ver <= Current) =>
        /\ res = "ok" /\ db.ver = Current
        /\ StoredOf(db) = StoredOf(db0) /\ SampledOf(db) = SampledOf(db0)
        /\ PrunedOf(db) = PrunedOf(db0)
        /\ db.hr = <<>> /\ KAcc \notin DOMAIN db.rt /\ TOld \notin db.tabs   \* nothing of the old layouts is left
\* a newer database is refused and not modified (db = db0 includes: no table, no identity added)
NewerRefused == (opens > 0 /\ db0.ver > Current) => res = "refused" /\ db = db0
\* opening again changes nothing
Idempotent == [][opens = 1 => db' = db]_vars
=============================================================================
