------------------------------ MODULE StoreCrash ------------------------------
(***************************************************************************)
(* C22.  The header store of Store.tla on a persistent medium that can     *)
(* lose power at any point (node/src/store/redb_store.rs over redb).       *)
(*                                                                         *)
(* The Store variables (hdr, sampled, pruned, meta) are the state as the   *)
(* running process sees it.  An operation that changes the state is        *)
(* executed as TxPerOp transactions; a transaction copies the index tables *)
(* it changes to fresh pages (copy on write), then writes its commit slot  *)
(* and - if commits are durable - syncs before it returns.  Writes sit in  *)
(* a volatile cache until a sync; a crash keeps an arbitrary subset of the *)
(* cached writes (whole writes).  Recovery takes the newest commit slot    *)
(* whose pages all reached the medium (checksum) and falls back to the     *)
(* previous one otherwise.                                                 *)
(*                                                                         *)
(* The on-disk image has four index tables, the parts                      *)
(*   H headers by height, X heights by hash, R the three range sets,       *)
(*   M sampling metadata;                                                  *)
(* "mutually consistent" (Consistent) relates them.                        *)
(*                                                                         *)
(* Design under verification: TxPerOp = 1, DurableCommit = TRUE,           *)
(* ChunkMax = 0 (one operation = one durable unit, whatever its size)      *)
(* (RedbStore::write_tx, Durability::Immediate).  The other values are     *)
(* the design mutants the property excludes (MC_StoreCrash_*.cfg show TLC  *)
(* refuting CrashSafe for them).                                           *)
(***************************************************************************)
EXTENDS Store, TLC

CONSTANTS TxPerOp,         \* 1 | 2 (2: header+hash tables and range+metadata tables in separate transactions)
          DurableCommit,   \* BOOLEAN
          ChunkMax,        \* 0 = an insert is one transaction whatever its length; n > 0: longer batches are
                           \*     committed in parts of n headers (top part first)
          MaxOps           \* bound on state-changing operations per behaviour (transaction ids grow)

VARIABLES ackd,    \* state after the last acknowledged operation            [hdr, sampled, pruned, meta]
          infl,    \* <<>> or <<s>>: the state the operation in flight leads to
          plan,    \* backend calls the operation in flight still has to make
          file,    \* writes that reached the medium
          cache,   \* writes issued since the last sync, in issue order
          txc,     \* history: transaction id -> [img: its table contents, loc: part -> id of the page holding it]
          root     \* newest transaction id whose commit slot the process has written

cvars == <<ackd, infl, plan, file, cache, txc, root>>
allvars == <<vars, cvars>>

Parts == {"H", "X", "R", "M"}

StateRec == [hdr |-> hdr, sampled |-> sampled, pruned |-> pruned, meta |-> meta]

\* the table contents that represent an abstract state
Img(s) == [H |-> s.hdr,
           X |-> {<<s.hdr[h].tag, h>> : h \in DOMAIN s.hdr},
           R |-> [st |-> DOMAIN s.hdr, sa |-> s.sampled, pr |-> s.pruned],
           M |-> s.meta]
\* and back (reading a recovered image)
StateOf(g) == [hdr |-> g.H, sampled |-> g.R.sa, pruned |-> g.R.pr, meta |-> g.M]

\* header, hash and range indexes agree with each other
Consistent(g) ==
    /\ DOMAIN g.H = g.R.st
    /\ \A h \in DOMAIN g.H : g.H[h].h = h
    /\ g.X = {<<g.H[h].tag, h>> : h \in DOMAIN g.H}
    /\ Cardinality({x[1] : x \in g.X}) = Cardinality(g.X)          \* one height per hash
    /\ g.R.sa \subseteq g.R.st /\ g.R.pr \cap g.R.st = {}
    /\ DOMAIN g.M \subseteq g.R.st

(* ---- the property, as a predicate on what recovery yields ---- *)
\* g: recovered image; a: state after the acknowledged operations; f: <<>> or <<state after the one in flight>>
RecoveredOK(g, a, f) ==
    /\ g = Img(a) \/ (f # <<>> /\ g = Img(f[1]))
    /\ Consistent(g)

(* ---- the medium ---- *)
PageW(n, p) == <<"page", n, p>>
SlotW(n)    == <<"slot", n>>
SyncC       == <<"sync">>

Valid(f, n)   == SlotW(n) \in f /\ \A p \in Parts : PageW(txc[n].loc[p], p) \in f
RecRoot(f)    == MaxOf({n \in DOMAIN txc : Valid(f, n)})
RecImg(f)     == LET n == RecRoot(f) IN [p \in Parts |-> txc[txc[n].loc[p]].img[p]]
Survivors(K)  == file \cup {cache[i] : i \in K}

Order == <<"H", "X", "R", "M">>
PartSeq(PS) == SelectSeq(Order, LAMBDA p : p \in PS)

\* transaction groups of one operation
Groups == IF TxPerOp = 1 THEN <<Parts>> ELSE <<{"H", "X"}, {"R", "M"}>>

Empty == [hdr |-> <<>>, sampled |-> {}, pruned |-> {}, meta |-> <<>>]

CInit == /\ Init
         /\ ackd = Empty /\ infl = <<>> /\ plan = <<>>
         /\ txc = (0 :> [img |-> Img(Empty), loc |-> [p \in Parts |-> 0]])
         /\ file = {SlotW(0)} \cup {PageW(0, p) : p \in Parts}     \* RedbStore::new has returned
         /\ cache = <<>> /\ root = 0

\* An operation is one atomic unit whatever its size.  The design mutant ChunkMax > 0 writes an
\* insert of more than ChunkMax headers as several transactions, top part first (each part is a
\* consistent store state of its own); Stages(b) are the states those extra commits publish.
AfterInsert(s, b) ==
    LET rng == b[1].h .. b[Len(b)].h IN
    [hdr |-> [h \in (DOMAIN s.hdr) \cup rng |-> IF h \in rng THEN b[h - b[1].h + 1] ELSE s.hdr[h]],
     sampled |-> s.sampled \ rng, pruned |-> s.pruned \ rng, meta |-> s.meta]
Stages(b) ==
    IF ChunkMax = 0 \/ Len(b) <= ChunkMax THEN <<>>
    ELSE LET n == (Len(b) + ChunkMax - 1) \div ChunkMax IN
         [j \in 1..(n - 1) |-> AfterInsert(StateRec, SubSeq(b, Len(b) - j * ChunkMax + 1, Len(b)))]

\* Start a store operation: `A` is an action of Store.tla, `mid` the states published by commits
\* before the final one (<<>> in the design).  A failing operation (or one that changes nothing)
\* aborts its transaction: nothing reaches the backend.
Begin(A, mid) ==
    /\ plan = <<>> /\ infl = <<>>
    /\ A
    /\ IF res' \in Errors \/ svars' = svars
       THEN UNCHANGED cvars
       ELSE /\ MaxOf(DOMAIN txc) < MaxOps * TxPerOp * (IF ChunkMax > 0 THEN 2 ELSE 1)
            /\ LET base == txc[root]
                   top  == MaxOf(DOMAIN txc)          \* ids are never reused (a lost transaction's pages may linger)
                   G    == Len(Groups)
                   nst  == Len(mid) + 1
                   simg(j) == IF j = 0 THEN base.img ELSE IF j <= Len(mid) THEN Img(mid[j]) ELSE Img(StateRec')
                   stage(k) == ((k - 1) \div G) + 1                  \* transaction k commits (a part group of) stage
                   grp(k)   == ((k - 1) % G) + 1
                   upto(i)  == UNION {Groups[x] : x \in 1..i}
                   \* newest transaction <= k that wrote part p (0: none of this operation)
                   writer(k, p) == LET ws == {x \in 1..k : p \in Groups[grp(x)]} IN IF ws = {} THEN 0 ELSE MaxOf(ws)
                   tx(k) == [img |-> [p \in Parts |-> IF p \in upto(grp(k)) THEN simg(stage(k))[p] ELSE simg(stage(k) - 1)[p]],
                             loc |-> [p \in Parts |-> IF writer(k, p) = 0 THEN base.loc[p] ELSE top + writer(k, p)]]
                   calls(k) == [i \in 1..Len(PartSeq(Groups[grp(k)])) |-> PageW(top + k, PartSeq(Groups[grp(k)])[i])]
                               \o <<SlotW(top + k)>> \o (IF DurableCommit THEN <<SyncC>> ELSE <<>>)
                   RECURSIVE allcalls(_)
                   allcalls(k) == IF k > nst * G THEN <<>> ELSE calls(k) \o allcalls(k + 1)
               IN /\ txc' = [n \in (DOMAIN txc) \cup ((top + 1)..(top + nst * G)) |->
                                IF n \in DOMAIN txc THEN txc[n] ELSE tx(n - top)]
                  /\ plan' = allcalls(1)
            /\ infl' = <<StateRec'>>
            /\ UNCHANGED <<ackd, file, cache, root>>

\* the next backend call of the operation in flight
Step ==
    /\ plan # <<>>
    /\ LET c == Head(plan) IN
       /\ plan' = Tail(plan)
       /\ IF c = SyncC THEN file' = file \cup {cache[i] : i \in DOMAIN cache} /\ cache' = <<>> /\ root' = root
          ELSE /\ cache' = Append(cache, c) /\ file' = file
               /\ root' = IF c[1] = "slot" THEN c[2] ELSE root
    /\ UNCHANGED <<vars, ackd, infl, txc>>

\* the operation returns success to its caller
Ack ==
    /\ plan = <<>> /\ infl # <<>>
    /\ ackd' = infl[1] /\ infl' = <<>>
    /\ UNCHANGED <<vars, plan, file, cache, txc, root>>

\* power loss keeping the cached writes K, followed by reopening the store
Crash(K) ==
    /\ LET f == Survivors(K)
           g == RecImg(f)
       IN /\ file' = f /\ cache' = <<>> /\ plan' = <<>> /\ infl' = <<>>
          /\ root' = RecRoot(f)
          /\ hdr' = g.H /\ sampled' = g.R.sa /\ pruned' = g.R.pr /\ meta' = g.M /\ res' = ROk
          /\ ackd' = StateOf(g)
    /\ UNCHANGED txc

(* ---- C22 ---- *)
\* whatever subset of the unsynced writes survives, reopening yields the state after the
\* acknowledged operations or after the one in flight, with consistent indexes
CrashSafe == \A K \in SUBSET (DOMAIN cache) : RecoveredOK(RecImg(Survivors(K)), ackd, infl)

\* the running process itself sees a consistent state equal to what it acknowledged / is about to
ProcessView == /\ Consistent(Img(StateRec))
               /\ IF infl = <<>> THEN StateRec = ackd ELSE StateRec = infl[1]
=============================================================================
