-------------------------------- MODULE Blob --------------------------------
(***************************************************************************)
(* C11.  Sparse share layout of a blob (celestia-app share format; code:   *)
(* types/src/blob/commitment.rs split_blob_to_shares, types/src/blob.rs    *)
(* reconstruct / reconstruct_all / shares_len, types/src/share.rs).        *)
(*                                                                         *)
(* Layout(len, signer) is the sequence of shares a blob of `len` data bytes *)
(* is split into: share k carries the data bytes Off(k)+1 .. Off(k)+PLen(k) *)
(* followed by zero padding; the first share carries the sequence length   *)
(* and, for share version 1, the 20-byte signer.  Reconstruct is the       *)
(* concatenation of the payloads cut at the sequence length.               *)
(*                                                                         *)
(* Layout cases: every len in 1..MaxLen x signer.                          *)
(* Stream cases: sequences of blobs and reserved-namespace shares; the     *)
(* expected result of reconstruct_all is the blobs in order.               *)
(***************************************************************************)
EXTENDS Naturals, Sequences, FiniteSets, TLC

CONSTANTS MaxLen,      \* data lengths 1..MaxLen
          StreamLen    \* streams have 1..StreamLen items

VARIABLE c

ShareSize  == 512
NsSize     == 29
InfoBytes  == 1
SeqLenSize == 4
SignerSize == 20
ContCap    == ShareSize - NsSize - InfoBytes                 \* 482
FirstCap(s) == ContCap - SeqLenSize - (IF s THEN SignerSize ELSE 0)   \* 478 / 458

CeilDiv(a, b) == (a + b - 1) \div b
Min(a, b) == IF a < b THEN a ELSE b

NShares(len, s) == IF len <= FirstCap(s) THEN 1 ELSE 1 + CeilDiv(len - FirstCap(s), ContCap)
Cap(k, s) == IF k = 1 THEN FirstCap(s) ELSE ContCap
Off(k, s) == IF k = 1 THEN 0 ELSE FirstCap(s) + (k - 2) * ContCap
PLen(k, len, s) == Min(Cap(k, s), len - Off(k, s))

\* <<is start, share version, sequence length (0 = none), signer present, data offset, payload data length, zero padding>>
ShareRec(k, len, s) == <<IF k = 1 THEN 1 ELSE 0, IF s THEN 1 ELSE 0, IF k = 1 THEN len ELSE 0,
                         IF k = 1 /\ s THEN 1 ELSE 0, Off(k, s), PLen(k, len, s), Cap(k, s) - PLen(k, len, s)>>
Layout(len, s) == [k \in 1..NShares(len, s) |-> ShareRec(k, len, s)]

\* Reconstruct o Split = id, stated on byte positions: the payload slices are
\* contiguous, start at 0, are non-empty and end exactly at len
RoundTrip(len, s) ==
    LET L == Layout(len, s) n == Len(L) IN
    /\ L[1][5] = 0
    /\ \A k \in 1..n : L[k][6] >= 1
    /\ \A k \in 1..(n - 1) : L[k + 1][5] = L[k][5] + L[k][6] /\ L[k][7] = 0    \* only the last share is padded
    /\ L[n][5] + L[n][6] = len

\* the number of shares is the least that can hold the data
Minimal(len, s) ==
    LET n == NShares(len, s) IN
    /\ FirstCap(s) + (n - 1) * ContCap >= len
    /\ n > 1 => FirstCap(s) + (n - 2) * ContCap < len

\* the signer costs exactly SignerSize bytes of the first share
SignerShift(len) ==
    /\ NShares(len, TRUE) = NShares(len + SignerSize, FALSE)
    /\ NShares(len, TRUE) >= NShares(len, FALSE)
    /\ (len \in (FirstCap(TRUE) + 1)..FirstCap(FALSE)) => NShares(len, TRUE) = 2 /\ NShares(len, FALSE) = 1

(* ---- streams for reconstruct_all ---- *)
\* blob kinds: <<signer, length class>>; the class picks a boundary length
BlobKinds == {"b0one", "b0two", "b1one", "b1two", "b0tiny", "b1three"}
KindSigner(b) == b \in {"b1one", "b1two", "b1three", "b1five"}
KindLen(b) == CASE b = "b0one" -> FirstCap(FALSE)
                [] b = "b0two" -> FirstCap(FALSE) + 1
                [] b = "b1one" -> FirstCap(TRUE)
                [] b = "b1two" -> FirstCap(TRUE) + 1
                [] b = "b0tiny" -> 1
                [] b = "b1three" -> FirstCap(TRUE) + ContCap + 1
                [] b = "b0five" -> FirstCap(FALSE) + 3 * ContCap + 1
                [] b = "b1five" -> FirstCap(TRUE) + 4 * ContCap
Reserved == {"tx", "pfb", "primary_padding", "tail_padding", "parity"}
Symbols == BlobKinds \cup Reserved
RECURSIVE SeqsUpTo(_)
SeqsUpTo(n) == IF n = 0 THEN {<<>>} ELSE LET P == SeqsUpTo(n - 1) IN P \cup {Append(p, x) : p \in {q \in P : Len(q) = n - 1}, x \in Symbols}
NBlobs(st) == Cardinality({k \in 1..Len(st) : st[k] \in BlobKinds})
Streams == {st \in SeqsUpTo(StreamLen) : NBlobs(st) \in 1..3}

RECURSIVE BlobsOf(_)
BlobsOf(st) == IF st = <<>> THEN <<>>
               ELSE IF Head(st) \in BlobKinds
                    THEN <<<<KindLen(Head(st)), IF KindSigner(Head(st)) THEN 1 ELSE 0>>>> \o BlobsOf(Tail(st))
                    ELSE BlobsOf(Tail(st))
RECURSIVE StreamShares(_)
StreamShares(st) == IF st = <<>> THEN 0
                    ELSE (IF Head(st) \in BlobKinds THEN NShares(KindLen(Head(st)), KindSigner(Head(st))) ELSE 1)
                         + StreamShares(Tail(st))

\* reserved-namespace shares INSIDE the share run of a multi-share blob: reconstruct_all ignores reserved
\* shares wherever they are, so the expected result is the same blobs.  p = gap after the p-th share of
\* the blob (0 = a reserved share in every gap); optionally a blob before and after.
InsideKinds == {"b0two", "b1two", "b1three", "b0five", "b1five"}
BlobRec(b) == <<KindLen(b), IF KindSigner(b) THEN 1 ELSE 0>>
InsideCases == {[kind |-> "inside", pre |-> pre, b |-> b, r |-> r, p |-> p, post |-> post] :
                  pre \in {<<>>, <<"b0one">>, <<"b1two">>}, post \in {<<>>, <<"b1one">>, <<"b0two">>},
                  r \in Reserved, b \in InsideKinds, p \in 0..4}
InsideOK(x) == x.p < NShares(KindLen(x.b), KindSigner(x.b))
InsideBlobs(x) == [k \in 1..Len(x.pre) |-> BlobRec(x.pre[k])] \o <<BlobRec(x.b)>> \o [k \in 1..Len(x.post) |-> BlobRec(x.post[k])]
InsideShares(x) == StreamShares(x.pre) + StreamShares(<<x.b>>) + StreamShares(x.post)
                   + (IF x.p = 0 THEN NShares(KindLen(x.b), KindSigner(x.b)) - 1 ELSE 1)

LayoutCases == {[kind |-> "layout", len |-> l, s |-> s] : l \in 1..MaxLen, s \in BOOLEAN}
StreamCases == {[kind |-> "stream", st |-> st] : st \in Streams}
Init == c \in LayoutCases \cup StreamCases \cup {x \in InsideCases : InsideOK(x)}
Next == UNCHANGED c

(* ---- invariants ---- *)
LayoutOK == c.kind = "layout" => RoundTrip(c.len, c.s) /\ Minimal(c.len, c.s) /\ SignerShift(c.len)
StreamOK == c.kind = "stream" =>
              /\ Len(BlobsOf(c.st)) = NBlobs(c.st)
              /\ StreamShares(c.st) >= Len(c.st)
InsideStreamOK == c.kind = "inside" =>
              /\ NShares(KindLen(c.b), KindSigner(c.b)) >= 2          \* there is a gap inside the run
              /\ c.p >= 1 => c.p < NShares(KindLen(c.b), KindSigner(c.b))   \* never after the blob's last share
              /\ Len(InsideBlobs(c)) = Len(c.pre) + 1 + Len(c.post)
=============================================================================
