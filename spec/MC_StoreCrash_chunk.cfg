CONSTANTS
  N = 3
  K = 2
  MaxOps = 2
  MaxCrashes = 1
  TxPerOp = 1
  ChunkMax = 1
  DurableCommit = TRUE
INIT MCInit
NEXT MCNext
VIEW View
INVARIANTS CrashSafe ProcessView SetsInv SegmentsLinked
CHECK_DEADLOCK FALSE
