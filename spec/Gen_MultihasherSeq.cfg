CONSTANT Dev = "none"
CONSTANT L = 4
CONSTANT SeqKinds = {"sample"}
INIT SInit
NEXT GenNext
CHECK_DEADLOCK FALSE
