------------------------------ MODULE Trace_Store -----------------------------
(* impl -> spec for C19/C20/C21: a recorded history of store operations.    *)
(* "hdr" events declare header descriptors; every operation event carries   *)
(* the result kind and the complete observable projection of the real store *)
(* (all queries), which must equal the abstract state after the action.     *)
EXTENDS Store, Json, IOUtils, TLC
Rec == ndJsonDeserialize(IOEnv.TRACE)
VARIABLES l, D            \* position; dictionary header id -> descriptor
tvars == <<hdr, sampled, pruned, meta, res, l, D>>
Ev == Rec[l]

Pairs(s)  == {<<s[i][1], s[i][2]>> : i \in DOMAIN s}
OptOf(s)  == IF Len(s) = 0 THEN None ELSE Some(s[1])

\* every observable query of the real store equals the abstract state (primed)
Observed(st) ==
    /\ CanonicalRanges(st.stored)  /\ SetOfRanges(st.stored)  = Stored'
    /\ CanonicalRanges(st.sampled) /\ SetOfRanges(st.sampled) = sampled'
    /\ CanonicalRanges(st.pruned)  /\ SetOfRanges(st.pruned)  = pruned'
    /\ OptOf(st.head) = QHead'
    /\ OptOf(st.hh)   = HeadOpt(Stored')
    /\ Pairs(st.byh) = {<<h, hdr'[h].id>> : h \in Stored'}
    /\ \A i \in DOMAIN st.byh : st.byh[i][3] = st.byh[i][1]         \* header at height h has height h
    /\ ToSet(st.hasat) = Stored'
    /\ Pairs(st.byhash) = {<<hdr'[h].tag, hdr'[h].id>> : h \in Stored'}
    /\ ToSet(st.has) = Tags'
    /\ {<<st.meta[i][1], ToSet(st.meta[i][2])>> : i \in DOMAIN st.meta} = {<<h, meta'[h]>> : h \in DOMAIN meta'}
    /\ ToSet(st.metanone) = Stored' \ DOMAIN meta'
    \* get_range(a..=b): all of a..b stored => exactly those headers in order, else an error
    /\ \A i \in DOMAIN st.rng :
          LET a == st.rng[i][1]  b == st.rng[i][2] IN
          IF a >= 1 /\ (a..b) \subseteq Stored'
          THEN st.rng[i][3] = 1 /\ st.rng[i][4] = [k \in 1..(b - a + 1) |-> hdr'[a + k - 1].id]
          ELSE st.rng[i][3] = 0
    \* get_range(..) = 1..=head: succeeds iff nothing is missing below the head
    /\ IF Stored' # {} /\ (1..MaxOf(Stored')) \subseteq Stored'
       THEN st.all[1] = 1 /\ st.all[2] = [k \in 1..MaxOf(Stored') |-> hdr'[k].id]
       ELSE st.all[1] = 0

\* Property layer for a failing insert: any applicable error kind is acceptable
TInsert ==
    LET b == [i \in 1..Len(Ev.b) |-> D[Ev.b[i]]] IN
    IF b = <<>> \/ FailKinds(b) = {} THEN Insert(b) /\ res' = Ev.res
    ELSE Ev.res \in FailKinds(b) /\ Fail(Ev.res)

\* Two inserts issued concurrently: the results and the store afterwards must be those of ONE of the two
\* sequential orders (a refused insert changes nothing, an accepted one is applied completely).
BatchOf(ids) == [i \in 1..Len(ids) |-> D[ids[i]]]
ResOkIn(S, b, r) == IF b = <<>> \/ FailKindsIn(S, b) = {} THEN r = ROk ELSE r \in FailKindsIn(S, b)
AfterIn(S, b, r) == IF r = ROk THEN InsertIn(S, b) ELSE S
TPar ==
    LET x == BatchOf(Ev.a)  y == BatchOf(Ev.b) IN
    \E o \in {1, 2} :
        LET f  == IF o = 1 THEN x ELSE y      rf == IF o = 1 THEN Ev.ra ELSE Ev.rb
            g  == IF o = 1 THEN y ELSE x      rg == IF o = 1 THEN Ev.rb ELSE Ev.ra
            S1 == AfterIn(CurStoreState, f, rf)
            S2 == AfterIn(S1, g, rg)
        IN /\ ResOkIn(CurStoreState, f, rf) /\ ResOkIn(S1, g, rg)
           /\ hdr' = S2.hdr /\ sampled' = S2.sampled /\ pruned' = S2.pruned /\ meta' = S2.meta
           /\ res' = rg

\* Any two operations issued concurrently (the syncer inserts while the pruner removes and the sampler marks /
\* records metadata): x, y are records [k, b | h, cs]; one of the two orders must explain results and store.
OpResOkIn(S, o, r) ==
    IF o.k = "insert" THEN ResOkIn(S, BatchOf(o.b), r) ELSE r = HeightResIn(S, o.h)
OpAfterIn(S, o, r) ==
    IF r # ROk THEN S
    ELSE CASE o.k = "insert" -> InsertIn(S, BatchOf(o.b))
           [] o.k = "remove" -> RemoveIn(S, o.h)
           [] o.k = "mark"   -> MarkIn(S, o.h)
           [] OTHER          -> MetaIn(S, o.h, ToSet(o.cs))
TPar2 ==
    \E ord \in {1, 2} :
        LET f  == IF ord = 1 THEN Ev.x ELSE Ev.y      rf == IF ord = 1 THEN Ev.rx ELSE Ev.ry
            g  == IF ord = 1 THEN Ev.y ELSE Ev.x      rg == IF ord = 1 THEN Ev.ry ELSE Ev.rx
            S1 == OpAfterIn(CurStoreState, f, rf)
            S2 == OpAfterIn(S1, g, rg)
        IN /\ OpResOkIn(CurStoreState, f, rf) /\ OpResOkIn(S1, g, rg)
           /\ hdr' = S2.hdr /\ sampled' = S2.sampled /\ pruned' = S2.pruned /\ meta' = S2.meta
           /\ res' = rg

TStep ==
    /\ l <= Len(Rec) /\ l' = l + 1
    /\ LET n == Ev.name IN
       \/ n = "reset"  /\ hdr' = <<>> /\ sampled' = {} /\ pruned' = {} /\ meta' = <<>> /\ res' = ROk /\ D' = <<>>
       \/ n = "hdr"    /\ D' = [i \in (DOMAIN D) \cup {Ev.d.id} |-> IF i = Ev.d.id THEN Ev.d ELSE D[i]]
                       /\ UNCHANGED <<hdr, sampled, pruned, meta, res>>
       \/ n = "insert" /\ TInsert /\ Observed(Ev.st) /\ UNCHANGED D
       \/ n = "par"    /\ TPar /\ Observed(Ev.st) /\ UNCHANGED D
       \/ n = "par2"   /\ TPar2 /\ Observed(Ev.st) /\ UNCHANGED D
       \/ n = "remove" /\ RemoveHeight(Ev.h) /\ res' = Ev.res /\ Observed(Ev.st) /\ UNCHANGED D
       \/ n = "mark"   /\ MarkSampled(Ev.h) /\ res' = Ev.res /\ Observed(Ev.st) /\ UNCHANGED D
       \/ n = "meta"   /\ UpdateMeta(Ev.h, ToSet(Ev.cs)) /\ res' = Ev.res /\ Observed(Ev.st) /\ UNCHANGED D

TInit == Init /\ l = 1 /\ D = <<>>
TSpec == TInit /\ [][TStep]_tvars

Accepted ==
    LET d == TLCGet("stats").diameter IN
    IF d - 1 = Len(Rec) THEN TRUE
    ELSE /\ PrintT(<<"REJECT-AT", d>>)
         /\ PrintT(ToJson(Rec[d]))
         /\ FALSE
=============================================================================
