CONSTANT Peers = {1, 2, 3}
CONSTANT GetCallers = {1, 2}
CONSTANT HeadCallers = {3, 4}
CONSTANT Callers = {1, 2, 3, 4}
CONSTANT Hdrs = {1, 2, 3, 4}
CONSTANT MaxRounds = 3
CONSTANT GetOutcomes = {"valid", "invalid", "notfound", "fail", "fail-dial", "fail-timeout", "fail-unsupported", "fail-io"}
CONSTANT HeadOutcomes = {"hdr", "invalid", "multi", "fail", "fail-dial"}
CONSTANT MaxPeerEvents = 3
CONSTANT MaxSteps = 30
CONSTANT StopAfter = 14
CONSTANT MinTrustedConn = 0
CONSTANT HdrHeight <- MCHdrHeight
INIT GenInit
NEXT GenNext
VIEW GenView
INVARIANTS Emit MonitorOK
CHECK_DEADLOCK FALSE
