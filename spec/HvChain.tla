-------------------------------- MODULE HvChain --------------------------------
(***************************************************************************)
(* C02 -- header chain verification accepts exactly linked successors.     *)
(*                                                                         *)
(* A symbolic header is [id, chain, h, t, vals, nvals, parent, kinds]; its *)
(* hash is its id (distinct headers of a case have distinct ids), the hash *)
(* of a validator set is the sequence itself; `kinds` says what each       *)
(* validator of `vals` put into the header's commit.  Times are seconds    *)
(* relative to a base one hour before the local clock (Now = 3600).        *)
(*                                                                         *)
(* Property layer : VerifyVerdict / RangeVerdict -- the "only if" clauses  *)
(*                  of the statement give MustReject; MustAccept only when *)
(*                  every clause holds (and, non-adjacent, the commit is   *)
(*                  well formed).                                          *)
(* Algorithm layer: AlgVerify / AlgRange -- ExtendedHeader::verify,        *)
(*                  verify_adjacent, verify_range, verify_adjacent_range   *)
(*                  and VerifiedExtendedHeaders::try_from as written.      *)
(***************************************************************************)
EXTENDS HeaderVerify, TLC

CONSTANTS MaxM,        \* trusted validator sets of 1..MaxM members in the skipping pair cases
          MaxMAdj,     \* ... and in the adjacent / basic pair cases
          Palette,     \* their voting powers
          NH,          \* heights 1..NH in the range cases
          MaxLen,      \* range lists of length 0..MaxLen
          Grps,        \* case groups to enumerate (subset of AllGrps)
          Rot          \* 1: the validator surviving the rotation holds exactly 1/3, 2: it holds 2/3

VARIABLES phase, out
vars == <<phase, out>>

Now == 3600
Drift == 10
TS(i) == 10 + i
Fresh == 90
NoParent == <<"none", 0, 0>>
Unknown == <<"x", 0, 0>>

Hd(id, chain, h, t, vals, nvals, parent, kinds) ==
    [id |-> id, chain |-> chain, h |-> h, t |-> t, vals |-> vals, nvals |-> nvals, parent |-> parent, kinds |-> kinds]

NilId == <<"nil", 0, 0>>
NoSig(b) == Sig(-1, Msg(0, 0, 0, b.id, 0))

\* what validator i (key k) of header b put into b's commit
Entry(b, i) ==
    LET k == b.vals[i].key
        good == Msg(b.chain, b.h, 0, b.id, TS(i))
    IN CASE b.kinds[i] = "absent" -> [flag |-> "absent", addr |-> 0, ts |-> 0, sig |-> NoSig(b)]
         [] b.kinds[i] = "nil"    -> [flag |-> "nil", addr |-> k, ts |-> TS(i), sig |-> Sig(k, Msg(b.chain, b.h, 0, NilId, TS(i)))]
         [] b.kinds[i] = "ok"     -> [flag |-> "commit", addr |-> k, ts |-> TS(i), sig |-> Sig(k, good)]
         [] b.kinds[i] = "bad"    -> [flag |-> "commit", addr |-> k, ts |-> TS(i), sig |-> Sig(Fresh, good)]

CommitOf(b) == [h |-> b.h, round |-> 0, bid |-> b.id, sigs |-> [i \in 1..Len(b.vals) |-> Entry(b, i)]]
AllOk(vs) == [i \in 1..Len(vs) |-> "ok"]

---------------------------------------------------------------------------
(* property layer *)

Adjacent(a, b) == b.h = a.h + 1

BasicBad(a, b) ==
    \/ b.h <= a.h                 \* greater height
    \/ b.chain # a.chain          \* same chain id
    \/ ~(b.t > a.t)               \* strictly later time
    \/ ~(b.t < Now + Drift)       \* less than ten seconds ahead of the local clock

LinkBad(a, b) == Adjacent(a, b) /\ (b.parent # a.id \/ b.vals # a.nvals)

TrustBad(a, b) == ~Adjacent(a, b) /\ 3 * TrustSignedPower(a.vals, a.chain, CommitOf(b)) <= Total(a.vals)

VerifyVerdict(a, b) ==
    IF BasicBad(a, b) THEN "MustReject"
    ELSE IF LinkBad(a, b) \/ TrustBad(a, b) THEN "MustReject"
    ELSE IF Adjacent(a, b) \/ TrustWellFormed(b.vals, a.chain, CommitOf(b)) THEN "MustAccept"
    ELSE "Either"

VerifyAdjVerdict(a, b) == IF ~Adjacent(a, b) THEN "MustReject" ELSE VerifyVerdict(a, b)

\* lists: every element verifies against its predecessor and heights are consecutive
Prev(a, list, i) == IF i = 1 THEN a ELSE list[i - 1]
Consecutive(list) == \A i \in 2..Len(list) : list[i].h = list[i - 1].h + 1

RangeVerdict(a, list) ==
    IF Len(list) = 0 THEN "Either"
    ELSE IF ~Consecutive(list) \/ \E i \in 1..Len(list) : VerifyVerdict(Prev(a, list, i), list[i]) = "MustReject"
         THEN "MustReject"
    ELSE IF \A i \in 1..Len(list) : VerifyVerdict(Prev(a, list, i), list[i]) = "MustAccept" THEN "MustAccept"
    ELSE "Either"

AdjRangeVerdict(a, list) ==
    IF Len(list) = 0 THEN "Either"
    ELSE IF list[1].h # a.h + 1 THEN "MustReject"
    ELSE RangeVerdict(a, list)

TryFromVerdict(list) == IF Len(list) = 0 THEN "Either" ELSE AdjRangeVerdict(list[1], Tail(list))

---------------------------------------------------------------------------
(* algorithm layer *)

AlgVerify(a, b) ==
    IF b.h <= a.h THEN "err_height"
    ELSE IF b.chain # a.chain THEN "err_chain"
    ELSE IF ~(b.t > a.t) THEN "err_time"
    ELSE IF ~(b.t < Now + Drift) THEN "err_future"
    ELSE IF a.h + 1 = b.h
         THEN (IF b.vals # a.nvals THEN "err_next_vals"
               ELSE IF b.parent # a.id THEN "err_parent"
               ELSE "ok")
    ELSE AlgTrust(a.vals, a.chain, CommitOf(b))

AlgVerifyAdj(a, b) == IF a.h + 1 # b.h THEN "err_not_adjacent" ELSE AlgVerify(a, b)

RECURSIVE AlgRangeFrom(_, _, _)
AlgRangeFrom(trusted, list, i) ==
    IF i > Len(list) THEN "ok"
    ELSE IF i # 1 /\ trusted.h + 1 # list[i].h THEN "err_not_adjacent"
    ELSE LET r == AlgVerify(trusted, list[i]) IN
         IF r # "ok" THEN r ELSE AlgRangeFrom(list[i], list, i + 1)
AlgRange(a, list) == AlgRangeFrom(a, list, 1)

AlgAdjRange(a, list) ==
    IF Len(list) = 0 THEN "ok"
    ELSE IF a.h + 1 # list[1].h THEN "err_not_adjacent"
    ELSE AlgRange(a, list)

AlgTryFrom(list) == IF Len(list) = 0 THEN "ok" ELSE AlgAdjRange(list[1], Tail(list))

---------------------------------------------------------------------------
(* pair cases: trusted header a (height HA, validators 1..m), untrusted b *)

HA == 5
TimeClasses == {"before", "equal", "after", "near_future", "far_future"}
TimeOf(tc) == CASE tc = "before" -> -10 [] tc = "equal" -> 0 [] tc = "after" -> 10
                [] tc = "near_future" -> Now + Drift - 3 [] tc = "far_future" -> Now + Drift + 5

Monotone(pw, m) == \A i \in 1..(m - 1) : pw[i] <= pw[i + 1]
\* ascending sequence of the members of a set of keys
RECURSIVE SeqOfSet(_)
SeqOfSet(S) == IF S = {} THEN <<>>
               ELSE LET x == CHOOSE y \in S : \A z \in S : y <= z IN <<x>> \o SeqOfSet(S \ {x})

\* validators of b: the keys in S; shared keys keep their trusted power, strangers have power 1
Vb(S, m, pw) == LET ks == SeqOfSet(S) IN [i \in 1..Len(ks) |-> Val(ks[i], IF ks[i] <= m THEN pw[ks[i]] ELSE 1)]

PairCaseV(fam, m, pw, vb, kinds, dh, chainb, tc, parentOk, nvalsOk) ==
    LET va == [i \in 1..m |-> Val(i, pw[i])]
        \* a's next validators: b's set, or a different one
        nva == IF nvalsOk THEN vb ELSE IF vb # va THEN va ELSE Append(va, Val(Fresh, 1))
        a == Hd(<<"a", 0, HA>>, 1, HA, 0, va, nva, Unknown, AllOk(va))
        b == Hd(<<"b", 0, HA + dh>>, chainb, HA + dh, TimeOf(tc), vb, vb,
                IF parentOk THEN a.id ELSE Unknown, kinds)
    IN [op |-> "pair", fam |-> fam, a |-> a, b |-> b, now |-> Now, dh |-> dh, tc |-> tc,
        parent_ok |-> parentOk, nvals_ok |-> nvalsOk,
        trusted_total |-> Total(va),
        trusted_signed |-> TrustSignedPower(va, 1, CommitOf(b)),
        v_verify |-> VerifyVerdict(a, b), v_adj |-> VerifyAdjVerdict(a, b),
        alg_verify |-> AlgVerify(a, b), alg_adj |-> AlgVerifyAdj(a, b)]

PairCase(fam, m, pw, S, kinds, dh, chainb, tc, parentOk, nvalsOk) ==
    PairCaseV(fam, m, pw, Vb(S, m, pw), kinds, dh, chainb, tc, parentOk, nvalsOk)

Subsets(m) == (SUBSET (1..(m + 1))) \ {{}}

\* non-adjacent, a validator sits in two or more slots of b's commit (every slot carries a signature
\* valid for that slot): every key sequence of length 2..3 with a repetition, every placement
\* relative to the validator's index in the trusted set, powers in every order.  The statement
\* counts DISTINCT trusted validators.
DecidePairDup ==
    /\ phase = "new" /\ out.grp = "pair_dup"
    /\ \E l \in 2..3 : \E ks \in [1..l -> 1..(out.m + 1)] : \E kinds \in [1..l -> {"ok", "nil"}] :
          /\ Cardinality({ks[i] : i \in 1..l}) < l
          /\ out' = PairCaseV("skipping_dup", out.m, out.pw,
                              [i \in 1..l |-> Val(ks[i], IF ks[i] <= out.m THEN out.pw[ks[i]] ELSE 1)],
                              kinds, 2, 1, "after", FALSE, FALSE)
    /\ phase' = "done"

\* adjacent: every combination of the linking clauses; the commit is all valid or all forged
DecidePairAdjacent ==
    /\ phase = "new" /\ out.grp = "pair_adj"
    /\ \E S \in Subsets(out.m) : \E good \in BOOLEAN : \E chainb \in {1, 2} : \E tc \in TimeClasses :
       \E parentOk \in BOOLEAN : \E nvalsOk \in BOOLEAN :
          out' = PairCase("adjacent", out.m, out.pw, S,
                          [i \in 1..Cardinality(S) |-> IF good THEN "ok" ELSE "bad"],
                          1, chainb, tc, parentOk, nvalsOk)
    /\ phase' = "done"

\* non-adjacent: every overlap of b's validators with the trusted set, every entry kind
DecidePairSkipping ==
    /\ phase = "new" /\ out.grp = "pair_skip"
    /\ \E S \in Subsets(out.m) : \E kinds \in [1..Cardinality(S) -> {"absent", "nil", "ok", "bad"}] :
       \E dh \in {2, 3} :
          out' = PairCase("skipping", out.m, out.pw, S, kinds, dh, 1, "after", FALSE, FALSE)
    /\ phase' = "done"

\* non-adjacent with one perturbed basic clause (chain id / time), or a wrong height
DecidePairBasic ==
    /\ phase = "new" /\ out.grp = "pair_basic"
    /\ \E S \in Subsets(out.m) : \E dh \in {-1, 0, 2} : \E chainb \in {1, 2} : \E tc \in TimeClasses :
          /\ (dh <= 0 \/ chainb = 2 \/ tc # "after")
          /\ out' = PairCase("basic", out.m, out.pw, S, [i \in 1..Cardinality(S) |-> "ok"], dh, chainb, tc, TRUE, TRUE)
    /\ phase' = "done"

---------------------------------------------------------------------------
(* range cases: a pool of headers -- honest chain A with a validator rotation at height R,   *)
(* forks F_k sharing A below k, headers G_k by an attacker's own validator set on top of     *)
(* A[k-1], T_k with a non-increasing time, C_k with another chain id                          *)

R == 3
S1 == IF Rot = 1 THEN <<Val(1, 2), Val(2, 1)>> ELSE <<Val(1, 1), Val(2, 2)>>
S2 == <<Val(2, 1), Val(3, 2)>>
Att == <<Val(9, 1)>>
ValsAt(h) == IF h < R THEN S1 ELSE S2
AId(h) == IF h = 0 THEN NoParent ELSE <<"A", 0, h>>

PoolIds == {<<"A", 0, h>> : h \in 1..NH}
           \cup {<<"F", k, j>> : k \in 2..NH, j \in 2..NH}
           \cup {<<x, k, k>> : x \in {"G", "T", "C"}, k \in 2..NH}
ValidId(id) == id[1] = "F" => id[3] >= id[2]

HeaderOf(id) ==
    LET x == id[1]  k == id[2]  h == id[3] IN
    CASE x = "A" -> Hd(id, 1, h, 10 * h, ValsAt(h), ValsAt(h + 1), AId(h - 1), AllOk(ValsAt(h)))
      [] x = "F" -> Hd(id, 1, h, 10 * h, ValsAt(h), ValsAt(h + 1),
                       IF h = k THEN AId(k - 1) ELSE <<"F", k, h - 1>>, AllOk(ValsAt(h)))
      [] x = "G" -> Hd(id, 1, h, 10 * h, Att, Att, AId(h - 1), AllOk(Att))
      [] x = "T" -> Hd(id, 1, h, 10 * (h - 1), ValsAt(h), ValsAt(h + 1), AId(h - 1), AllOk(ValsAt(h)))
      [] x = "C" -> Hd(id, 2, h, 10 * h, ValsAt(h), ValsAt(h + 1), AId(h - 1), AllOk(ValsAt(h)))

Pool == {HeaderOf(id) : id \in {i \in PoolIds : ValidId(i)}}
Ids == {i \in PoolIds : ValidId(i)}

RangeCase(aid, ids) ==
    LET a == HeaderOf(aid)
        list == [i \in 1..Len(ids) |-> HeaderOf(ids[i])]
    IN [op |-> "range", a |-> aid, list |-> ids,
        v_range |-> RangeVerdict(a, list), v_adj |-> AdjRangeVerdict(a, list),
        v_try |-> TryFromVerdict(list),
        alg_range |-> AlgRange(a, list), alg_adj |-> AlgAdjRange(a, list), alg_try |-> AlgTryFrom(list)]

DecideRange ==
    /\ phase = "new" /\ out.grp = "range"
    /\ \E l \in 0..(MaxLen - 1) : \E rest \in [1..l -> Ids] :
          out' = RangeCase(out.a, <<out.first>> \o rest)
    /\ phase' = "done"

DecideRangeEmpty ==
    /\ phase = "new" /\ out.grp = "range_empty"
    /\ out' = RangeCase(out.a, <<>>)
    /\ phase' = "done"

---------------------------------------------------------------------------
AllGrps == {"pair_adj", "pair_skip", "pair_dup", "pair_basic", "range", "range_empty"}
ASSUME Grps \subseteq AllGrps

Init ==
    /\ phase = "new"
    /\ \/ \E m \in 1..MaxM : \E pw \in {f \in [1..m -> Palette] : Monotone(f, m)} :
          "pair_skip" \in Grps /\ out = [grp |-> "pair_skip", m |-> m, pw |-> pw]
       \/ \E m \in 1..MaxM : \E pw \in [1..m -> Palette] :
          "pair_dup" \in Grps /\ out = [grp |-> "pair_dup", m |-> m, pw |-> pw]
       \/ \E m \in 1..MaxMAdj : \E pw \in {f \in [1..m -> Palette] : Monotone(f, m)} :
          \E g \in {"pair_adj", "pair_basic"} \cap Grps : out = [grp |-> g, m |-> m, pw |-> pw]
       \/ \E aid \in {<<"A", 0, 1>>, <<"A", 0, 2>>} : \E f \in Ids :
          "range" \in Grps /\ out = [grp |-> "range", a |-> aid, first |-> f]
       \/ \E aid \in {<<"A", 0, 1>>, <<"A", 0, 2>>} :
          "range_empty" \in Grps /\ out = [grp |-> "range_empty", a |-> aid]

Next == DecidePairAdjacent \/ DecidePairSkipping \/ DecidePairDup \/ DecidePairBasic \/ DecideRange \/ DecideRangeEmpty
Spec == Init /\ [][Next]_vars

---------------------------------------------------------------------------
(* C02 on the algorithm layer *)
Done == phase = "done"
Pairs == {<<"v_verify", "alg_verify">>, <<"v_adj", "alg_adj">>}
Ranges3 == {<<"v_range", "alg_range">>, <<"v_adj", "alg_adj">>, <<"v_try", "alg_try">>}
Obs == IF out.op = "pair" THEN Pairs ELSE Ranges3

\* "succeeds only if ...": nothing the statement excludes is accepted
OnlyIf == Done => \A p \in Obs : out[p[2]] = "ok" => out[p[1]] # "MustReject"
\* linked successors are accepted
Accepts == Done => \A p \in Obs : out[p[1]] = "MustAccept" => out[p[2]] = "ok"
\* every honest prefix of the chain is accepted by the three range operations
HonestChainAccepted ==
    Done /\ out.op = "range" /\ Len(out.list) > 0
         /\ (\A i \in 1..Len(out.list) : out.list[i] = <<"A", 0, out.a[3] + i>>)
       => out.v_range = "MustAccept" /\ out.v_adj = "MustAccept"
=============================================================================
