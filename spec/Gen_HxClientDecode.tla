------------------------- MODULE Gen_HxClientDecode ------------------------
(* spec -> impl: every (request, response list) with the verdict, the allowed Ok results
   (index sequences into the response) and the algorithmic layer's own result. *)
EXTENDS MC_HxClientDecode, Json
SetToSeq(S) == LET RECURSIVE Sq(_)
                   Sq(T) == IF T = {} THEN <<>> ELSE LET x == CHOOSE y \in T : TRUE IN <<x>> \o Sq(T \ {x})
               IN Sq(S)
Ent(e) == <<e.t, e.h>>
Case(r, rs) == [kind |-> r.kind, start |-> r.start, amount |-> r.amount, want |-> Ent(r.want),
                resp |-> [i \in 1..Len(rs) |-> Ent(rs[i])],
                verdict |-> Verdict(r, rs), allowed |-> SetToSeq(AllowedOk(r, rs)), model |-> Decode(r, rs)]
GenInit == Init /\ PrintT(ToJson(Case(req, resp)))
GenNext == Next /\ PrintT(ToJson(Case(req', resp')))
=============================================================================
