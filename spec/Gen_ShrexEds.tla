---------------------------- MODULE Gen_ShrexEds ----------------------------
EXTENDS ShrexEds, Json
AllKinds == {"app", "hdr", "honest", "trunc", "append", "swap", "flip", "replace", "dup", "allB", "rotate", "zeros", "craft", "pad", "allpad"}
\* for the largest squares: the app-version table and a thin slice of mutations
FewKinds == {"app", "honest", "flip", "allB"}
RECURSIVE SeqOfSet(_)
SeqOfSet(S) == IF S = {} THEN <<>> ELSE LET x == CHOOSE y \in S : TRUE IN <<x>> \o SeqOfSet(S \ {x})
\* a few positions with the share the specification puts there (the harness cross-checks its own
\* materialisation of the payload against them)
ProbePos(m) == {t \in {0, m.i, m.j, NN(m.k) - 1, LenOf(m) - 1} : t >= 0 /\ t < LenOf(m)}
ProbeToks(m) == SeqOfSet({<<t, ShareAt(m, t)[1], ShareAt(m, t)[2], ShareAt(m, t)[3]>> : t \in ProbePos(m)})
Out(c) == LET cd == Code(c) IN
          [k |-> c.k, toks |-> ProbeToks(c.m), m |-> c.m, hdr |-> c.hdr, feat |-> c.feat, happ |-> c.happ, app |-> c.app,
           len |-> LenOf(c.m), tail |-> TailOf(c.m),
           demand |-> Demand(c), predict |-> cd.v, stages |-> SeqOfSet(cd.stages)]
GenNext == Next /\ PrintT(ToJson(Out(kase')))
=============================================================================
