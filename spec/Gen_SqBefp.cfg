CONSTANT K = 2
CONSTANT PosCheck = TRUE
CONSTANT NsByIndex = TRUE
CONSTANT JunkMode = "quadrants"
CONSTANT PaxMode = "some"
INIT Init
NEXT GenNext
CHECK_DEADLOCK FALSE
