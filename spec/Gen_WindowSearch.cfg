CONSTANT N = 5
INIT Init
NEXT Emit
CHECK_DEADLOCK FALSE
