--------------------------- MODULE Trace_Executor ---------------------------
(* impl -> spec: a log of real tasks spawned with lumina_utils::executor on a multi-thread *)
(* tokio runtime; every line carries a sequence number drawn from one atomic counter at    *)
(* the moment it describes (the log is sorted by it):                                      *)
(*   step i saw      - logged by the body before each yield; saw = token.is_cancelled()     *)
(*   ended i kind    - logged by the Drop of a sentinel owned by the body (finish / panic /  *)
(*                     cancelled): the task's future is gone                                 *)
(*   cancel_begin i / cancel_end i - around CancellationToken::cancel()                     *)
(*   join_ret i      - logged after JoinHandle::join() returned                             *)
(* step / ended / join_ret are the model's transitions; the start of a poll, the moment      *)
(* cancel() takes effect and the guard's drop are hidden steps between the lines.           *)
EXTENDS Executor, Sequences, Json, IOUtils, TLC
Rec == ndJsonDeserialize(IOEnv.TRACE)
VARIABLES l, cstart
tvars == <<vars, l, cstart>>
Ev == Rec[l]

PlanOf(r) == [c |-> r.c = 1, n |-> r.n, fin |-> r.fin, x |-> r.x = 1]
Reset == /\ plan' = [i \in Tasks |-> IF i <= Len(Ev.plans) THEN PlanOf(Ev.plans[i])
                                      ELSE [c |-> FALSE, n |-> 0, fin |-> "finish", x |-> FALSE]]
         /\ tpc' = [i \in Tasks |-> IF i <= Len(Ev.plans) THEN "idle" ELSE "triggered"]
         /\ creq' = [i \in Tasks |-> FALSE] /\ saw' = [i \in Tasks |-> FALSE]
         /\ cnt' = [i \in Tasks |-> 0] /\ after' = [i \in Tasks |-> 0]
         /\ endk' = [i \in Tasks |-> IF i <= Len(Ev.plans) THEN "none" ELSE "finish"]
         /\ jpc' = [i \in Tasks |-> IF i <= Len(Ev.plans) THEN "waiting" ELSE "returned"]
         /\ cstart' = {}

Observe ==
    /\ l <= Len(Rec) /\ l' = l + 1
    /\ LET n == Ev.name IN
       \/ n = "reset" /\ Reset
       \/ n = "step" /\ Step(Ev.i) /\ saw'[Ev.i] = (Ev.saw = 1) /\ UNCHANGED cstart
       \/ n = "ended" /\ UNCHANGED cstart
                      /\ IF Ev.kind = "cancelled" THEN PollStart(Ev.i) /\ tpc'[Ev.i] = "ended"
                         ELSE End(Ev.i) /\ endk'[Ev.i] = Ev.kind
       \/ n = "cancel_begin" /\ cstart' = cstart \cup {Ev.i} /\ UNCHANGED vars
       \/ n = "cancel_end" /\ creq[Ev.i] /\ UNCHANGED <<vars, cstart>>
       \/ n = "join_ret" /\ JoinReturn(Ev.i) /\ UNCHANGED cstart
    /\ TLCSet(1, IF l' > TLCGet(1) THEN l' ELSE TLCGet(1))
Hidden ==
    /\ l <= Len(Rec) /\ UNCHANGED <<l, cstart>>
    /\ \E i \in Tasks : \/ PollStart(i) /\ tpc'[i] = "polling"
                        \/ i \in cstart /\ Cancel(i)
                        \/ DropGuard(i)

TInit == /\ plan = [i \in Tasks |-> [c |-> FALSE, n |-> 0, fin |-> "finish", x |-> FALSE]]
         /\ tpc = [i \in Tasks |-> "triggered"] /\ creq = [i \in Tasks |-> FALSE] /\ saw = [i \in Tasks |-> FALSE]
         /\ cnt = [i \in Tasks |-> 0] /\ after = [i \in Tasks |-> 0] /\ endk = [i \in Tasks |-> "finish"]
         /\ jpc = [i \in Tasks |-> "returned"]
         /\ l = 1 /\ cstart = {} /\ TLCSet(1, 1)
TNext == Observe \/ Hidden
TSpec == TInit /\ [][TNext]_tvars

Accepted ==
    LET d == TLCGet(1) IN
    IF d = Len(Rec) + 1 THEN TRUE
    ELSE /\ PrintT(<<"REJECT-AT", d>>)
         /\ PrintT(ToJson(Rec[d]))
         /\ FALSE
=============================================================================
