-------------------------- MODULE Trace_Subscriptions ------------------------
(* impl -> spec for C37.  The driver plays the syncer: it initialises the    *)
(* broadcast with a head it has stored, announces inserted ranges (above the *)
(* last sent height, historical ones below it, inadmissible ones), and       *)
(* re-initialises; a subscriber task collects what is broadcast.  `dl` is    *)
(* the list of heights the subscriber received during the operation.         *)
(* Acceptance is by the property on the REAL delivery stream (rdelivered);   *)
(* the model's own `delivered` (algorithmic layer) is not compared.          *)
EXTENDS Subscriptions, Json, IOUtils, TLC
Rec == ndJsonDeserialize(IOEnv.TRACE)
VARIABLES l, rdelivered, lastLo
tvars == <<stored, lastSent, pending, delivered, head0, known, res, l, rdelivered, lastLo>>
Ev == Rec[l]

TStep ==
    /\ l <= Len(Rec) /\ l' = l + 1
    /\ LET n == Ev.name IN
       \/ n = "reset"  /\ stored' = {} /\ lastSent' = 0 /\ pending' = {} /\ delivered' = <<>> /\ head0' = 0
                       /\ known' = {} /\ res' = 1 /\ rdelivered' = <<>> /\ lastLo' = 0
       \/ n = "init"   /\ InitBroadcast(Ev.h) /\ rdelivered' = rdelivered \o Ev.dl /\ lastLo' = 0
       \/ n = "insert" /\ AnnounceInsert(Ev.lo, Ev.hi) /\ res' = Ev.res
                       /\ rdelivered' = rdelivered \o Ev.dl /\ lastLo' = Ev.lo

TInit == Init /\ l = 1 /\ rdelivered = <<>> /\ lastLo = 0
TSpec == TInit /\ [][TStep]_tvars

RLast == IF rdelivered = <<>> THEN 0 ELSE rdelivered[Len(rdelivered)]
\* C37 on the real stream
RConsecutive == \A i \in DOMAIN rdelivered : rdelivered[i] = head0 + i - 1
ROnlyStored  == \A i \in DOMAIN rdelivered : rdelivered[i] \in stored
RComplete    == (lastLo # 0 /\ res = 1 /\ head0 # 0 /\ lastLo > head0) => RLast >= Reach
RNotAhead    == head0 # 0 => RLast <= Reach

Accepted ==
    LET d == TLCGet("stats").diameter IN
    IF d - 1 = Len(Rec) THEN TRUE
    ELSE /\ PrintT(<<"REJECT-AT", d>>)
         /\ PrintT(ToJson(Rec[d]))
         /\ FALSE
=============================================================================
