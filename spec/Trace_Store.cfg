SPECIFICATION TSpec
INVARIANTS SetsInv SegmentsLinked
POSTCONDITION Accepted
CHECK_DEADLOCK FALSE
