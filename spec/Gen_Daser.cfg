CONSTANTS
  Lim = 2
  Extra = 1
  Threshold = 512
  MaxSamples = 16
  WSamp = 5
  N = 8
  D = 30
  Widths = {2, 4}
INIT GInit2
NEXT GNext
INVARIANT Emit
CHECK_DEADLOCK FALSE
