------------------------- MODULE Trace_TxClientProp -------------------------
(***************************************************************************)
(* impl -> spec, property layer: the recorded events feed the monitor of   *)
(* TxClientProp; an event that makes a clause of the statement false is    *)
(* not accepted (the clause is printed).  Rejection = violation of C43.    *)
(***************************************************************************)
EXTENDS TxClientProp, Json, IOUtils, TLC
Rec == ndJsonDeserialize(IOEnv.TRACE)
VARIABLE l
tvars == <<pvars, l>>
E == Rec[l]

Judge == bad' = "" \/ (PrintT(<<"CLAUSE", bad'>>) /\ FALSE)
Code(a) == IF a = "rejected-seq" THEN "seq" ELSE IF a = "rejected-other" THEN "other" ELSE ""
SA(a)   == IF a \in {"rejected-seq", "rejected-other"} THEN "rejected" ELSE a

TStep ==
    /\ l <= Len(Rec) /\ l' = l + 1
    /\ LET nm == E.name IN
       \/ nm = "reset"  /\ PReset
       \/ nm = "block"  /\ UNCHANGED pvars
       \/ nm = "begin"  /\ E.s \in Subs /\ ObsBegin(E.s)
       \/ nm = "acct"   /\ ObsAcct(E.q)
       \/ nm = "est"    /\ E.s \in Subs /\ ObsEst(E.s, E.q, E.ans, E.e)
       \/ nm = "bcast"  /\ E.s \in Subs /\ ObsBcast(E.s, E.tx, E.q, E.ans, E.e)
       \/ nm = "status" /\ E.s \in Subs /\ ObsStatus(E.s, E.tx, SA(E.ans), Code(E.ans))
       \/ nm = "end"    /\ E.s \in Subs /\ ObsEnd(E.s, E.ans)
    /\ Judge

TInit == PInit /\ l = 1
TSpec == TInit /\ [][TStep]_tvars

Accepted ==
    LET d == TLCGet("stats").diameter IN
    IF d - 1 = Len(Rec) THEN TRUE
    ELSE /\ PrintT(<<"REJECT-AT", d>>)
         /\ PrintT(ToJson(Rec[d]))
         /\ FALSE
=============================================================================
