CONSTANT K = 2
CONSTANT PosCheck = TRUE
CONSTANT NsByIndex = TRUE
CONSTANT JunkMode = "quadrants"
CONSTANT PaxMode = "some"
INIT Init
NEXT Next
INVARIANTS BefpSound NeverConvictsCodeword HonestProverValidates Binding
CHECK_DEADLOCK FALSE
