---------------------------- MODULE MC_ShrexEds ----------------------------
EXTENDS ShrexEds
AllKinds == {"app", "hdr", "honest", "trunc", "append", "swap", "flip", "replace", "dup", "allB", "rotate", "zeros", "craft", "pad", "allpad"}
=============================================================================
