CONSTANT NMax = 9
CONSTANT IExtra = 10
CONSTANT TExtra = 3
CONSTANT Pairs = FALSE
CONSTANT CheckIndex = TRUE
CONSTANT BindTotal = TRUE
INIT Init
NEXT Next
INVARIANTS TypeOK Complete Sound AlteredRejected VerdictsConsistent AcceptIffSamePath TotalAndIndexBound HonestDepth
