CONSTANT Calls = {1, 2}
CONSTANT NEp = 3
INIT MCInit
NEXT Next
INVARIANTS TypeOK PermOK PropOK QuietHead
CHECK_DEADLOCK FALSE
