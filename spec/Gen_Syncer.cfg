CONSTANTS
  N = 10
  Batch = 2
  WSamp = 5
  WPrune = 1
  AsIsDeviation = FALSE
  EnablePrune = TRUE
  EnableForeign = FALSE
  SlowThr = 1000000
  D = 14
INIT GInit2
NEXT GNext
INVARIANT Emit
CHECK_DEADLOCK FALSE
