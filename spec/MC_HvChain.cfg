CONSTANT MaxM = 3
CONSTANT MaxMAdj = 2
CONSTANT Palette = {1, 2, 3}
CONSTANT NH = 4
CONSTANT MaxLen = 3
CONSTANT Rot = 1
CONSTANT Grps = {"pair_adj", "pair_skip", "pair_dup", "pair_basic", "range", "range_empty"}
INIT Init
NEXT Next
INVARIANTS OnlyIf Accepts HonestChainAccepted
CHECK_DEADLOCK FALSE
