----------------------------- MODULE Gen_SyncRange ---------------------------
(* spec -> impl for C24: one JSON line per (synced, head, limit) with the    *)
(* batch the algorithmic layer computes and the complete set of batches the  *)
(* property allows (as [lo,hi] pairs; [0,0] stands for the empty batch).     *)
EXTENDS MC_SyncRange, Json
Cands == {<<a, b>> : a \in 1..(N+1), b \in 1..(N+1)}
AllowedSet == {<<0, 0>> : x \in {1} \cap (IF Allowed(head, synced, limit, {}) THEN {1} ELSE {})}
              \cup {c \in Cands : c[1] <= c[2] /\ Allowed(head, synced, limit, c[1]..c[2])}
GenFetch == /\ Fetch
            /\ PrintT(ToJson([s |-> Mask(synced), head |-> head, limit |-> limit,
                              exact |-> Mask(batch'[1]), dom |-> IF InDomain THEN 1 ELSE 0,
                              allowed |-> SetToSeq(AllowedSet)]))
=============================================================================
