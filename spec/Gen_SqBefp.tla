----------------------------- MODULE Gen_SqBefp -----------------------------
(* spec -> impl: every fraud-proof construction with the demanded verdict and the design's prediction. *)
EXTENDS SqBefp, Json
RECURSIVE SeqOfSet(_)
SeqOfSet(S) == IF S = {} THEN <<>> ELSE LET x == CHOOSE y \in S : TRUE IN <<x>> \o SeqOfSet(S \ {x})
SlotJ(s) == IF s = <<>> THEN <<>>
            ELSE <<[share |-> s[1].share, mode |-> s[1].mode, pax |-> s[1].pax,
                    proof |-> <<s[1].proof.ax, s[1].proof.line, s[1].proof.pos>>, start |-> s[1].start]>>
Out(k) == [k |-> K, cls |-> k.cls, mut |-> k.mut,
           junk |-> SeqOfSet(k.junk), jkind |-> k.jkind, jline |-> k.jline,
           axis |-> k.f.axis, index |-> k.f.index,
           slots |-> [s \in 1..Len(k.f.slots) |-> SlotJ(k.f.slots[s])],
           baxis |-> k.baxis, bindex |-> k.bindex,
           bpa |-> [s \in 1..W |-> IF s \in k.bP THEN k.bpa[s] ELSE "-"],
           codeword |-> IF k.f.index \in Idx THEN LineCodeword(k.junk, k.f.axis, k.f.index) ELSE TRUE,
           demand |-> BefpDemand(k.junk, k.f), predict |-> BefpCode(k.junk, k.f)]
GenNext == Next /\ PrintT(ToJson(Out(kase')))
=============================================================================
