CONSTANT Peers = {1, 2}
CONSTANT Up = {1, 12}
CONSTANT Down = {12}
CONSTANT Window = 10
CONSTANT MaxEv = 2
CONSTANT DupValidated = "block"
CONSTANT XHash <- XH
CONSTANT Sample = 1
INIT GenInit
NEXT GenNextBfs
VIEW View
CHECK_DEADLOCK FALSE
