------------------------------ MODULE Gen_Blob ------------------------------
EXTENDS Blob, Json
Emit == PrintT(ToJson(IF c.kind = "layout"
          THEN [kind |-> "layout", len |-> c.len, s |-> IF c.s THEN 1 ELSE 0, n |-> NShares(c.len, c.s),
                shares |-> Layout(c.len, c.s)]
          ELSE IF c.kind = "inside"
          THEN [kind |-> "inside", pre |-> c.pre, b |-> c.b, r |-> c.r, p |-> c.p, post |-> c.post,
                blobs |-> InsideBlobs(c), nshares |-> InsideShares(c)]
          ELSE [kind |-> "stream", st |-> c.st, blobs |-> BlobsOf(c.st), nshares |-> StreamShares(c.st),
                lens |-> [k \in 1..Len(c.st) |-> IF c.st[k] \in BlobKinds THEN KindLen(c.st[k]) ELSE 0]]))
=============================================================================
