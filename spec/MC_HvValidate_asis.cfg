CONSTANT MaxNStruct = 3
CONSTANT MaxNSig = 4
CONSTANT Palette = {1, 2, 3}
CONSTANT VW = {10002, 20004, 30008, 40002, 50016, 60004, 70008}
INIT Init
NEXT Next
INVARIANTS AlgBindsAll
CHECK_DEADLOCK FALSE
