---------------------------- MODULE BlockRanges ----------------------------
(***************************************************************************)
(* C17 / C18.  A BlockRanges value denotes a set of heights S.  Every      *)
(* operation of node/src/block_ranges.rs is one action; its observable     *)
(* result `res` and the next denoted set are what the same operation on    *)
(* the set gives.  The representation invariant (sorted, disjoint,         *)
(* non-adjacent, no height 0) is the statement "the stored ranges are      *)
(* exactly RunSeq(S)"; the implementation is compared against it after     *)
(* every step by the conformance harness.                                  *)
(*                                                                         *)
(* Universe: heights 1..N.  Range arguments come from 0..N+1 so that the   *)
(* invalid ranges (start 0, start > end) and the "touches the universe     *)
(* boundary" cases are part of the transition relation.  Complement is     *)
(* taken within 1..N here; the harness accounts for the rest of            *)
(* 1..=u64::MAX (DESIGN 4, two-block embedding).                           *)
(***************************************************************************)
EXTENDS Naturals, FiniteSets, Sequences, Ranges

CONSTANT N
VARIABLES S,      \* the denoted set of heights
          op,     \* last operation: record [name, x, y, t] (arguments)
          res     \* its observable result

vars == <<S, op, res>>
U    == 1..N
Arg  == 0..(N+1)

\* Set-valued queries (headn, tailn, edges) return the set itself.
\* All other results are sequences of naturals so that any two results are comparable in
\* TLC: Ok = <<1>>, Err = <<0>>, None = <<>>, Some(v) = <<v>>, booleans 0/1.
Ok   == <<1>>
Err  == <<0>>
B(b) == IF b THEN 1 ELSE 0

NoArg == [name |-> "init", x |-> 0, y |-> 0, t |-> {}]
Op(n, x, y, t) == [name |-> n, x |-> x, y |-> y, t |-> t]

Init == S = {} /\ op = NoArg /\ res = Ok

(* ---- mutating operations ---- *)
InsertRelaxed(a, b) ==
    /\ op' = Op("insert_relaxed", a, b, {})
    /\ IF ValidRange(a, b)
       THEN S' = S \cup ((a..b) \cap U) /\ res' = Ok
       ELSE S' = S /\ res' = Err

RemoveRelaxed(a, b) ==
    /\ op' = Op("remove_relaxed", a, b, {})
    /\ IF ValidRange(a, b)
       THEN S' = S \ (a..b) /\ res' = Ok
       ELSE S' = S /\ res' = Err

Union(T)        == op' = Op("union", 0, 0, T)        /\ S' = S \cup T /\ res' = Ok
Difference(T)   == op' = Op("difference", 0, 0, T)   /\ S' = S \ T    /\ res' = Ok
Intersection(T) == op' = Op("intersection", 0, 0, T) /\ S' = S \cap T /\ res' = Ok
Complement      == op' = Op("complement", 0, 0, {})  /\ S' = U \ S    /\ res' = Ok

PopHead == /\ op' = Op("pop_head", 0, 0, {}) /\ res' = HeadOpt(S)
           /\ S' = IF S = {} THEN S ELSE S \ {MaxOf(S)}
PopTail == /\ op' = Op("pop_tail", 0, 0, {}) /\ res' = TailOpt(S)
           /\ S' = IF S = {} THEN S ELSE S \ {MinOf(S)}

(* ---- queries (state unchanged) ---- *)
Query(n, x, y, r) == op' = Op(n, x, y, {}) /\ res' = r /\ S' = S

QContains(h) == Query("contains", h, 0, <<B(h \in S)>>)
QLen        == Query("len", 0, 0, <<Cardinality(S)>>)
QIsEmpty    == Query("is_empty", 0, 0, <<B(S = {})>>)
QHead       == Query("head", 0, 0, HeadOpt(S))
QTail       == Query("tail", 0, 0, TailOpt(S))
QHeadN(n)   == Query("headn", n, 0, HeadN(S, n))
QTailN(n)   == Query("tailn", n, 0, TailN(S, n))
QEdges      == Query("edges", 0, 0, Edges(S))
QLeftOf(h)  == Query("left_of", h, 0, LeftOf(S, h))
QRightOf(h) == Query("right_of", h, 0, RightOf(S, h))
\* partition is a relation, not a function: the result carries only whether
\* a partition must exist; the harness checks IsBalancedPartition's clauses.
QPartitions == Query("partitions", 0, 0, <<B(S # {})>>)

(* ---- C18: the insertion-constraint decision table ---- *)
CheckInsertion(a, b) ==
    Query("check_insertion_constraints", a, b,
          IF Admit(S, a, b) THEN <<1, B(AdmitFlags(S, a, b)[1]), B(AdmitFlags(S, a, b)[2])>>
          ELSE Err)

Mutators == \/ \E a \in Arg, b \in 0..N : InsertRelaxed(a, b)
            \/ \E a, b \in Arg : RemoveRelaxed(a, b)
            \/ \E T \in SUBSET U : Union(T) \/ Difference(T) \/ Intersection(T)
            \/ Complement \/ PopHead \/ PopTail

Queries  == \/ \E h \in Arg : QContains(h) \/ QLeftOf(h) \/ QRightOf(h)
            \/ \E n \in 0..(N+1) : QHeadN(n) \/ QTailN(n)
            \/ QLen \/ QIsEmpty \/ QHead \/ QTail \/ QEdges \/ QPartitions
            \/ \E a, b \in Arg : CheckInsertion(a, b)

Next == Mutators \/ Queries
Spec == Init /\ [][Next]_vars

(* ---- properties of the design ---- *)
TypeOK == S \subseteq U

\* The canonical representation really is sorted / disjoint / non-adjacent / 0-free
RepCanonical ==
    LET rs == RunSeq(S) IN
    /\ CanonicalRanges(rs) /\ SetOfRanges(rs) = S
    /\ Runs(S) = {r \in S \X S : IsRun(S, r[1], r[2])}

\* A balanced partition exists for every non-empty set (so the relation the
\* harness checks is satisfiable), and the median choice satisfies it.
PartitionExists ==
    S # {} => \E m \in S : IsBalancedPartition(S, {x \in S : x < m}, m, {x \in S : x > m})

\* C18 lemma: an admitted insertion merges with at most one run on each side
\* and creates no overlap: runs(S \cup a..b) = runs(S) with neighbours merged.
AdmitLemma ==
    \A a, b \in Arg :
        Admit(S, a, b) /\ b <= N =>
            LET S2 == S \cup (a..b)
                f  == AdmitFlags(S, a, b)
                k  == Cardinality(Runs(S))
                d  == (IF f[1] THEN 1 ELSE 0) + (IF f[2] THEN 1 ELSE 0)
            IN Cardinality(Runs(S2)) = k + 1 - d
=============================================================================
