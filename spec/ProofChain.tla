----------------------------- MODULE ProofChain -----------------------------
(***************************************************************************)
(* C45.  Verified balance = ABCI query answer (value + chain of ICS-23     *)
(* proof ops) checked against the trusted header's app hash                *)
(* (grpc/src/abci_proofs.rs ProofChain::verify_membership, called from     *)
(* get_verified_balance_impl with keys <<account key, "bank">>).           *)
(*                                                                         *)
(* Symbolic cryptography.  A store is named by a small natural; its root   *)
(* is the term R(store) = store (collision freedom: different contents,    *)
(* different roots).  An existence proof is abstracted by what the real    *)
(* ICS-23 verifier can learn from it:                                      *)
(*   [k, v]  the key and value written in the proof,                       *)
(*   r       the root its leaf/inner operations recompute (Garbage for a   *)
(*           proof with a flipped node: it recomputes a hash that is the   *)
(*           root of nothing),                                             *)
(*   sp      the tree format it is valid for ("iavl" / "simple").          *)
(* verify(p, spec, root, key, value) == p.sp = spec /\ p.r = root /\       *)
(*                                      p.k = key /\ p.v = value           *)
(*                                                                         *)
(* World: the honest state has bank store Bank (account A holds VA,        *)
(* account B holds VB) inside multistore Multi, committed by AppHash.      *)
(* The node may also fabricate a second world (Bank2 with A -> VF inside   *)
(* Multi2 with root AppHash2) and mix parts of both.                       *)
(*                                                                         *)
(* Algorithmic layer: Verify(ops, value) mirrors the loop of               *)
(* verify_membership.  Property layer: Linked(value) == the pair           *)
(* (account key of A, value) really is in the state committed by the       *)
(* header's app hash; the demanded verdict is                              *)
(*     reported as verified  =>  Linked.                                   *)
(***************************************************************************)
EXTENDS Naturals, Sequences, FiniteSets

CONSTANT AsIsEmptyValue   \* TRUE: the code as it is (an empty value is reported as balance 0 without any proof)

\* ---- symbolic universe --------------------------------------------------
KA == "keyA"      \* bank key of the queried account
KB == "keyB"      \* bank key of another account
KBank == "bank"   \* multistore key of the bank store
VA == 10          \* honest balance of A          (values: decimal strings in the real encoding)
VB == 20          \* honest balance of B
VF == 30          \* forged balance

Bank == 101       \* root of the honest bank store   {KA -> VA, KB -> VB}
Bank2 == 102      \* root of the forged bank store   {KA -> VF, KB -> VB}
Multi == 201      \* = AppHash,  multistore {bank -> Bank, ...}
Multi2 == 202     \* = AppHash2, multistore {bank -> Bank2, ...}
Garbage == 999    \* what a proof with a flipped node recomputes

AppHash == Multi
AppHash2 == Multi2

\* conf: the leaf / inner operations of the proof follow the ProofSpec of the tree format `sp` (leaf prefix, hash,
\* prehash_key, prehash_value and length operations; inner-op hash, prefix and suffix lengths).  An honestly produced
\* proof conforms.
Pf(k, v, r, sp) == [k |-> k, v |-> v, r |-> r, sp |-> sp, conf |-> TRUE]
Op(ty, key, pf) == [ty |-> ty, key |-> key, pf |-> pf]     \* ty: declared type of the op

\* existence proofs that exist in the two worlds (a valid proof can only be produced for a pair that is in the tree)
PA  == Pf(KA, VA, Bank, "iavl")
PB  == Pf(KB, VB, Bank, "iavl")
PA2 == Pf(KA, VF, Bank2, "iavl")
PM  == Pf(KBank, Bank, Multi, "simple")
PM2 == Pf(KBank, Bank2, Multi2, "simple")
\* an honest proof in a tree of the node's own making (root Tree3) whose VALUE is the forged app root: appended to a
\* chain it offers the forged root where the header's app hash should be used
Tree3 == 301
PX  == Pf(KBank, Multi2, Tree3, "simple")

\* tampering with the bytes of a proof
FlipNode(p)     == [p EXCEPT !.r = Garbage]        \* a sibling hash / prefix changed
\* value rewritten inside the proof: the leaf hash changes.  The two worlds differ only in A's value (and hence
\* in the bank root), with the same siblings: rewriting the honest proof of one world gives the other world's proof
SetValue(p, v)  == IF p = PA /\ v = VF THEN PA2
                   ELSE IF p = PM /\ v = Bank2 THEN PM2
                   ELSE [p EXCEPT !.v = v, !.r = Garbage]
SetKey(p, k)    == [p EXCEPT !.k = k, !.r = Garbage]   \* key rewritten inside the proof: the leaf hash changes

\* Operations that do NOT follow the ProofSpec can cut the bytes a tree really commits to
\* (prefix | len(key) | key | len(hash(value)) | hash(value)) differently: same recomputed root, same key, but a
\* "value" that was never stored (VS1: leaf without value pre-hash and length prefix; VS2: leaf without hash plus an
\* inner operation splicing the rest).
VS1 == 41
VS2 == 42
Reslice(p, vs) == [p EXCEPT !.v = vs, !.conf = FALSE]

\* ---- algorithmic layer: ProofChain::verify_membership -------------------
VerifyPf(p, spec, root, key, value) == p.conf /\ p.sp = spec /\ p.r = root /\ p.k = key /\ p.v = value

SpecOf(ty) == IF ty = "ics23:iavl" THEN "iavl" ELSE IF ty = "ics23:simple" THEN "simple" ELSE "none"

RECURSIVE Walk(_, _, _, _, _)
\* i = index of the current key/op, leaf = value to prove at this level
Walk(ops, keys, root, i, leaf) ==
    IF i > Len(keys) THEN (IF Len(ops) >= i THEN "err-uneven" ELSE "ok")
    ELSE IF Len(ops) < i THEN "err-missing"
    ELSE IF ops[i].key # keys[i] THEN "err-key"
    ELSE LET last == Len(ops) = i
             croot == IF last THEN root ELSE ops[i + 1].pf.v
         IN IF last /\ i < Len(keys) THEN "err-uneven"
            ELSE IF ~VerifyPf(ops[i].pf, SpecOf(ops[i].ty), croot, ops[i].key, leaf) THEN "err-root"
            ELSE Walk(ops, keys, root, i + 1, croot)

\* get_verified_balance_impl: the answer (value, ops) for account key KA against header app hash `root`
\* value = 0 stands for the empty byte string
Verdict(ops, value, root) ==
    IF value = 0 /\ AsIsEmptyValue THEN "ok-zero"               \* `if response.value.is_empty() { return Ok(0) }`
    ELSE IF value = 0 THEN "err-noproof"                         \* the design the property asks for
    ELSE IF ops = <<>> THEN "err-noproof"
    ELSE IF \E j \in 1..Len(ops) : SpecOf(ops[j].ty) = "none" THEN "err-spec"
    ELSE Walk(ops, <<KA, KBank>>, root, 1, value)

Reported(v) == v \in {"ok", "ok-zero"}

\* ---- property layer ----------------------------------------------------
\* the state committed by app hash `root`: which value the account key KA has there (0 = absent)
Committed(root) == IF root = AppHash THEN VA ELSE IF root = AppHash2 THEN VF ELSE 0
\* value is backed by a chain to `root`
Linked(value, root) == value # 0 /\ value = Committed(root)

\* ---- the enumerated answers ---------------------------------------------
\* an op is built from an honest proof of one of the two worlds (`base`) and a tampering recipe; the harness
\* builds the real bytes from the recipe, the model computes the abstract proof from it
Base(b) == CASE b = "PA" -> PA [] b = "PB" -> PB [] b = "PA2" -> PA2 [] b = "PM" -> PM [] b = "PM2" -> PM2 [] b = "PX" -> PX
Val(x)  == CASE x = "VA" -> VA [] x = "VB" -> VB [] x = "VF" -> VF [] x = "Bank" -> Bank [] x = "Bank2" -> Bank2
                [] x = "AppHash2" -> Multi2 [] x = "zero" -> 0 [] x = "VS1" -> VS1 [] x = "VS2" -> VS2
Key(x)  == CASE x = "KA" -> KA [] x = "KB" -> KB [] x = "KBank" -> KBank
Root(x) == IF x = "AppHash" THEN AppHash ELSE AppHash2

Recipe(ty, key, base, tamper, arg) == [ty |-> ty, key |-> key, base |-> base, tamper |-> tamper, arg |-> arg]
PfOf(rc) == CASE rc.tamper = "none"     -> Base(rc.base)
              [] rc.tamper = "flip"     -> FlipNode(Base(rc.base))
              [] rc.tamper = "setvalue" -> SetValue(Base(rc.base), Val(rc.arg))
              [] rc.tamper = "setkey"   -> SetKey(Base(rc.base), Key(rc.arg))
              [] rc.tamper = "reslice"  -> Reslice(Base(rc.base), Val(rc.arg))
OpOf(rc) == Op(rc.ty, Key(rc.key), PfOf(rc))

Pool == {
    Recipe("ics23:iavl", "KA", "PA", "none", ""),            \* the honest first op
    Recipe("ics23:iavl", "KB", "PB", "none", ""),            \* the entry of another account
    Recipe("ics23:iavl", "KA", "PB", "none", ""),            \* ... relabelled with A's key
    Recipe("ics23:iavl", "KA", "PB", "setkey", "KA"),        \* ... and rewritten inside the proof
    Recipe("ics23:iavl", "KA", "PA2", "none", ""),           \* honest proof of the forged world
    Recipe("ics23:iavl", "KA", "PA", "flip", ""),            \* a proof node flipped
    Recipe("ics23:iavl", "KA", "PA", "setvalue", "VF"),      \* the value rewritten inside the proof
    Recipe("ics23:simple", "KA", "PA", "none", ""),          \* declared with the other tree format
    Recipe("unknown", "KA", "PA", "none", ""),               \* unsupported proof type
    Recipe("ics23:simple", "KBank", "PM", "none", ""),       \* the honest second op
    Recipe("ics23:simple", "KBank", "PM2", "none", ""),      \* multistore of the forged world
    Recipe("ics23:simple", "KBank", "PM", "flip", ""),
    Recipe("ics23:simple", "KBank", "PM", "setvalue", "Bank2"),   \* forged bank root spliced into the honest multistore proof
    Recipe("ics23:iavl", "KBank", "PM", "none", ""),
    Recipe("ics23:iavl", "KA", "PA", "reslice", "VS1"),           \* ops off the ProofSpec, hashing to the committed root
    Recipe("ics23:iavl", "KA", "PA", "reslice", "VS2"),
    Recipe("ics23:simple", "KBank", "PX", "none", ""),            \* existence op whose value is the forged app root
    Recipe("ics23:simple", "KBank", "PM", "setvalue", "AppHash2") \* ... the same, written into the honest multistore proof
}

SeqsUpTo(S, k) == UNION {[1..m -> S] : m \in 0..k}
\* The node chooses the whole response, including the `key` field it echoes (rkey).  The client asked for KA: neither
\* the verification (which must use the locally built key) nor the demanded verdict depends on the echoed key, so a
\* client that verifies the echoed key instead (another account's key, value and valid proof) is caught by Demand.
Values == {"VA", "VB", "VF", "zero", "VS1", "VS2"}
Cases == [ops : SeqsUpTo(Pool, 3), value : Values, root : {"AppHash", "AppHash2"}, rkey : {"KA"}]
         \cup [ops : SeqsUpTo(Pool, 2), value : Values, root : {"AppHash", "AppHash2"}, rkey : {"KB"}]

AbsOps(c) == [i \in 1..Len(c.ops) |-> OpOf(c.ops[i])]
Honest(c) == \/ c.value = "VA" /\ c.root = "AppHash"
                /\ c.ops = <<Recipe("ics23:iavl", "KA", "PA", "none", ""), Recipe("ics23:simple", "KBank", "PM", "none", "")>>
             \/ c.value = "VF" /\ c.root = "AppHash2"
                /\ c.ops = <<Recipe("ics23:iavl", "KA", "PA2", "none", ""), Recipe("ics23:simple", "KBank", "PM2", "none", "")>>
VerdictOf(c) == Verdict(AbsOps(c), Val(c.value), Root(c.root))
\* ProofChain::verify_membership itself (the empty-value shortcut is the caller's)
MechVerdictOf(c) == LET ops == AbsOps(c) IN
    IF ops = <<>> THEN "err-noproof"
    ELSE IF \E j \in 1..Len(ops) : SpecOf(ops[j].ty) = "none" THEN "err-spec"
    ELSE Walk(ops, <<KA, KBank>>, Root(c.root), 1, Val(c.value))

\* demanded verdict: 1 = must be reported as verified (honest answer), 0 = must not, 2 = either
Demand(c) == IF Honest(c) THEN 1 ELSE IF Linked(Val(c.value), Root(c.root)) THEN 2 ELSE 0

\* ---- the property on the model ------------------------------------------
Sound(c)    == /\ Reported(VerdictOf(c)) => Linked(Val(c.value), Root(c.root))
               /\ MechVerdictOf(c) = "ok" => Linked(Val(c.value), Root(c.root))
Complete(c) == Honest(c) => VerdictOf(c) = "ok"
=============================================================================
