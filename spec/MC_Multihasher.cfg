CONSTANT Dev = "none"
INIT Init
NEXT Next
VIEW View
INVARIANTS CodeMeetsDemand OkOnlyStored HonestOk Monotone EndToEnd
CHECK_DEADLOCK FALSE
