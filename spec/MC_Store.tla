------------------------------- MODULE MC_Store ------------------------------
(* Exhaustive small scope: heights 1..N, the honest chain A, a fork B from  *)
(* height K, headers advertising an already used hash (T: A_h advertising   *)
(* A_1's hash; U: successor built on top of T), a header signed by another  *)
(* validator set (W).  Batches: every sequence of length <= 2 over that     *)
(* universe and every linked sequence of length 3.                          *)
EXTENDS Store, TLC
CONSTANTS N, K

H(id, h, tag, parent, vs) == [id |-> id, h |-> h, tag |-> tag, parent |-> parent, vs |-> vs, nvs |-> 1, t |-> h, cid |-> 1]
A(h) == H(h, h, h, h - 1, 1)
B(h) == H(10 + h, h, 10 + h, IF h = K THEN K - 1 ELSE 10 + h - 1, 1)
T(h) == H(20 + h, h, 1, h - 1, 1)             \* A_h advertising the hash of A_1
U(h) == H(30 + h, h, 30 + h, 1, 1)            \* built on top of T(h-1) (whose tag is 1)
W(h) == H(40 + h, h, 40 + h, h - 1, 2)        \* other validator set

Hdrs == {A(h) : h \in 1..N} \cup {B(h) : h \in K..N} \cup {T(h) : h \in 2..N}
        \cup {U(h) : h \in 3..N} \cup {W(h) : h \in 2..N}

Batches == {<<x>> : x \in Hdrs} \cup {<<x, y>> : x, y \in Hdrs}
           \cup {<<x, y, z>> : x, y, z \in {q \in Hdrs : TRUE}}
Batches3 == {b \in Batches : Len(b) < 3 \/ Linked(b)}

Cids == {1, 2}

Next == \/ \E b \in Batches3 : Insert(b)
        \/ \E h \in 1..N : RemoveHeight(h) \/ MarkSampled(h)
        \/ \E h \in 1..N, cs \in (SUBSET Cids) \ {{}} : UpdateMeta(h, cs)
Spec == Init /\ [][Next]_vars

View == svars
=============================================================================
