------------------------------ MODULE Gen_SqRow ------------------------------
EXTENDS SqRow, Json
Out(k) == [k |-> K, cls |-> k.cls, mut |-> k.mut, i |-> k.i, side |-> k.side, label |-> k.label, h |-> k.h,
           demand |-> RowDemand(k.i, k.h, k.label), predict |-> Verdict(RowCode(k.i, k.h, k.label))]
GenNext == Next /\ PrintT(ToJson(Out(kase')))
=============================================================================
