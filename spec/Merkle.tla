------------------------------- MODULE Merkle -------------------------------
(***************************************************************************)
(* C13.  RFC-6962 merkle inclusion proofs with symbolic hashing.           *)
(*                                                                         *)
(* A digest is a term: L(i) (hash of leaf i), Nd(l, r) (inner hash), X(k)  *)
(* (a digest that is the hash of nothing anybody knows).  Term equality is *)
(* digest equality (collision freeness + leaf/inner domain separation is   *)
(* the trusted base).                                                      *)
(*                                                                         *)
(* Algorithmic layer: `Compute` is a transcription of                      *)
(* subtree_root_from_aunts (types/src/merkle_proof.rs) on terms,           *)
(* `ModelAccepts` of MerkleProof::verify.                                  *)
(* Property layer: `PropAllows` is the statement "index below leaf count   *)
(* and the leaf is at that index of a tree with that count and root"       *)
(* (`Shape`: a tree of `cnt` leaves has a fixed shape; the root term must  *)
(* decompose along it, with the leaf at the index).                        *)
(*                                                                         *)
(* A case = one honest proof (n leaves, leaf i) with one mutation applied  *)
(* to (index, total, proof leaf, argument leaf, aunts, root).              *)
(***************************************************************************)
EXTENDS Naturals, Sequences, FiniteSets, TLC

CONSTANTS NMax,       \* honest trees have 1..NMax leaves
          IExtra,     \* claimed indices range over 0..NMax+IExtra
          TExtra,     \* claimed totals range over 0..NMax+TExtra
          Pairs,      \* BOOLEAN: also combine aunt mutations with index/total mutations
          CheckIndex, \* BOOLEAN: verify() checks index < total (TRUE = code after the fix)
          BindTotal   \* BOOLEAN: the design in which the verifier knows the committed leaf count

VARIABLE c            \* the case

L(i)     == <<"L", i>>
X(k)     == <<"X", k>>
Nd(l, r) == <<"N", l, r>>
ERR      == <<"ERR">>
IsLeafT(t) == t[1] = "L"
IsNodeT(t) == t[1] = "N"

RECURSIVE P2(_, _)
P2(n, k) == IF 2 * k >= n THEN k ELSE P2(n, 2 * k)
\* largest power of two strictly below n (n >= 2) = n.next_power_of_two() / 2
Split(n) == P2(n, 1)

RECURSIVE Tree(_, _)
Tree(lo, hi) ==
    IF lo = hi THEN L(lo)
    ELSE LET k == Split(hi - lo + 1) IN Nd(Tree(lo, lo + k - 1), Tree(lo + k, hi))

\* honest aunts, deepest first (the order MerkleProof::new produces)
RECURSIVE Aunts(_, _, _)
Aunts(lo, hi, i) ==
    IF lo = hi THEN <<>>
    ELSE LET k == Split(hi - lo + 1) IN
         IF i < lo + k THEN Append(Aunts(lo, lo + k - 1, i), Tree(lo + k, hi))
         ELSE Append(Aunts(lo + k, hi, i), Tree(lo, lo + k - 1))

RECURSIVE CountL(_)
CountL(t) == IF IsNodeT(t) THEN CountL(t[2]) + CountL(t[3]) ELSE IF IsLeafT(t) THEN 1 ELSE 0

(* ---- algorithmic layer ---- *)
RECURSIVE Compute(_, _, _, _)
Compute(index, total, leaf, aunts) ==
    IF total = 0 THEN ERR            \* debug_assert in the code; never an acceptance
    ELSE IF total = 1 THEN (IF aunts # <<>> THEN ERR ELSE leaf)
    ELSE IF aunts = <<>> THEN ERR
    ELSE LET k    == Split(total)
             sib  == aunts[Len(aunts)]
             rest == SubSeq(aunts, 1, Len(aunts) - 1)
         IN IF index < k
            THEN LET l == Compute(index, k, leaf, rest) IN IF l = ERR THEN ERR ELSE Nd(l, sib)
            ELSE LET r == Compute(index - k, total - k, leaf, rest) IN IF r = ERR THEN ERR ELSE Nd(sib, r)

ModelAccepts(p) ==
    /\ p.arg = p.leaf
    /\ (CheckIndex => p.index < p.total)
    /\ Compute(p.index, p.total, p.leaf, p.aunts) = p.root

\* the design the property asks for: the leaf count is bound to the root
DesignAccepts(p) == ModelAccepts(p) /\ (BindTotal => p.total = CountL(p.root))

(* ---- property layer ---- *)
\* Some tree with cnt leaves has digest t and (when idx < cnt) digest `leaf` at position idx.
RECURSIVE Shape(_, _, _, _)
Shape(t, cnt, idx, leaf) ==
    IF cnt = 0 THEN FALSE
    ELSE IF cnt = 1 THEN IsLeafT(t) /\ (idx = 0 => t = leaf)
    ELSE /\ IsNodeT(t)
         /\ LET k == Split(cnt) IN
            /\ Shape(t[2], k, IF idx < k THEN idx ELSE k, leaf)
            /\ Shape(t[3], cnt - k, IF idx >= k /\ idx < cnt THEN idx - k ELSE cnt - k, leaf)

PropAllows(p) == p.index < p.total /\ Shape(p.root, p.total, p.index, p.arg)

\* The left/right turns from the root down to `index` in a tree of `total` leaves (split-point rule).
\* Two (index, total) pairs consume the same aunts in the same way exactly when their turns agree.
RECURSIVE PathDirs(_, _)
PathDirs(index, total) ==
    IF total <= 1 THEN <<>>
    ELSE LET k == Split(total) IN
         IF index < k THEN <<0>> \o PathDirs(index, k) ELSE <<1>> \o PathDirs(index - k, total - k)

(* ---- cases ---- *)
Honest(n, i) == [n |-> n, i |-> i, fam |-> "none", sub |-> "none", k |-> 0,
                 index |-> i, total |-> n, leaf |-> L(i), arg |-> L(i),
                 aunts |-> Aunts(0, n - 1, i), root |-> Tree(0, n - 1)]

RemoveAt(s, k) == SubSeq(s, 1, k - 1) \o SubSeq(s, k + 1, Len(s))
DupAt(s, k)    == SubSeq(s, 1, k) \o SubSeq(s, k, Len(s))
SwapAt(s, k)   == [j \in 1..Len(s) |-> IF j = k THEN s[k + 1] ELSE IF j = k + 1 THEN s[k] ELSE s[j]]
ReplAt(s, k, v) == [s EXCEPT ![k] = v]

IdxTot(h) == {[h EXCEPT !.fam = "index_total", !.index = ix, !.total = t] :
                <<ix, t>> \in ((0..(NMax + IExtra)) \X (0..(NMax + TExtra))) \ {<<h.index, h.total>>}}

LeafMut(h) ==
    LET others == (0..h.n) \ {h.i} IN    \* h.n itself is a leaf that is not in the tree
    UNION {{[h EXCEPT !.fam = "leaf", !.sub = "arg", !.k = j, !.arg = L(j)],
            [h EXCEPT !.fam = "leaf", !.sub = "both", !.k = j, !.arg = L(j), !.leaf = L(j)],
            [h EXCEPT !.fam = "leaf", !.sub = "proof", !.k = j, !.leaf = L(j)]} : j \in others}

AuntMut(h) ==
    LET a == h.aunts
        m == Len(a)
        repl(k) == {X(0), h.leaf, L(h.n)} \cup {a[j] : j \in (1..m) \ {k}}
    IN UNION {
        {[h EXCEPT !.fam = "aunts", !.sub = "drop", !.k = k, !.aunts = RemoveAt(a, k)] : k \in 1..m},
        {[h EXCEPT !.fam = "aunts", !.sub = "dup", !.k = k, !.aunts = DupAt(a, k)] : k \in 1..m},
        {[h EXCEPT !.fam = "aunts", !.sub = "swap", !.k = k, !.aunts = SwapAt(a, k)] : k \in 1..(IF m = 0 THEN 0 ELSE m - 1)},
        UNION {{[h EXCEPT !.fam = "aunts", !.sub = "replace", !.k = k, !.aunts = ReplAt(a, k, v)] : v \in repl(k) \ {a[k]}} : k \in 1..m},
        {[h EXCEPT !.fam = "aunts", !.sub = "append", !.k = m + 1, !.aunts = Append(a, X(0))],
         [h EXCEPT !.fam = "aunts", !.sub = "prepend", !.k = 0, !.aunts = <<X(0)>> \o a]}}

RootMut(h) ==
    LET m == Len(h.aunts)
        cands == {X(0), Tree(0, h.n), h.leaf}
                  \cup (IF h.n >= 2 THEN {Tree(0, h.n - 2)} ELSE {})
                  \cup (IF m > 0 THEN {h.aunts[m], Nd(h.root[3], h.root[2])} ELSE {})
    IN {[h EXCEPT !.fam = "root", !.sub = "replace", !.root = r] : r \in cands \ {h.root}}

PairMut(h) ==
    IF ~Pairs THEN {}
    ELSE UNION {{[g EXCEPT !.fam = "aunts+index_total", !.index = ix, !.total = t] :
                    <<ix, t>> \in ((0..(NMax + IExtra)) \X (0..(NMax + TExtra))) \ {<<h.index, h.total>>}}
                : g \in {x \in AuntMut(h) : x.sub \in {"drop", "dup", "append", "prepend"}}}

CasesOf(h) == {h} \cup IdxTot(h) \cup LeafMut(h) \cup AuntMut(h) \cup RootMut(h) \cup PairMut(h)

Cases == UNION {CasesOf(Honest(n, i)) : <<n, i>> \in {x \in (1..NMax) \X (0..(NMax - 1)) : x[2] < x[1]}}

Init == c \in Cases
Next == UNCHANGED c

(* ---- verdicts demanded by the property ---- *)
\* sentence 1: "accepted only if ..." - soundness only
\* plus: the unmutated honest proof of every (total, index), powers of two or not, verifies
V1(p) == IF p.fam = "none" THEN "A" ELSE IF PropAllows(p) THEN "E" ELSE "R"
\* claimed (index, total) walks the tree with the same turns as the honest (i, n)
SamePath(p) == p.index < p.total /\ PathDirs(p.index, p.total) = PathDirs(p.i, p.n)
\* sentence 2 (proofs over a DAH): honest verifies; altered root / leaf / inner node fails
\* (the proven root = the leaf argument; an inner node = an aunt; the proof's own copy of the leaf
\* hash and the root argument are not in the statement's list: sentence 1 decides those)
Altered(p) == p.fam \in {"leaf", "aunts", "root", "aunts+index_total"}
AlteredListed(p) == p.fam \in {"aunts", "aunts+index_total"} \/ (p.fam = "leaf" /\ p.sub # "proof")
V2(p) == IF p.fam = "none" THEN "A" ELSE IF AlteredListed(p) THEN "R" ELSE V1(p)

(* ---- invariants: the design satisfies the property ---- *)
TypeOK == c.index \in Nat /\ c.total \in Nat /\ c.fam \in {"none", "index_total", "leaf", "aunts", "root", "aunts+index_total"}
Complete == c.fam = "none" => ModelAccepts(c) /\ PropAllows(c)
Sound == DesignAccepts(c) => PropAllows(c)
\* sentence 2 on the model: every alteration of leaf / aunts / root is rejected
AlteredRejected == Altered(c) => ~ModelAccepts(c)
\* aunts, leaf and root unchanged: the split-point algorithm accepts a claimed (index, total) exactly when
\* it walks the same turns as the honest pair - in particular never with another number of aunts
AcceptIffSamePath == c.fam = "index_total" => (ModelAccepts(c) <=> SamePath(c))
\* ... and the statement allows none of them: another total is not the count of the committed tree,
\* another index is not the position of the leaf
TotalAndIndexBound == c.fam = "index_total" => ~PropAllows(c)
HonestDepth == c.fam = "none" => Len(c.aunts) = Len(PathDirs(c.i, c.n))
\* a verdict never contradicts itself
VerdictsConsistent == ~(V2(c) = "A" /\ V1(c) = "R")
=============================================================================
