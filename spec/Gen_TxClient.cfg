CONSTANT Subs = {1, 2}
CONSTANT MaxSeq = 2
CONSTANT Fuel = 2
CONSTANT UseEst = FALSE
CONSTANT Q0 = 1
CONSTANT MaxConc = 2
INIT GenInit
NEXT GenNext
CONSTRAINT Bound
INVARIANTS Emit PropOK LockOK
CHECK_DEADLOCK FALSE
