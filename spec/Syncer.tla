-------------------------------- MODULE Syncer -------------------------------
(***************************************************************************)
(* C25, C38 (and C24 end to end).  The syncer worker (node/src/syncer.rs)  *)
(* with its environment: header store, network (honest peers plus          *)
(* adversarial answers), header-sub, the pruner, time.                     *)
(*                                                                         *)
(* Heights 1..N; header h of the honest chain has time h (one block per    *)
(* tick), `now` is the clock in the same unit.  A header is inside a       *)
(* window of width W iff now - h < W.                                      *)
(***************************************************************************)
EXTENDS Naturals, FiniteSets, Sequences, Ranges, SyncRange

CONSTANTS N,          \* heights
          Batch,      \* batch size
          WSamp,      \* sampling window (ticks)
          WPrune,     \* pruning window (ticks)
          AsIsDeviation,  \* TRUE: the pinned code's behaviour when the header above the batch was pruned
          EnablePrune,    \* environment contains the pruner
          EnableForeign,  \* environment contains peers serving a foreign chain
          SlowThr         \* slow sync: how many stored-but-unsampled headers may wait for the sampler
                          \* (max(batch_size / 2, 50) in the code)

VARIABLES stored, pruned, foreign,   \* the header store; foreign: stored heights holding a non-honest header
          sampled,                    \* heights marked sampled (only matters for the pruner's permission)
          now, netHead,               \* clock, height of the network head
          peers, trusted,             \* connected peers (0..2), whether one of them is trusted
          phase, subj, ongoing, hsub, \* syncer worker state
          sawPeer,                    \* try_init has passed wait_connected_trusted (it then finishes even if peers leave)
          slowH,                      \* highest_slow_sync_height (0 = none): highest fetched header older than the pruning window
          lastFetch                   \* observation: the last batch requested with the facts at request time

svars == <<stored, pruned, foreign, sampled>>
vars  == <<stored, pruned, foreign, sampled, now, netHead, peers, trusted, phase, subj, ongoing, hsub, sawPeer, slowH, lastFetch>>

NoFetch == <<>>
Synced == stored \cup pruned
InWin(h, W) == now - h < W
StoreHead == IF stored = {} THEN 0 ELSE MaxOf(stored)

Init == /\ stored = {} /\ pruned = {} /\ foreign = {} /\ sampled = {}
        /\ now = 1 /\ netHead = 1
        /\ peers = 0 /\ trusted = FALSE /\ phase = "connecting" /\ subj = 0 /\ ongoing = <<>> /\ hsub = FALSE /\ sawPeer = FALSE
        /\ slowH = 0 /\ lastFetch = NoFetch

(* ---- store insertion as the syncer sees it ---- *)
\* honest headers lo..hi: admitted by the constraints and verified against stored neighbours
HonestInsertOk(lo, hi) ==
    /\ Admit(stored, lo, hi)
    /\ (lo - 1) \in stored => (lo - 1) \notin foreign
    /\ (hi + 1) \in stored => (hi + 1) \notin foreign
\* headers of a foreign chain: only accepted when no stored neighbour is there to contradict them
ForeignInsertOk(lo, hi) ==
    /\ Admit(stored, lo, hi) /\ (lo - 1) \notin stored /\ (hi + 1) \notin stored
DoInsert(lo, hi, isForeign) ==
    /\ stored' = stored \cup (lo..hi) /\ pruned' = pruned \ (lo..hi)
    /\ sampled' = sampled \ (lo..hi)
    /\ foreign' = IF isForeign THEN foreign \cup (lo..hi) ELSE foreign

(* ---- environment ---- *)
NewBlock == /\ netHead < N /\ netHead' = netHead + 1 /\ now' = now + 1
            /\ UNCHANGED <<stored, pruned, foreign, sampled, peers, trusted, phase, subj, ongoing, hsub, lastFetch, sawPeer, slowH>>

Connect == /\ peers = 0 /\ peers' = 1 /\ trusted' = TRUE      \* a trusted peer connects
           /\ sawPeer' = (sawPeer \/ phase = "connecting")
           /\ UNCHANGED <<stored, pruned, foreign, sampled, now, netHead, phase, subj, ongoing, hsub, lastFetch, slowH>>

\* all peers disconnect: the connected loop ends, the ongoing batch is cancelled
Disconnect == /\ peers >= 1 /\ peers' = 0 /\ trusted' = FALSE /\ phase' = "connecting" /\ ongoing' = <<>> /\ hsub' = FALSE
              /\ UNCHANGED <<stored, pruned, foreign, sampled, now, netHead, subj, lastFetch, sawPeer, slowH>>

\* an ordinary (untrusted) peer joins; the trusted peer leaves while an ordinary one stays: the
\* syncer keeps working (it needs *a* peer to fetch, a trusted one only to initialise)
PlainJoin == /\ peers = 1 /\ peers' = 2
             /\ UNCHANGED <<stored, pruned, foreign, sampled, now, netHead, trusted, phase, subj, ongoing, hsub, lastFetch, sawPeer, slowH>>
TrustedLeave == /\ peers = 2 /\ trusted /\ peers' = 1 /\ trusted' = FALSE
                /\ UNCHANGED <<stored, pruned, foreign, sampled, now, netHead, phase, subj, ongoing, hsub, lastFetch, sawPeer, slowH>>

\* a trusted peer joins while only ordinary ones are connected (needed for a syncer that has not initialised yet)
TrustedJoin == /\ peers = 1 /\ ~trusted /\ peers' = 2 /\ trusted' = TRUE
               /\ sawPeer' = (sawPeer \/ phase = "connecting")
               /\ UNCHANGED <<stored, pruned, foreign, sampled, now, netHead, phase, subj, ongoing, hsub, lastFetch, slowH>>

MarkSampled(h) == /\ h \in stored /\ sampled' = sampled \cup {h}
                  /\ UNCHANGED <<stored, pruned, foreign, now, netHead, peers, trusted, phase, subj, ongoing, hsub, lastFetch, sawPeer, slowH>>

\* what the pruner may remove (C35): outside the pruning window, and inside the sampling window only
\* sampled headers that are not an edge of the synced ranges
Prunable(h) == /\ h \in stored /\ ~InWin(h, WPrune)
               /\ InWin(h, WSamp) => (h \in sampled /\ h \notin Edges(Synced))
Prune(h) == /\ Prunable(h)
            /\ stored' = stored \ {h} /\ pruned' = pruned \cup {h} /\ sampled' = sampled \ {h}
            /\ foreign' = foreign \ {h}
            /\ UNCHANGED <<now, netHead, peers, trusted, phase, subj, ongoing, hsub, lastFetch, sawPeer, slowH>>

(* ---- the worker ---- *)
\* connecting_event_loop / try_init: a trusted peer is connected, the network head is fetched and
\* inserted (unless it already is the store's head); a refused insert is retried later.
TryInit ==
    /\ phase = "connecting" /\ sawPeer
    /\ LET h == netHead
           skip == stored # {} /\ StoreHead = h /\ h \notin foreign
       IN /\ skip \/ HonestInsertOk(h, h)
          /\ IF skip THEN UNCHANGED svars ELSE DoInsert(h, h, FALSE)
          /\ subj' = IF h > subj THEN h ELSE subj
    \* with no peer left the connected loop returns at once and the worker waits for peers again
    /\ phase' = (IF peers >= 1 THEN "connected" ELSE "connecting") /\ hsub' = (peers >= 1)
    /\ sawPeer' = FALSE
    /\ UNCHANGED <<now, netHead, peers, trusted, ongoing, lastFetch, slowH>>

\* a header announced on header-sub
HeaderSub ==
    /\ phase = "connected" /\ hsub /\ netHead > subj
    /\ subj' = netHead
    /\ IF stored # {} /\ StoreHead + 1 = netHead /\ HonestInsertOk(netHead, netHead)
       THEN DoInsert(netHead, netHead, FALSE)
       ELSE UNCHANGED svars
    /\ UNCHANGED <<now, netHead, peers, trusted, phase, ongoing, hsub, lastFetch, sawPeer, slowH>>

\* slow sync (on_fetch_next_batch_result): the highest header of a received batch that is older than the
\* pruning window raises highest_slow_sync_height -- whether or not the batch is then stored
SlowAfter(lo, hi) == LET O == {h \in lo..hi : ~InWin(h, WPrune)} IN
                     IF O # {} /\ MaxOf(O) > slowH THEN MaxOf(O) ELSE slowH
\* ... and a batch that lies entirely at or below it is not requested while more than SlowThr stored headers
\* still wait for the sampler (the pruner removes sampled old headers; the syncer stays ahead of it, not far)
SlowSyncHolds(b) == slowH # 0 /\ MaxOf(b) <= slowH /\ Cardinality(stored \ sampled) > SlowThr

\* fetch_next_batch
NextBatch == CalcRange(subj, Synced, Batch)
FetchNext ==
    /\ phase = "connected" /\ ongoing = <<>> /\ peers >= 1 /\ subj # 0
    /\ LET b == NextBatch IN
       /\ b # {}
       /\ ~SlowSyncHolds(b)
       /\ LET e == MaxOf(b) + 1 IN
            \/ e \in stored /\ InWin(e, WSamp)                \* known header above the batch is in the window
            \/ e \notin stored /\ e \notin pruned             \* nothing known above the batch
            \/ e \notin stored /\ e \in pruned /\ AsIsDeviation   \* pinned code: NotFound skips the guard
       /\ ongoing' = <<MinOf(b), MaxOf(b)>>
       /\ lastFetch' = [lo |-> MinOf(b), hi |-> MaxOf(b), subj |-> subj, synced |-> Synced,
                        old |-> {h \in Synced : h > MaxOf(b) /\ ~InWin(h, WSamp)}]
    /\ UNCHANGED <<stored, pruned, foreign, sampled, now, netHead, peers, trusted, phase, subj, hsub, sawPeer, slowH>>

\* the batch comes back: honest headers, headers of a foreign chain, or any failure
BatchOk ==
    /\ phase = "connected" /\ ongoing # <<>>
    /\ IF HonestInsertOk(ongoing[1], ongoing[2]) THEN DoInsert(ongoing[1], ongoing[2], FALSE) ELSE UNCHANGED svars
    /\ ongoing' = <<>> /\ slowH' = SlowAfter(ongoing[1], ongoing[2])
    /\ UNCHANGED <<now, netHead, peers, trusted, phase, subj, hsub, lastFetch, sawPeer>>
BatchForeign ==
    /\ phase = "connected" /\ ongoing # <<>>
    /\ IF ForeignInsertOk(ongoing[1], ongoing[2]) THEN DoInsert(ongoing[1], ongoing[2], TRUE) ELSE UNCHANGED svars
    /\ ongoing' = <<>> /\ slowH' = SlowAfter(ongoing[1], ongoing[2])
    /\ UNCHANGED <<now, netHead, peers, trusted, phase, subj, hsub, lastFetch, sawPeer>>
BatchFail ==
    /\ phase = "connected" /\ ongoing # <<>> /\ ongoing' = <<>>
    /\ UNCHANGED <<stored, pruned, foreign, sampled, now, netHead, peers, trusted, phase, subj, hsub, lastFetch, sawPeer, slowH>>

Worker == TryInit \/ HeaderSub \/ FetchNext \/ BatchOk
Env    == \/ NewBlock \/ Connect \/ Disconnect \/ BatchFail \/ PlainJoin \/ TrustedLeave \/ TrustedJoin
          \/ (EnablePrune /\ \E h \in 1..N : Prune(h))
          \/ (EnablePrune /\ \E h \in 1..N : MarkSampled(h))
          \/ (EnableForeign /\ BatchForeign)
Next == Worker \/ Env
Spec == Init /\ [][Next]_vars

(* ---- properties ---- *)
\* C25: no batch is requested below a synced header that is older than the sampling window
NoRequestBelowOldHeader == lastFetch # NoFetch => lastFetch.old = {}
\* C24 end to end: every requested batch satisfies the batch-selection statement
FetchAllowed == lastFetch # NoFetch =>
    Allowed(lastFetch.subj, lastFetch.synced, Batch, lastFetch.lo..lastFetch.hi)
\* C38 safety: the store only ever holds headers of the honest chain
StoreOnHonestChain == foreign = {}
\* structural
TypeOK == /\ stored \cap pruned = {} /\ foreign \subseteq stored /\ sampled \subseteq stored
          /\ subj <= netHead /\ (ongoing # <<>> => phase = "connected")
\* the subjective head is never below the synced top (the domain assumption of C24)
HeadAboveSynced == subj # 0 /\ phase = "connected" => subj >= MaxSynced(Synced)

\* C38 liveness: with honest answers and a connected peer the sampling window up to the head gets stored
WindowStored == \A h \in 1..netHead : InWin(h, WSamp) => h \in stored
HonestFair == /\ WF_vars(TryInit) /\ WF_vars(HeaderSub) /\ WF_vars(FetchNext) /\ WF_vars(BatchOk) /\ WF_vars(Connect)
LiveSpec == Init /\ [][Worker \/ NewBlock \/ Connect]_vars /\ HonestFair
EventuallySynced == <>[](netHead = N => WindowStored)
\* the same with slow sync in force: the syncer waits for the sampler, which is fair too
SampleSome == \E h \in stored \ sampled : MarkSampled(h)
LiveSpecSlow == Init /\ [][Worker \/ NewBlock \/ Connect \/ SampleSome]_vars /\ HonestFair /\ WF_vars(SampleSome)
\* slow sync really holds the syncer back at some point (vacuity guard for the configuration: must be violated)
SlowSyncNeverHolds == ~(phase = "connected" /\ ongoing = <<>> /\ subj # 0 /\ NextBatch # {} /\ SlowSyncHolds(NextBatch))
=============================================================================
