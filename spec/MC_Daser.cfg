CONSTANTS
  Lim = 1
  Extra = 1
  Threshold = 2
  MaxSamples = 2
  WSamp = 3
  N = 3
  W = 2
  MaxNow = 2
INIT Init
NEXT Next
VIEW View
INVARIANTS MarkedOnlyAfterAll MetaCoversOngoing SharesOk StartOk ConcurrencyBound
CHECK_DEADLOCK FALSE
