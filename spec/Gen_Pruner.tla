------------------------------- MODULE Gen_Pruner ------------------------------
(* spec -> impl for C35: every configuration of the Pruner.tla store over heights *)
(* 1..N (each height never synced / pruned / stored / stored with metadata /       *)
(* stored with metadata and sampled) times the daser's policy is printed as one    *)
(* JSON line.  The harness builds exactly that store, blockstore and scripted      *)
(* daser, lets the REAL pruner run until it is idle and records its calls; the     *)
(* recorded run is judged by Trace_Pruner (SafeRemoval at every remove_height).    *)
(* The model's own answer (the set the design removes until nothing more is        *)
(* prunable) travels with the case for the algorithmic comparison (drift).         *)
EXTENDS Pruner, TLC, Json
CONSTANTS N, Pols
VARIABLES c, pol
gvars == <<stored, sampled, pruned, meta, bstore, now, ongoingD, asked, batch, obs, c, pol>>

StoredOf(f) == {h \in 1..N : f[h] >= 2}
GInit == /\ c \in [1..N -> 0..4] /\ pol \in Pols
         /\ stored = StoredOf(c) /\ sampled = {h \in 1..N : c[h] = 4} /\ pruned = {h \in 1..N : c[h] = 1}
         /\ meta = [h \in {x \in 1..N : c[x] >= 3} |-> {4 * h + i : i \in 0..(h % 2)}]
         /\ bstore = UNION {{4 * h + i : i \in 0..(h % 2)} : h \in {x \in 1..N : c[x] >= 3}}
         /\ now = N /\ asked = <<>> /\ batch = <<>> /\ obs = NoObs
         /\ ongoingD = LET uns == StoredOf(c) \ {h \in 1..N : c[h] = 4} IN
                       IF uns = {} \/ pol < 2 THEN {} ELSE IF pol = 2 THEN {MinOf(uns)} ELSE {MaxOf(uns)}
\* the design's pruner with the policy's answers: grant everything it may (pol # 1) or nothing (pol = 1)
GNext == /\ UNCHANGED <<c, pol>>
         /\ \/ ComputeBatch(IF pol = 1 THEN {} ELSE (AfterSampling \ sampled) \ ongoingD) /\ batch' # <<>>
            \/ RemoveNext
Emit == (~ENABLED GNext) => PrintT(ToJson([cfg |-> c, pol |-> pol, left |-> SetToSortSeq(stored, <)]))
=============================================================================
