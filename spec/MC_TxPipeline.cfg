CONSTANT Subs = {1, 2, 3}
CONSTANT MaxSeq = 0
CONSTANT Fuel = 2
CONSTANT UseEst = FALSE
CONSTANT Q0 = 1
INIT MCInit
NEXT HNext
INVARIANTS TypeOK LockOK PropOK QuietAgree SignsExpected
CHECK_DEADLOCK FALSE
