CONSTANT N = 6
INIT Init
NEXT Next
VIEW View
INVARIANTS TypeOK RepCanonical PartitionExists AdmitLemma
CHECK_DEADLOCK FALSE
