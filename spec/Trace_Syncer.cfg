CONSTANTS
  N = 40
  Batch = 4
  WSamp = 10
  WPrune = 1
  AsIsDeviation = FALSE
  EnablePrune = TRUE
  EnableForeign = TRUE
  SlowThr = 1000000
  Strict = TRUE
SPECIFICATION TSpec
INVARIANTS NoRequestBelowOldHeader FetchAllowed StoreOnHonestChain
POSTCONDITION Accepted
CHECK_DEADLOCK FALSE
