CONSTANT NTasks = 1
CONSTANT MaxSteps = 3
CONSTANT Deviation = "none"
INIT Init
NEXT GenNext
INVARIANT JoinOnlyAfterEnd
CHECK_DEADLOCK FALSE
