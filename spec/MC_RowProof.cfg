CONSTANT W = 4
CONSTANT MaxLists = 4
INIT Init
NEXT Next
INVARIANTS HonestAccepted ListedRejected RangesOK SpanNoOverflow
