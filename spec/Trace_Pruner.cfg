CONSTANTS
  WSamp = 10
  WPrune = 5
  MaxBatch = 512
SPECIFICATION TSpec
INVARIANT SafeRemoval
POSTCONDITION Accepted
CHECK_DEADLOCK FALSE
