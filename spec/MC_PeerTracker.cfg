CONSTANT NP = 2
CONSTANT NC = 2
CONSTANT NT = 2
CONSTANT Kinds = {0, 2, 3}
SPECIFICATION Spec
VIEW View
INVARIANTS TypeOK InfoIsRecount TagsAreRecount Shape
PROPERTY GcKeeps
CHECK_DEADLOCK FALSE
