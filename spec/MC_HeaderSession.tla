--------------------------- MODULE MC_HeaderSession --------------------------
EXTENDS HeaderSession, TLC
CONSTANTS MaxL, ZeroLen
\* L = 0 is the as-is deviation of C27 (get_verified_headers_range(from, 0)): allowed in Init
\* only when ZeroLen = TRUE, where RequestsOk is expected to fail.
MCInit == \E len \in (IF ZeroLen THEN {0} ELSE 1..MaxL) : Init0(1, len)
MCSpec == MCInit /\ [][Next]_allvars
\* bounded liveness: with no error responses and no empty prefixes the session finishes
Terminates == <>(st \in {"done", "failed"})
=============================================================================
