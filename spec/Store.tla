-------------------------------- MODULE Store --------------------------------
(***************************************************************************)
(* C19, C20, C21.  The abstract header store.                              *)
(*                                                                         *)
(* A header is a record                                                    *)
(*   [id, h, tag, parent, vs, nvs, t, cid]                                 *)
(* id     - identity of the header object                                   *)
(* tag    - the hash the header advertises (commit.block_id.hash); this is *)
(*          what ExtendedHeader::hash() returns and what the hash index    *)
(*          and the parent link of the successor use                       *)
(* parent - header.last_block_id.hash                                       *)
(* vs/nvs - validators_hash / next_validators_hash                          *)
(* t      - time (seconds), cid - chain id                                  *)
(*                                                                         *)
(* State (node/src/store/in_memory_store.rs InMemoryStoreInner and the     *)
(* redb tables): hdr (headers by height), sampled, pruned, meta.           *)
(* Every operation is one action; `res` is its result code.                *)
(***************************************************************************)
EXTENDS Naturals, FiniteSets, Sequences, Ranges

VARIABLES hdr,      \* function: stored height -> header record
          sampled,  \* set of heights marked sampled
          pruned,   \* set of heights removed from the store
          meta,     \* function: height -> set of CIDs (sampling metadata), domain \subseteq Stored
          res       \* result code of the last operation

svars == <<hdr, sampled, pruned, meta>>
vars  == <<hdr, sampled, pruned, meta, res>>

Stored == DOMAIN hdr
Tags   == {hdr[h].tag : h \in Stored}

\* result codes (StoreError / StoreInsertionError kinds)
ROk == 1  RNotFound == 2  RVerification == 3  RConstraints == 4  RNeighbors == 5  RHashExists == 6
Errors == {RNotFound, RVerification, RConstraints, RNeighbors, RHashExists}

\* ExtendedHeader::verify for adjacent heights (types/src/extended_header.rs)
VerifyAdj(x, y) == /\ y.h = x.h + 1 /\ y.cid = x.cid /\ y.t > x.t
                   /\ y.vs = x.nvs /\ y.parent = x.tag

\* VerifiedExtendedHeaders::try_from: every header verifies as adjacent successor of the previous
Linked(b) == \A i \in 1..(Len(b) - 1) : VerifyAdj(b[i], b[i+1])

Init == hdr = <<>> /\ sampled = {} /\ pruned = {} /\ meta = <<>> /\ res = ROk

Fail(k) == res' = k /\ UNCHANGED svars

Lo(b) == b[1].h
Hi(b) == b[Len(b)].h

(* The insert rules as functions of a store state S = [hdr, sampled, pruned, meta], so that they can be applied  *)
(* to the current state (the actions below) and composed (concurrent inserts must be explained by SOME sequential *)
(* order: Trace_Store's "par" events).                                                                             *)
CurStoreState == [hdr |-> hdr, sampled |-> sampled, pruned |-> pruned, meta |-> meta]
StoredIn(S) == DOMAIN S.hdr
TagsIn(S)   == {S.hdr[h].tag : h \in StoredIn(S)}

(* Which error kinds apply to a batch (evaluated independently where defined). *)
NeighborsBadIn(S, b) ==
    \/ (Lo(b) - 1) \in StoredIn(S) /\ ~VerifyAdj(S.hdr[Lo(b) - 1], b[1])
    \/ (Hi(b) + 1) \in StoredIn(S) /\ ~VerifyAdj(b[Len(b)], S.hdr[Hi(b) + 1])
DupTagIn(S, b) == \E i \in DOMAIN b : \/ b[i].tag \in TagsIn(S)
                                       \/ \E j \in 1..(i-1) : b[j].tag = b[i].tag
FailKindsIn(S, b) ==
    (IF ~Linked(b) THEN {RVerification} ELSE {})
    \cup (IF ~Admit(StoredIn(S), Lo(b), Hi(b)) THEN {RConstraints} ELSE {})
    \cup (IF Admit(StoredIn(S), Lo(b), Hi(b)) /\ NeighborsBadIn(S, b) THEN {RNeighbors} ELSE {})
    \cup (IF DupTagIn(S, b) THEN {RHashExists} ELSE {})

\* The order in which the implementation checks (algorithmic layer)
FirstKindIn(S, b) == CASE ~Linked(b)                           -> RVerification
                       [] ~Admit(StoredIn(S), Lo(b), Hi(b))    -> RConstraints
                       [] NeighborsBadIn(S, b)                 -> RNeighbors
                       [] DupTagIn(S, b)                       -> RHashExists
                       [] OTHER                                -> ROk

\* the state after insert(b): unchanged when the batch is empty or refused
InsertIn(S, b) ==
    IF b = <<>> \/ FirstKindIn(S, b) # ROk THEN S
    ELSE LET rng == Lo(b)..Hi(b) IN
         [hdr     |-> [h \in StoredIn(S) \cup rng |-> IF h \in rng THEN b[h - Lo(b) + 1] ELSE S.hdr[h]],
          sampled |-> S.sampled \ rng,
          pruned  |-> S.pruned \ rng,
          meta    |-> S.meta]

\* the other operations as functions of a state: the state after a successful call, and the result kind
RemoveIn(S, h) == [hdr     |-> [x \in StoredIn(S) \ {h} |-> S.hdr[x]],
                   sampled |-> S.sampled \ {h},
                   pruned  |-> S.pruned \cup {h},
                   meta    |-> [x \in (DOMAIN S.meta) \ {h} |-> S.meta[x]]]
MarkIn(S, h)   == [S EXCEPT !.sampled = @ \cup {h}]
MetaIn(S, h, cs) == [S EXCEPT !.meta = [x \in (DOMAIN S.meta) \cup {h} |->
                        IF x = h THEN (IF h \in DOMAIN S.meta THEN S.meta[h] ELSE {}) \cup cs ELSE S.meta[x]]]
HeightResIn(S, h) == IF h \in StoredIn(S) THEN ROk ELSE RNotFound

NeighborsBad(b) == NeighborsBadIn(CurStoreState, b)
DupTag(b)       == DupTagIn(CurStoreState, b)
FailKinds(b)    == FailKindsIn(CurStoreState, b)
FirstKind(b)    == FirstKindIn(CurStoreState, b)

Insert(b) ==
    IF b = <<>> THEN res' = ROk /\ UNCHANGED svars
    ELSE IF FirstKind(b) # ROk THEN Fail(FirstKind(b))
    ELSE LET S2 == InsertIn(CurStoreState, b) IN
         /\ hdr' = S2.hdr /\ sampled' = S2.sampled /\ pruned' = S2.pruned /\ meta' = S2.meta
         /\ res' = ROk

RemoveHeight(h) ==
    IF h \notin Stored THEN Fail(RNotFound)
    ELSE /\ hdr' = [x \in Stored \ {h} |-> hdr[x]]
         /\ sampled' = sampled \ {h}
         /\ pruned' = pruned \cup {h}
         /\ meta' = [x \in (DOMAIN meta) \ {h} |-> meta[x]]
         /\ res' = ROk

MarkSampled(h) ==
    IF h \notin Stored THEN Fail(RNotFound)
    ELSE sampled' = sampled \cup {h} /\ UNCHANGED <<hdr, pruned, meta>> /\ res' = ROk

UpdateMeta(h, cs) ==
    IF h \notin Stored THEN Fail(RNotFound)
    ELSE /\ meta' = [x \in (DOMAIN meta) \cup {h} |->
                        IF x = h THEN (IF h \in DOMAIN meta THEN meta[h] ELSE {}) \cup cs ELSE meta[x]]
         /\ UNCHANGED <<hdr, sampled, pruned>> /\ res' = ROk

(* ---- queries, as functions of the state ---- *)
QByHeight(h) == IF h \in Stored THEN Some(hdr[h].id) ELSE None
QByHash(tg)  == LET hs == {h \in Stored : hdr[h].tag = tg} IN
                IF hs = {} THEN None ELSE Some(hdr[CHOOSE h \in hs : TRUE].id)
QHead        == IF Stored = {} THEN None ELSE Some(hdr[MaxOf(Stored)].id)
QMeta(h)     == IF h \notin Stored THEN <<RNotFound>>
                ELSE IF h \in DOMAIN meta THEN <<ROk, meta[h]>> ELSE <<ROk>>

(* ---- invariants ---- *)
\* C19 clauses on the index sets
SetsInv == /\ sampled \subseteq Stored /\ pruned \cap Stored = {}
           /\ DOMAIN meta \subseteq Stored
           /\ \A h \in Stored : hdr[h].h = h

\* C21: fork-free hash-linked segments, and the hash index is injective
SegmentsLinked ==
    /\ \A h \in Stored : (h + 1) \in Stored => VerifyAdj(hdr[h], hdr[h+1])
    /\ \A h1, h2 \in Stored : hdr[h1].tag = hdr[h2].tag => h1 = h2

\* C20: a failing operation leaves every observable unchanged
FailedUnchanged == [][res' \in Errors => UNCHANGED svars]_vars
=============================================================================
