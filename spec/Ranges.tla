------------------------------- MODULE Ranges -------------------------------
(***************************************************************************)
(* Sets of block heights and their decomposition into maximal runs.        *)
(* Everything here is defined set-theoretically and is independent of the  *)
(* algorithm in node/src/block_ranges.rs: it is the *meaning* of a         *)
(* BlockRanges value ("a set of heights") that every node-level spec uses. *)
(***************************************************************************)
EXTENDS Naturals, FiniteSets, Sequences, FiniteSetsExt, SequencesExt

MaxOf(S) == CHOOSE x \in S : \A y \in S : y <= x
MinOf(S) == CHOOSE x \in S : \A y \in S : x <= y

\* Option encoding used across the specs: <<>> is None, <<v>> is Some(v).
None      == <<>>
Some(v)   == <<v>>

HeadOpt(S) == IF S = {} THEN None ELSE Some(MaxOf(S))
TailOpt(S) == IF S = {} THEN None ELSE Some(MinOf(S))

\* A valid range (node/src/block_ranges.rs BlockRangeExt::validate)
ValidRange(a, b) == a > 0 /\ a <= b

\* Maximal runs <<lo,hi>> of a finite set of naturals (heights are >= 1)
IsRun(S, a, b) == /\ a <= b /\ (a..b) \subseteq S
                  /\ (a = 0 \/ (a-1) \notin S) /\ (b+1) \notin S
RunStarts(S) == {x \in S : x = 0 \/ (x-1) \notin S}
RunEnds(S)   == {x \in S : (x+1) \notin S}
Runs(S) == {<<a, MinOf({e \in RunEnds(S) : e >= a})>> : a \in RunStarts(S)}
\* (equivalently {r \in S \X S : IsRun(S, r[1], r[2])}; checked in MC_BlockRanges)

\* Runs in ascending order: the canonical representation
RunSeq(S) == SetToSortSeq(Runs(S), LAMBDA p, q : p[1] < q[1])

\* The n highest / lowest elements
HeadN(S, n) == {x \in S : Cardinality({y \in S : y > x}) < n}
TailN(S, n) == {x \in S : Cardinality({y \in S : y < x}) < n}

\* First and last element of every run
Edges(S) == {x \in S : (x = 0 \/ (x-1) \notin S) \/ (x+1) \notin S}

\* Highest element strictly below h / lowest strictly above h
LeftOf(S, h)  == LET L == {x \in S : x < h} IN IF L = {} THEN None ELSE Some(MaxOf(L))
RightOf(S, h) == LET R == {x \in S : x > h} IN IF R = {} THEN None ELSE Some(MinOf(R))

\* Balanced partition relation: (L, m, R) splits S around m with | |L|-|R| | <= 1
AbsDiff(a, b) == IF a >= b THEN a - b ELSE b - a
IsBalancedPartition(S, L, m, R) ==
    /\ m \in S /\ L = {x \in S : x < m} /\ R = {x \in S : x > m}
    /\ AbsDiff(Cardinality(L), Cardinality(R)) <= 1

\* Insertion constraints of the header store (C18), as a predicate on sets.
\*   admitted  <=>  valid /\ disjoint /\ (empty \/ above head \/ touches)
Admit(S, a, b) ==
    /\ ValidRange(a, b)
    /\ (a..b) \cap S = {}
    /\ \/ S = {}
       \/ (S # {} /\ a > MaxOf(S))
       \/ (a-1) \in S
       \/ (b+1) \in S
AdmitFlags(S, a, b) == <<(a-1) \in S, (b+1) \in S>>

\* Sequences of <<lo,hi>> pairs (how the implementation represents a set)
SetOfRanges(rs) == UNION {rs[i][1]..rs[i][2] : i \in DOMAIN rs}
CanonicalRanges(rs) ==
    /\ \A i \in DOMAIN rs : rs[i][1] >= 1 /\ rs[i][1] <= rs[i][2]
    /\ \A i \in DOMAIN rs : i > 1 => rs[i-1][2] + 1 < rs[i][1]

\* Bit mask of a set of heights within 1..30 (JSON transport)
Mask(S) == FoldSet(LAMBDA x, acc : acc + 2^(x-1), 0, S)
=============================================================================
