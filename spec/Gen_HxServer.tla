---------------------------- MODULE Gen_HxServer ---------------------------
(* spec -> impl: every (store, request) pair with the answer the property demands. *)
EXTENDS MC_HxServer, Json
RunSeqOf(S) == LET RECURSIVE F(_)
                   F(T) == IF T = {} THEN <<>>
                           ELSE LET r == CHOOSE x \in T : \A y \in T : x[1] <= y[1]
                                IN <<r>> \o F(T \ {r})
               IN F(S)
VARIABLE hs    \* HistMode: the operations so far with the answers the property demands
ReqRec(r, a) == [op |-> "serve", kind |-> r.kind, origin |-> r.origin, amount |-> r.amount, target |-> r.target,
                 len |-> r.len, st |-> a.st, from |-> a.from, n |-> a.n, lo |-> 0, hi |-> 0]
MutRec(m) == [op |-> m.op, kind |-> "", origin |-> 0, amount |-> 0, target |-> 0, len |-> 0, st |-> "", from |-> 0,
              n |-> 0, lo |-> m.lo, hi |-> m.hi]
GenInit == Init /\ hs = [store0 |-> RunSeqOf(store), ops |-> <<>>]
GenNext ==
    \/ /\ \E r \in Requests : Serve(r)
       /\ hs' = [hs EXCEPT !.ops = Append(@, ReqRec(req', ans'))]
       /\ IF HistMode
          THEN ph' = 3 => PrintT(ToJson([store |-> hs'.store0, ops |-> hs'.ops]))
          ELSE PrintT(ToJson([store |-> RunSeqOf(store), kind |-> req'.kind, origin |-> req'.origin,
                              amount |-> req'.amount, target |-> req'.target, len |-> req'.len,
                              st |-> ans'.st, from |-> ans'.from, n |-> ans'.n]))
    \/ /\ \E m \in Mutations(store) : Mutate(m) /\ hs' = [hs EXCEPT !.ops = Append(@, MutRec(m))]
GenView == <<store, req, ph, hs>>
=============================================================================
