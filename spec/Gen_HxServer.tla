---------------------------- MODULE Gen_HxServer ---------------------------
(* spec -> impl: every (store, request) pair with the answer the property demands. *)
EXTENDS MC_HxServer, Json
RunSeqOf(S) == LET RECURSIVE F(_)
                   F(T) == IF T = {} THEN <<>>
                           ELSE LET r == CHOOSE x \in T : \A y \in T : x[1] <= y[1]
                                IN <<r>> \o F(T \ {r})
               IN F(S)
GenNext == /\ Next
           /\ PrintT(ToJson([store |-> RunSeqOf(store), kind |-> req'.kind, origin |-> req'.origin,
                             amount |-> req'.amount, target |-> req'.target, len |-> req'.len,
                             st |-> ans'.st, from |-> ans'.from, n |-> ans'.n]))
=============================================================================
