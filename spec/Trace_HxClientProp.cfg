CONSTANT Callers = {1, 2, 3, 4, 5, 6, 7, 8}
CONSTANT HdrHeight <- THdrHeight
SPECIFICATION TSpec
POSTCONDITION Accepted
CHECK_DEADLOCK FALSE
