CONSTANT N = 5
INIT GenInit
NEXT GenNext
CHECK_DEADLOCK FALSE
