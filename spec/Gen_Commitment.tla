--------------------------- MODULE Gen_Commitment ---------------------------
EXTENDS Commitment, Json
Emit == IF Boundary(c.n, c.t)
        THEN LET W == Width(c.n, c.t) IN
             PrintT(ToJson([n |-> c.n, t |-> c.t, w |-> W, sizes |-> MMR(c.n, W),
                            lens |-> <<<<LenMin(c.n, 0), LenMax(c.n, 0)>>, <<LenMin(c.n, 1), LenMax(c.n, 1)>>>>,
                            firstcap |-> <<FirstCap(0), FirstCap(1)>>, contcap |-> ContCap,
                            tampers |-> Tampers]))
        ELSE TRUE
=============================================================================
