CONSTANT NP = 8
CONSTANT NC = 3
CONSTANT NT = 3
CONSTANT Kinds = {0, 1, 2, 3}
CONSTANT Strict = TRUE
SPECIFICATION TSpec
INVARIANTS InfoIsRecount TagsAreRecount
POSTCONDITION Accepted
CHECK_DEADLOCK FALSE
