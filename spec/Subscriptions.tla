----------------------------- MODULE Subscriptions ---------------------------
(***************************************************************************)
(* C37.  Header subscriptions (node/src/node/subscriptions.rs              *)
(* BroadcastingStore) as driven by the syncer.                             *)
(*                                                                         *)
(*   stored    - heights in the underlying store                           *)
(*   lastSent  - 0 = not initialised, else last height broadcast           *)
(*   pending   - ranges <<lo,hi>> waiting for the gap below them to close   *)
(*   delivered - sequence of heights broadcast so far                      *)
(*   head0     - the first network head (0 = none yet)                     *)
(*   known     - heights announced above head0 (non-historical inserts and *)
(*               re-initialisation heads): what completeness is about      *)
(***************************************************************************)
EXTENDS Naturals, FiniteSets, Sequences, Ranges

VARIABLES stored, lastSent, pending, delivered, head0, known, res
vars == <<stored, lastSent, pending, delivered, head0, known, res>>

Init == stored = {} /\ lastSent = 0 /\ pending = {} /\ delivered = <<>> /\ head0 = 0 /\ known = {} /\ res = 1

SeqOfRange(lo, hi) == [i \in 1..(hi - lo + 1) |-> lo + i - 1]

\* flush every pending range that has become adjacent (BroadcastingStore::announce_insert's loop)
RECURSIVE Flush(_, _, _)
Flush(ls, pend, acc) ==
    LET next == {p \in pend : p[1] = ls + 1} IN
    IF next = {} THEN <<ls, pend, acc>>
    ELSE LET p == CHOOSE q \in next : TRUE IN
         Flush(p[2], pend \ {p}, acc \o SeqOfRange(p[1], p[2]))

\* Syncer::try_init + init_broadcast: the network head is (already or now) stored, then announced.
\* try_init inserts the head unless it is the store's head already; a refused insert aborts the
\* initialisation (no init_broadcast happens).
InitBroadcast(h) ==
    /\ (h \in stored /\ h = MaxOf(stored)) \/ Admit(stored, h, h)
    /\ stored' = stored \cup {h}
    /\ IF lastSent = 0
       THEN /\ lastSent' = h /\ delivered' = <<h>> /\ head0' = h /\ pending' = pending
            /\ known' = known
       ELSE /\ pending' = pending \cup {<<h, h>>} /\ UNCHANGED <<lastSent, delivered, head0>>
            /\ known' = IF h > head0 THEN known \cup {h} ELSE known
    /\ res' = 1

\* announce_insert(lo..hi); the caller never passes a range that crosses lastSent
AnnounceInsert(lo, hi) ==
    /\ lastSent # 0 /\ lo <= hi
    /\ hi < lastSent \/ lo > lastSent
    /\ IF ~Admit(stored, lo, hi)
       THEN res' = 0 /\ UNCHANGED <<stored, lastSent, pending, delivered, head0, known>>
       ELSE /\ stored' = stored \cup (lo..hi) /\ res' = 1 /\ UNCHANGED head0
            /\ IF lo < lastSent
               THEN UNCHANGED <<lastSent, pending, delivered, known>>      \* historical range
               ELSE LET sendNow == (lastSent + 1 = lo)
                        ls1   == IF sendNow THEN hi ELSE lastSent
                        acc1  == IF sendNow THEN SeqOfRange(lo, hi) ELSE <<>>
                        pend1 == IF sendNow THEN pending ELSE pending \cup {<<lo, hi>>}
                        f     == Flush(ls1, pend1, acc1)
                    IN /\ lastSent' = f[1] /\ pending' = f[2]
                       /\ delivered' = delivered \o f[3]
                       /\ known' = known \cup (lo..hi)

(* ---- C37 as invariants ---- *)
\* strictly increasing consecutive heights, starting at the initial head, each once
Consecutive == \A i \in DOMAIN delivered : delivered[i] = head0 + i - 1
\* only after it was stored
OnlyStored == \A i \in DOMAIN delivered : delivered[i] \in stored
\* lastSent is the last delivered height
LastSentOk == lastSent = (IF delivered = <<>> THEN 0 ELSE delivered[Len(delivered)])
\* how far the announced heights reach without a gap
Reach == LET R == {H \in known \cup {head0} : \A x \in (head0 + 1)..H : x \in known} IN MaxOf(R \cup {head0})
\* completeness: after an accepted non-historical insert everything up to Reach has been delivered
CompleteAfterInsert(lo) == (res = 1 /\ head0 # 0 /\ lo > head0) => lastSent >= Reach
\* never ahead of what was announced
NotAhead == head0 # 0 => lastSent <= Reach
=============================================================================
