INIT Init
NEXT Next
INVARIANTS NsTable NsOrder IdRoundTrip IdSizes CidOneKind
