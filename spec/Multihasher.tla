----------------------------- MODULE Multihasher -----------------------------
(***************************************************************************)
(* C10.  The Shwap multihasher bitswap calls on every received block        *)
(*   ShwapMultihasher::hash(code, block)      (node/src/p2p/shwap.rs)       *)
(* and the extraction of the container for the CID the node asked for       *)
(*   get_block_container(expected_cid, block).                              *)
(*                                                                         *)
(* State: the set of heights whose header is in the header store.  Height   *)
(* h carries the square SqAt[h]; heights 1 and 3 carry the same square (so  *)
(* the same DAH), height 2 another one.  A block on the wire is             *)
(*   (multihash code, CID bytes, container bytes).                          *)
(* Squares are symbolic as in Square.tla: all committed shares are          *)
(* pairwise distinct, so a container is identified by the place it was      *)
(* honestly made for: [kind, pos, h, var] plus a mutation of its bytes.     *)
(* Abstract EDS width 4 (ODS width 2); index 4 is "one past the end".       *)
(* "Verifies" is the symbolic fact (collision-free hashing is the trusted   *)
(* base): an unaltered container made for (kind, pos) of square s verifies  *)
(* exactly against identifiers of that kind and position at heights         *)
(* carrying square s.                                                       *)
(***************************************************************************)
EXTENDS Integers, Sequences, FiniteSets, TLC

CONSTANT Dev        \* "none": the design; "noverify" / "nolookup": a hasher that skips the verification /
                    \* verifies against any stored header (sensitivity runs: must violate CodeMeetsDemand)

VARIABLES stored,   \* heights with a stored header
          out       \* observation: last query and its result

Heights == {1, 2, 3}
SqAt == [h \in Heights |-> IF h = 2 THEN "B" ELSE "A"]

Kinds == {"sample", "row", "rnd"}
\* multihash codes: the three Shwap codes are named by their kind; two foreign ones
Codes == Kinds \cup {"sha256", "zero"}

Idx    == 0..3
IdxOob == 0..4
NsCls  == 0..2     \* 0, 1: namespace of the ODS cell <<row, 0>>, <<row, 1>>; 2: a namespace absent from the row, in between
\* positions are pairs of naturals for every kind: sample <<row, col>>, row <<row, 0>>, rnd <<nscls, row>>
OdsRows == 0..1

\* positions at which containers are honestly made / that identifiers may name
PosOf(kind) == CASE kind = "sample" -> {<<r, c>> : r \in Idx, c \in Idx}
                 [] kind = "row"    -> {<<r, 0>> : r \in Idx}
                 [] kind = "rnd"    -> {<<n, r>> : n \in NsCls, r \in OdsRows}
IdPosOf(kind) == CASE kind = "sample" -> {<<r, c>> : r \in IdxOob, c \in IdxOob}
                   [] kind = "row"    -> {<<r, 0>> : r \in IdxOob}
                   [] kind = "rnd"    -> {<<n, r>> : n \in NsCls, r \in OdsRows}
\* encodings of an honest container: sample with a row / column proof, row as left / right half
VarsOf(kind) == CASE kind = "sample" -> {"rowproof", "colproof"} [] kind = "row" -> {"left", "right"} [] kind = "rnd" -> {"std"}

Id(kind, pos, h) == [kind |-> kind, pos |-> pos, h |-> h]
Cont(kind, pos, h, var, mut) == [kind |-> kind, pos |-> pos, h |-> h, var |-> var, mut |-> mut]

\* mutations of the container bytes: a byte of a share flipped; a byte of a proof node flipped
\* (row: one share of the half dropped); last byte cut; no bytes; unrelated bytes
ContMuts == {"none", "share", "proof", "trunc", "empty", "garbage"}
\* malformations of the CID bytes (made from the CID of the identifier): unrelated bytes; none;
\* last byte cut; another codec; another multihash code (sha2-256) with the same digest; digest one
\* byte longer; height 0 in the identifier
CidMuts == {"none", "garbage", "empty", "trunc", "codec", "mhcode", "size", "height0"}
BlockMuts == {"none", "garbage", "empty"}

Block(code, cidm, id, cont, blockm, want) ==
    [code |-> code, cidm |-> cidm, id |-> id, cont |-> cont, blockm |-> blockm, want |-> want]

(* ------------------------------------------------------------------ the enumerated blocks *)
\* the position of another kind that "corresponds" to a position
Corr(kind, pos, other) ==
    LET r == IF kind = "rnd" THEN pos[2] ELSE pos[1]
        c == IF kind = "sample" THEN pos[2] ELSE 0
    IN CASE other = "sample" -> <<r, c>> [] other = "row" -> <<r, 0>> [] other = "rnd" -> <<0, r % 2>>

Bases == UNION {{[id |-> Id(kd, p, 1), cont |-> Cont(kd, p, 1, v, "none")] : p \in PosOf(kd), v \in VarsOf(kd)} : kd \in Kinds}

BlocksOf(b) ==
    LET id0 == b.id  c0 == b.cont  kd == id0.kind  B0(code, cidm, id, cont, bm) == Block(code, cidm, id, cont, bm, id0) IN
    \* every identifier of the kind (other positions, one past the end, other heights)
       {B0(kd, "none", Id(kd, p, h), c0, "none") : p \in IdPosOf(kd), h \in Heights}
    \* mutated container
    \cup {B0(kd, "none", id0, [c0 EXCEPT !.mut = m], "none") : m \in ContMuts}
    \* every multihash code
    \cup {B0(code, "none", id0, c0, "none") : code \in Codes}
    \* malformed CID, malformed block
    \cup {B0(kd, cm, id0, c0, "none") : cm \in CidMuts}
    \cup {B0(kd, "none", id0, c0, bm) : bm \in BlockMuts}
    \* container of another kind under this identifier; identifier of another kind over this container
    \cup {B0(kd, "none", id0, Cont(ok, Corr(kd, id0.pos, ok), 1, CHOOSE v \in VarsOf(ok) : TRUE, "none"), "none") : ok \in Kinds \ {kd}}
    \cup {B0(kd, "none", Id(ok, Corr(kd, id0.pos, ok), 1), c0, "none") : ok \in Kinds \ {kd}}
    \cup {B0(ok, "none", Id(ok, Corr(kd, id0.pos, ok), 1), c0, "none") : ok \in Kinds \ {kd}}
    \* the same place in the other square: honest there, foreign here
    \cup {B0(kd, "none", Id(kd, id0.pos, h), [c0 EXCEPT !.h = 2], "none") : h \in Heights}
    \cup {B0(kd, "none", Id(kd, id0.pos, h), [c0 EXCEPT !.h = 3], "none") : h \in Heights}

Blocks == UNION {BlocksOf(b) : b \in Bases}

(* ------------------------------------------------------------------ property layer *)
Ok(x)  == <<1, x>>
Err    == <<0>>
IdHash(id) == <<id.kind, id.pos, id.h>>

\* the embedded identifier decodes (as the identifier type the multihash code selects)
IdDecodes(b) == b.blockm = "none" /\ b.cidm = "none" /\ b.code \in Kinds /\ b.id.kind = b.code
\* the container bytes are a well-formed container
ContWellFormed(b) == b.cont.mut \notin {"trunc", "empty", "garbage"}
\* Two containers of different kinds can be the same bytes: a sample with a row proof of an ODS share
\* whose namespace occurs once in its row *is* the row-namespace-data container of that namespace
\* (one share, the single-leaf range proof; both messages put the share in field 1, the proof in
\* field 2 and the row axis is the omitted default of field 3).  In the squares used here every
\* ODS share has a namespace of its own within its row: namespace class c (0, 1) of ODS row r is the
\* namespace of cell <<r, c>>.  Readings(cont) = the containers these bytes are.
Readings(cont) ==
    {cont}
    \cup (IF cont.kind = "sample" /\ cont.var = "rowproof" /\ cont.pos[1] \in OdsRows /\ cont.pos[2] \in OdsRows
          THEN {Cont("rnd", <<cont.pos[2], cont.pos[1]>>, cont.h, "std", cont.mut)} ELSE {})
    \cup (IF cont.kind = "rnd" /\ cont.pos[1] \in OdsRows
          THEN {Cont("sample", <<cont.pos[2], cont.pos[1]>>, cont.h, "rowproof", cont.mut)} ELSE {})
\* sqat: the square committed by the header currently stored at each height (a container's own
\* square is named by the height label it was made from: SqAt[x.h])
VerifiesAsS(sqat, id, x) == x.kind = id.kind /\ x.mut = "none" /\ x.pos = id.pos /\ SqAt[x.h] = sqat[id.h]
VerifiesS(sqat, id, cont) == \E x \in Readings(cont) : VerifiesAsS(sqat, id, x)
VerifiesAs(id, x) == VerifiesAsS(SqAt, id, x)
Verifies(id, cont) == VerifiesS(SqAt, id, cont)

\* st: heights with a stored header, sqat: the square each of them commits to *now*
HashDemandS(sqat, st, b) ==
    IF IdDecodes(b) /\ ContWellFormed(b) /\ b.id.h \in st /\ VerifiesS(sqat, b.id, b.cont)
    THEN Ok(IdHash(b.id)) ELSE Err
HashDemand(st, b) == HashDemandS(SqAt, st, b)

\* get_block_container: the container bytes iff the block decodes and carries exactly the wanted CID
ExtractDemand(b) ==
    IF b.blockm = "none" /\ b.cidm = "none" /\ b.id.kind = b.want.kind /\ b.id = b.want THEN Ok(b.cont) ELSE Err

(* ------------------------------------------------------------------ algorithmic layer *)
MaxOf(S) == IF S = {} THEN 0 ELSE CHOOSE x \in S : \A y \in S : y <= x
\* the checks of `hash` in the order of the code, with the error class reported
HashCode(st, b) ==
    IF b.code \notin Kinds THEN [res |-> Err, cls |-> "unknown-code"]
    ELSE IF b.blockm # "none" THEN [res |-> Err, cls |-> "fatal"]          \* Block::decode / CID read
    ELSE IF b.cidm # "none" THEN [res |-> Err, cls |-> "fatal"]            \* CID read / id try_from
    ELSE IF b.id.kind # b.code THEN [res |-> Err, cls |-> "fatal"]         \* codec / multihash code of the id type
    ELSE IF ~ContWellFormed(b) THEN [res |-> Err, cls |-> "fatal"]         \* container decode
    ELSE IF \A x \in Readings(b.cont) : x.kind # b.id.kind THEN [res |-> Err, cls |-> "fatal"]   \* decode as the other message or verify
    ELSE IF (IF Dev = "nolookup" THEN st = {} ELSE b.id.h \notin st) THEN [res |-> Err, cls |-> "fatal"]   \* header lookup
    ELSE IF Dev # "noverify" /\ ~Verifies(IF Dev = "nolookup" THEN [b.id EXCEPT !.h = MaxOf(st)] ELSE b.id, b.cont)
         THEN [res |-> Err, cls |-> "fatal"]                                \* verify against header.dah
    ELSE [res |-> Ok(IdHash(b.id)), cls |-> "ok"]

(* ------------------------------------------------------------------ behaviour *)
Init == stored = {} /\ out = <<>>
\* the store takes a new head
Insert(h) == h \in Heights /\ h > MaxOf(stored) /\ stored' = stored \cup {h} /\ out' = <<"insert", h>>
Hash(b) == stored' = stored /\ out' = <<"hash", b, HashDemand(stored, b)>>
Next == (\E h \in Heights : Insert(h)) \/ (\E b \in Blocks : Hash(b))

View == stored

\* ---- invariants (quantified over all blocks in every reachable store state)
CodeMeetsDemand == \A b \in Blocks : HashCode(stored, b).res = HashDemand(stored, b)
\* a hash is only ever produced for a stored height, and it is the hash of the embedded identifier
OkOnlyStored == \A b \in Blocks : HashDemand(stored, b) # Err =>
                    b.id.h \in stored /\ HashDemand(stored, b) = Ok(IdHash(b.id)) /\ b.cont.mut = "none"
\* honest blocks for stored headers are hashed
HonestOk == \A b \in Bases : b.id.h \in stored => HashDemand(stored, Block(b.id.kind, "none", b.id, b.cont, "none", b.id)) = Ok(IdHash(b.id))
\* storing more headers never turns a hashed block into an error
Monotone == \A b \in Blocks : \A h \in Heights : HashDemand(stored, b) # Err => HashDemand(stored \cup {h}, b) = HashDemand(stored, b)
\* whatever passes both the multihasher and the extraction for `want` is a container that verifies for `want`
EndToEnd == \A b \in Blocks : (HashDemand(stored, b) # Err /\ ExtractDemand(b) # Err) => Verifies(b.want, b.cont)
=============================================================================
