------------------------------ MODULE Formats -------------------------------
(***************************************************************************)
(* C14 / C15.  Executable reference of two byte formats.                   *)
(*                                                                         *)
(* Namespace (types/src/nmt.rs): 1 version byte + 28 id bytes; legal are   *)
(* version 0 with 18 leading zero id bytes and version 255 with 27 leading *)
(* 0xff id bytes.  Order = lexicographic on the 29 bytes.  Reserved = at   *)
(* most MaxPrimary or at least MinSecondary.                               *)
(*                                                                         *)
(* Shwap identifiers (types/src/{eds,row,sample,row_namespace_data,        *)
(* namespace_data}.rs): big-endian height(8) | row(2) | col(2) | ns(29)    *)
(* slices; a CID is (codec, multihash code, digest = the id bytes).        *)
(* Integers wider than TLC's are never formed: a height is its 8 bytes,    *)
(* "height >= 1" is "not all bytes zero".                                  *)
(*                                                                         *)
(* A case = one input with the verdict / decoded value the statement       *)
(* demands.  Round trips (decode o encode, serde, CID bytes) are executed  *)
(* by the harness on every accepted case.                                  *)
(***************************************************************************)
EXTENDS Naturals, Sequences, FiniteSets, TLC

VARIABLE c

Rep(b, n) == [k \in 1..n |-> b]
Take(s, n) == SubSeq(s, 1, n)
Drop(s, n) == SubSeq(s, n + 1, Len(s))

(* ======================= namespaces (C14) ======================= *)
NsSize == 29
NsValid(b) ==
    /\ Len(b) = NsSize
    /\ \/ b[1] = 0 /\ \A k \in 2..19 : b[k] = 0
       \/ b[1] = 255 /\ \A k \in 2..28 : b[k] = 255

V0(tail)   == <<0>> \o Rep(0, 18) \o tail
V255(last) == Rep(255, 28) \o <<last>>
Tails == {Rep(0, 10), Rep(0, 9) \o <<1>>, Rep(0, 9) \o <<4>>, Rep(0, 9) \o <<254>>, Rep(0, 9) \o <<255>>,
          Rep(0, 8) \o <<1, 0>>, Rep(0, 8) \o <<1, 255>>, <<1>> \o Rep(0, 9), <<128>> \o Rep(0, 9),
          <<0, 1, 2, 3, 4, 5, 6, 7, 8, 9>>, Rep(255, 9) \o <<254>>, Rep(255, 10)}
Lasts == {0, 1, 127, 254, 255}
ValidNs == {V0(t) : t \in Tails} \cup {V255(l) : l \in Lasts}
Bases3 == {V0(Rep(0, 9) \o <<1>>), V0(Rep(255, 10)), V255(0)}

MaxPrimary   == V0(Rep(0, 9) \o <<255>>)
MinSecondary == V255(0)

LexLess(a, b) == \E k \in 1..Len(a) : a[k] < b[k] /\ \A j \in 1..(k - 1) : a[j] = b[j]
LexLeq(a, b)  == a = b \/ LexLess(a, b)
Cmp(a, b)     == IF a = b THEN 1 ELSE IF LexLess(a, b) THEN 0 ELSE 2     \* 0 less, 1 equal, 2 greater
Reserved(a)   == LexLeq(a, MaxPrimary) \/ LexLeq(MinSecondary, a)

\* from_raw: accept exactly the legal 29-byte forms; the value is the bytes
FromRaw(b) == IF NsValid(b) THEN <<1, b>> ELSE <<0, <<>>>>

\* new(version, id): the 28-byte id form, and the version-0 shorthand (<= 10 bytes, right aligned)
New(v, id) ==
    IF Len(id) = 28 THEN FromRaw(<<v>> \o id)
    ELSE IF v = 0 /\ Len(id) <= 10 THEN <<1, <<0>> \o Rep(0, 28 - Len(id)) \o id>>
    ELSE <<0, <<>>>>
\* how strictly the statement pins the answer: 2 = stated, 1 = shorthand of exactly 10 bytes (round trip),
\* 0 = model only (other lengths)
NewStrict(v, id) == IF Len(id) = 28 THEN 2 ELSE IF v = 0 /\ Len(id) = 10 THEN 1 ELSE 0

IdPat(len, pat) == CASE pat = "z" -> Rep(0, len)
                     [] pat = "f" -> Rep(255, len)
                     [] pat = "t" -> IF len = 0 THEN <<>> ELSE Rep(0, len - 1) \o <<7>>
                     [] pat = "h" -> IF len = 0 THEN <<>> ELSE <<9>> \o Rep(0, len - 1)
                     [] pat = "m" -> IF len < 20 THEN Rep(0, len) ELSE Rep(0, 18) \o <<3>> \o Rep(5, len - 19)

NsCases ==
    {[kind |-> "ns_raw", fam |-> "version", bytes |-> [b EXCEPT ![1] = v]] : v \in 0..255, b \in Bases3}
    \cup {[kind |-> "ns_raw", fam |-> "corrupt", bytes |-> [b EXCEPT ![p] = x]] :
            b \in ValidNs, p \in 2..29, x \in {0, 1, 128, 254, 255}}
    \cup {[kind |-> "ns_raw", fam |-> "length", bytes |-> IF l <= 29 THEN Take(b, l) ELSE b \o Rep(pad, l - 29)] :
            b \in Bases3, l \in 0..40, pad \in {0, 255}}
    \cup {[kind |-> "ns_new", fam |-> pat, v |-> v, id |-> IdPat(l, pat)] :
            v \in {0, 1, 254, 255}, l \in 0..40, pat \in {"z", "f", "t", "h", "m"}}
    \cup {[kind |-> "ns_pair", a |-> a, b |-> b] : a \in ValidNs, b \in ValidNs}

(* ======================= Shwap identifiers (C15) ======================= *)
Kinds   == {"eds", "row", "sample", "rnd", "nd"}
HasRow(k) == k \in {"row", "sample", "rnd"}
HasCol(k) == k = "sample"
HasNs(k)  == k \in {"rnd", "nd"}
Size(k)   == 8 + (IF HasRow(k) THEN 2 ELSE 0) + (IF HasCol(k) THEN 2 ELSE 0) + (IF HasNs(k) THEN NsSize ELSE 0)
CidKinds  == {"row", "sample", "rnd"}
Codec(k)  == CASE k = "row" -> 30720 [] k = "sample" -> 30736 [] k = "rnd" -> 30752      \* 0x7800 0x7810 0x7820
MhCode(k) == Codec(k) + 1                                                               \* 0x7801 0x7811 0x7821

ZeroH   == Rep(0, 8)
Heights == {ZeroH, Rep(0, 7) \o <<1>>, Rep(0, 6) \o <<1, 0>>, <<0, 0, 0, 0, 255, 255, 255, 255>>,
            <<0, 0, 0, 1, 0, 0, 0, 0>>, <<128>> \o Rep(0, 7), Rep(255, 7) \o <<254>>, Rep(255, 8)}
U16s    == {<<0, 0>>, <<0, 1>>, <<0, 255>>, <<1, 0>>, <<128, 0>>, <<255, 255>>}
\* boundary namespaces: least, the reserved thresholds and their neighbours, greatest version 0,
\* TAIL_PADDING and PARITY_SHARE (the two greatest)
IdNsEdge == {V0(Rep(0, 10)), MaxPrimary, V0(Rep(0, 8) \o <<1, 0>>), V0(Rep(255, 10)), MinSecondary, V255(1),
             V255(254), V255(255)}
IdNs    == Bases3 \cup IdNsEdge \cup {[V0(Rep(0, 9) \o <<1>>) EXCEPT ![1] = 1],       \* unsupported version
                        [V0(Rep(0, 9) \o <<1>>) EXCEPT ![19] = 1],      \* last prefix byte of version 0
                        [V0(Rep(0, 9) \o <<1>>) EXCEPT ![2] = 1],       \* first prefix byte of version 0
                        [V255(0) EXCEPT ![28] = 254]}                   \* last prefix byte of version 255

NoU16 == <<>>
NoNs  == <<>>
Id(k, h, r, cl, ns) == [h |-> h, r |-> IF HasRow(k) THEN r ELSE NoU16, cl |-> IF HasCol(k) THEN cl ELSE NoU16,
                        ns |-> IF HasNs(k) THEN ns ELSE NoNs]
Enc(k, id) == id.h \o id.r \o id.cl \o id.ns
IdValid(k, id) == id.h # ZeroH /\ (HasNs(k) => NsValid(id.ns))

\* decode: exact length, height >= 1, legal namespace
DecFields(k, b) ==
    LET r0 == 8 + (IF HasRow(k) THEN 2 ELSE 0)
        c0 == r0 + (IF HasCol(k) THEN 2 ELSE 0)
    IN [h |-> Take(b, 8), r |-> SubSeq(b, 9, r0), cl |-> SubSeq(b, r0 + 1, c0), ns |-> Drop(b, c0)]
DecOk(k, b) == Len(b) = Size(k) /\ IdValid(k, DecFields(k, b))

CidOk(t, codec, code, digest) == codec = Codec(t) /\ code = MhCode(t) /\ DecOk(t, digest)

AllIds(k) == {Id(k, h, r, cl, ns) : h \in Heights, r \in (IF HasRow(k) THEN U16s ELSE {NoU16}),
                                    cl \in (IF HasCol(k) THEN U16s ELSE {NoU16}), ns \in (IF HasNs(k) THEN IdNs ELSE {NoNs})}
SomeValid(k) == Id(k, Rep(0, 6) \o <<1, 0>>, <<0, 1>>, <<1, 0>>, V0(Rep(0, 9) \o <<1>>))

IdCases ==
    UNION {{[kind |-> "id_dec", fam |-> "fields", k |-> k, bytes |-> Enc(k, id)] : id \in AllIds(k)} : k \in Kinds}
    \cup {[kind |-> "id_dec", fam |-> "length", k |-> k, bytes |-> Enc(k2, SomeValid(k2))] : k \in Kinds, k2 \in Kinds}
    \cup UNION {{[kind |-> "id_dec", fam |-> "length", k |-> k, bytes |-> Take(Enc(k, SomeValid(k)), Size(k) - 1)],
                 [kind |-> "id_dec", fam |-> "length", k |-> k, bytes |-> Enc(k, SomeValid(k)) \o <<0>>],
                 [kind |-> "id_dec", fam |-> "length", k |-> k, bytes |-> <<>>]} : k \in Kinds}
    \cup {[kind |-> "id_cid", fam |-> "confusion", k |-> t, codec |-> cd, code |-> mh, bytes |-> Enc(k3, SomeValid(k3))] :
            t \in CidKinds, cd \in {Codec(x) : x \in CidKinds} \cup {85, 30465},
            mh \in {MhCode(x) : x \in CidKinds} \cup {18, 30464}, k3 \in Kinds}
    \cup UNION {{[kind |-> "id_cid", fam |-> "fields", k |-> t, codec |-> Codec(t), code |-> MhCode(t), bytes |-> Enc(t, id)] :
                    id \in {x \in AllIds(t) : x.r \in {NoU16, <<0, 1>>, <<255, 255>>} /\ x.cl \in {NoU16, <<0, 0>>, <<255, 255>>}}}
                : t \in CidKinds}

Cases == NsCases \cup IdCases
Init == c \in Cases
Next == UNCHANGED c

(* ======================= invariants ======================= *)
\* every base namespace is legal; a single changed byte makes it illegal exactly when it touches
\* the version or the prefix
NsTable ==
    /\ c.kind = "ns_raw" /\ c.fam = "version" =>
         (FromRaw(c.bytes)[1] = 1 <=> (c.bytes[1] = 0 /\ \A k \in 2..19 : c.bytes[k] = 0) \/ (c.bytes[1] = 255 /\ \A k \in 2..28 : c.bytes[k] = 255))
    /\ c.kind = "ns_raw" /\ c.fam = "length" => (FromRaw(c.bytes)[1] = 1 => Len(c.bytes) = 29)
    /\ c.kind = "ns_raw" /\ FromRaw(c.bytes)[1] = 1 => c.bytes[1] \in {0, 255}
    /\ c.kind = "ns_new" /\ New(c.v, c.id)[1] = 1 => NsValid(New(c.v, c.id)[2])
\* lexicographic order is a total order compatible with the version byte; reserved namespaces are the two ends
NsOrder ==
    c.kind = "ns_pair" =>
        /\ Cmp(c.a, c.b) = 2 - Cmp(c.b, c.a)
        /\ (c.a[1] < c.b[1] => Cmp(c.a, c.b) = 0)
        /\ (Reserved(c.a) /\ ~Reserved(c.b) /\ c.a[1] = 0 => Cmp(c.a, c.b) = 0)
        /\ (c.a[1] = 255 => Reserved(c.a))
        /\ (c.a[1] = 0 => (Reserved(c.a) <=> \A k \in 20..28 : c.a[k] = 0))
\* identifiers: encode / decode are mutually inverse on valid ids, sizes are as documented
IdRoundTrip ==
    c.kind = "id_dec" /\ c.fam = "fields" =>
        LET id == DecFields(c.k, c.bytes) IN
        /\ Len(c.bytes) = Size(c.k)
        /\ Enc(c.k, id) = c.bytes
        /\ (DecOk(c.k, c.bytes) <=> IdValid(c.k, id))
IdSizes == Size("eds") = 8 /\ Size("row") = 10 /\ Size("sample") = 12 /\ Size("rnd") = 39 /\ Size("nd") = 37
\* a CID is accepted as at most one kind
CidOneKind ==
    c.kind = "id_cid" => Cardinality({t \in CidKinds : CidOk(t, c.codec, c.code, c.bytes)}) <= 1
=============================================================================
