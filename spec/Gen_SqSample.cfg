CONSTANT K = 2
CONSTANT PosCheck = TRUE
CONSTANT NsByIndex = TRUE
INIT Init
NEXT GenNext
CHECK_DEADLOCK FALSE
