------------------------------ MODULE SqSample ------------------------------
(***************************************************************************)
(* C04.  Case space of sample verification over the symbolic square of      *)
(* Square.tla: one TLC transition = one (id, sample) pair presented to      *)
(* Sample::decode + Sample::verify.                                         *)
(*   Honest     the honest sample of every coordinate, both proof axes      *)
(*   Recombine  any committed share (or an altered one) x any honest proof  *)
(*              x any requested id x either claimed proof axis              *)
(*   Alter      right share or the share the proof belongs to, proof of the *)
(*              selected line, with altered range (start, len) / siblings   *)
(* SampleSound: the design (SampleCode) gives the verdict the property      *)
(* demands (SampleDemand) on every case.                                    *)
(***************************************************************************)
EXTENDS Square

VARIABLE kase
NoCase == [cls |-> "init"]

MkCase(cls, id, share, sax, proof, start, len, sm) ==
    [cls |-> cls, id |-> id, share |-> share, sax |-> sax, proof |-> proof, start |-> start, len |-> len, sm |-> sm]

Init == kase = NoCase

Honest ==
    /\ kase = NoCase     \* every case is one step from the initial state
    /\ \E id \in Ids, sax \in Axes :
          LET pf == ProofOf(sax, id.r, id.c) IN
          kase' = MkCase("honest", id, CellT(id.r, id.c), sax, pf, pf.pos, 1, "none")

Recombine ==
    /\ kase = NoCase
    /\ \E id \in Ids, sax \in Axes, pf \in Proofs :
          \E sh \in {CellT(r, c) : r \in Idx, c \in Idx} \cup {AltT(id.r, id.c)} :
             kase' = MkCase("recombine", id, sh, sax, pf, pf.pos, 1, "none")

Alter ==
    /\ kase = NoCase
    /\ \E id \in Ids, sax \in Axes, ppos \in Idx, start \in 0..W, len \in 0..2, sm \in SibMuts :
        LET line == IF sax = "row" THEN id.r ELSE id.c
            pf   == [ax |-> sax, line |-> line, pos |-> ppos]
            own  == CellT(RowOf(sax, line, ppos), ColOf(sax, line, ppos))
        IN  /\ start # ppos \/ len # 1 \/ sm # "none"
            /\ \E sh \in {CellT(id.r, id.c), own} :
                  kase' = MkCase("alter", id, sh, sax, pf, start, len, sm)

Next == Honest \/ Recombine \/ Alter

\* ---- properties of the design
SampleSound == kase.cls # "init" => Conforms(SampleDemand(kase), Verdict(SampleCode(kase)))
\* the statement itself, spelled out
AcceptOnlyRequested == (kase.cls # "init" /\ SampleCode(kase)) => kase.share = CellT(kase.id.r, kase.id.c)
HonestAccepted      == (kase.cls = "honest") => SampleCode(kase)
=============================================================================
