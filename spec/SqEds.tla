-------------------------------- MODULE SqEds --------------------------------
(***************************************************************************)
(* C08.  What the model contributes for the extended data square:           *)
(*  (1) the shape-validation decision table of ExtendedDataSquare::new /    *)
(*      from_ods: a share list is accepted iff it forms a square whose      *)
(*      extended width is a power of two within [MinW, MaxW], every share   *)
(*      has the share size and namespaces are sorted along rows and         *)
(*      columns (ShapeDemand), against the order of checks of the code      *)
(*      (ShapeCode);                                                        *)
(*  (2) the enumeration of erasure patterns of an axis: every subset of     *)
(*      the 2K positions; an MDS code recovers the axis from any subset of  *)
(*      at least K positions (axiom here, checked on the real codec by the  *)
(*      replay).                                                            *)
(***************************************************************************)
EXTENDS Naturals, FiniteSets, Sequences, TLC

CONSTANTS MaxW,     \* maximum extended square width of the app version (256 or 1024 in lumina)
          MinW,     \* minimum extended square width (2)
          K         \* ODS width for the erasure patterns

VARIABLE kase

Pow2s == {1, 2, 4, 8, 16, 32, 64, 128, 256, 512, 1024, 2048}
IsPow2(n) == n \in Pow2s
\* integer square root
ISqrt(n) == CHOOSE r \in 0..2100 : r * r <= n /\ (r + 1) * (r + 1) > n

\* candidate widths (of the list handed to the constructor: extended width for `new`, original
\* width for `from_ods`)
WidthCands == {0, 1, 2, 3, 4, 5, 6, 7, 8, 12, 16, MaxW \div 4, MaxW \div 2, MaxW \div 2 + 1, MaxW, 2 * MaxW}
Deltas     == {0, 1, 2}          \* count = wd*wd + delta - 1  (so -1, 0, +1)
SizeDefects  == {"none", "short", "long", "empty"}
OrderDefects == {"none", "row", "col"}
\* an order defect is one inversion: along a row / column `oline` of the original quadrant the namespace
\* at position opos + 1 is smaller than the one at opos (every line, every position for ODS width <= 8)
OLines == 0..7
OPoss  == 0..6

Count(wd, d) == IF wd * wd + d >= 1 THEN wd * wd + d - 1 ELSE 0

\* extended width the list would give
ExtW(api, wd) == IF api = "new" THEN wd ELSE 2 * wd

\* ---- property layer: the statement
ShapeDemand(s) ==
    LET n == Count(s.wd, s.d) IN
    IF /\ \E w \in 1..2100 : /\ n = w * w                      \* square
                               /\ IsPow2(ExtW(s.api, w))         \* power of two
                               /\ ExtW(s.api, w) >= MinW /\ ExtW(s.api, w) <= MaxW
       /\ s.size = "none" /\ s.order = "none"
    THEN "accept" ELSE "reject"

\* ---- algorithmic layer: the checks in the order of eds.rs
NewCode(n, size, order) ==
    IF n < MinW * MinW THEN "reject"
    ELSE IF n > MaxW * MaxW THEN "reject"
    ELSE LET w == ISqrt(n) IN
         IF w * w # n THEN "reject"
         ELSE IF ~IsPow2(w) THEN "reject"
         ELSE IF size # "none" \/ order # "none" THEN "reject" ELSE "accept"
ShapeCode(s) ==
    LET n == Count(s.wd, s.d) IN
    IF s.api = "new" THEN NewCode(n, s.size, s.order)
    ELSE LET k == ISqrt(n) IN
         IF k * k # n THEN "reject"
         ELSE IF s.size # "none" THEN "reject"      \* leopard refuses shards of unequal / zero size
         ELSE NewCode(4 * n, s.size, s.order)

\* a defect needs a share to sit on; an order defect needs two data shares in a line
Applicable(s) ==
    LET n == Count(s.wd, s.d)
        odsw == IF s.api = "new" THEN s.wd \div 2 ELSE s.wd IN
    /\ s.size # "none" => n >= 1
    /\ s.order # "none" => (odsw >= 2 /\ s.d = 1 /\ s.oline < odsw /\ s.opos < odsw - 1
                             /\ (odsw > 8 => (s.oline = 0 /\ s.opos \in {0, 1})))
    /\ s.order = "none" => (s.oline = 0 /\ s.opos = 0)

Shapes == {s \in [api : {"new", "from_ods"}, wd : WidthCands, d : Deltas, size : SizeDefects, order : OrderDefects,
                  oline : OLines, opos : OPoss] :
             Applicable(s) /\ ~(s.size # "none" /\ s.order # "none")}

\* ---- erasure patterns
Pos == 0..(2 * K - 1)
Patterns == SUBSET Pos
Recovers(P) == Cardinality(P) >= K          \* MDS axiom
ErasureDemand(P) == IF Recovers(P) THEN "recovers" ELSE "either"

Init == kase = [cls |-> "init"]
Shape   == kase.cls = "init" /\ \E s \in Shapes : kase' = [cls |-> "shape", s |-> s]
Erasure == kase.cls = "init" /\ \E P \in Patterns : kase' = [cls |-> "erasure", P |-> P]
Next == Shape \/ Erasure

ShapeSound == kase.cls = "shape" => ShapeCode(kase.s) = ShapeDemand(kase.s)
\* accepted extended widths are exactly the powers of two in range
AcceptedWidths == kase.cls = "shape" /\ ShapeCode(kase.s) = "accept"
                    => LET w == ISqrt(Count(kase.s.wd, kase.s.d)) IN
                       (w * w = Count(kase.s.wd, kase.s.d) /\ IsPow2(ExtW(kase.s.api, w)) /\ ExtW(kase.s.api, w) \in MinW..MaxW)
HalfRecovers == kase.cls = "erasure" /\ Cardinality(kase.P) = K => Recovers(kase.P)
=============================================================================
