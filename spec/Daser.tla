--------------------------------- MODULE Daser --------------------------------
(***************************************************************************)
(* C33, C34.  The data availability sampler (node/src/daser.rs) with the   *)
(* store, the network answering sample requests, and the pruner's          *)
(* messages.                                                               *)
(*                                                                         *)
(* Heights 1..N; header h has time h, the clock is `now`; a block is in    *)
(* the sampling window iff now - h < WSamp.  Width(h) is the extended      *)
(* square width of block h.                                                *)
(***************************************************************************)
EXTENDS Naturals, FiniteSets, Sequences, Ranges

CONSTANTS Lim,         \* concurrency_limit
          Extra,       \* additional_headersub_concurrency
          Threshold,   \* PRUNER_THRESHOLD (512)
          MaxSamples,  \* MAX_SAMPLES_NEEDED (16)
          WSamp

VARIABLES stored, sampledS, meta,          \* store: stored heights, sampled marks, sampling metadata (h -> set of shares)
          width,                            \* h -> square width (for stored heights ever inserted)
          now,
          peers, phase,                     \* "connecting" | "connected"
          queue, ongoing, timedOut, promised, headH, hiPrunable, numPrunable,
          blk,                              \* h -> [shares, ok, to] for ongoing h
          obs                               \* observation of the last step (for the monitors)

dvars == <<stored, sampledS, meta, width, now, peers, phase, queue, ongoing, timedOut, promised, headH,
           hiPrunable, numPrunable, blk, obs>>

InWin(h) == now - h < WSamp
NoObs == [kind |-> "none"]

Init == /\ stored = {} /\ sampledS = {} /\ meta = <<>> /\ width = <<>> /\ now = 1
        /\ peers = 0 /\ phase = "connecting"
        /\ queue = {} /\ ongoing = {} /\ timedOut = {} /\ promised = {} /\ headH = 0
        /\ hiPrunable = 0 /\ numPrunable = 0 /\ blk = <<>> /\ obs = NoObs

StoreHead == IF stored = {} THEN 0 ELSE MaxOf(stored)

\* update_queue
QueueNow(st, sm) == (((st \ sm) \ timedOut) \ ongoing) \ promised
UpdateQueueTo(st, sm) == headH' = (IF st = {} THEN 0 ELSE MaxOf(st)) /\ queue' = QueueNow(st, sm)

\* all shares of a square, and how many are sampled
AllShares(w) == (0..(w-1)) \X (0..(w-1))
NumSamples(w) == IF w * w <= MaxSamples THEN w * w ELSE MaxSamples

(* ---- environment: store ---- *)
\* a header is inserted (by the syncer).  A change of the store head wakes wait_new_head.
Insert(h, w) ==
    /\ h \notin stored
    /\ stored' = stored \cup {h} /\ width' = [x \in (DOMAIN width) \cup {h} |-> IF x = h THEN w ELSE width[x]]
    \* Store::wait_new_head: the pending future remembers the head it saw when it was first polled (= headH,
    \* the head at the last queue update) and is woken by insertions only; it returns when the head differs
    /\ IF phase = "connected" /\ (IF stored' = {} THEN 0 ELSE MaxOf(stored')) # headH
       THEN UpdateQueueTo(stored', sampledS) ELSE UNCHANGED <<queue, headH>>
    /\ obs' = NoObs
    /\ UNCHANGED <<sampledS, meta, now, peers, phase, ongoing, timedOut, promised, hiPrunable, numPrunable, blk>>

\* the pruner removes a header: never one whose sampling is in progress (it asks WantToPrune first,
\* which is refused for ongoing blocks; sampled blocks are not ongoing)
RemoveH(h) ==
    /\ h \in stored /\ h \notin ongoing
    /\ h \in promised \/ h \in sampledS
    /\ stored' = stored \ {h} /\ sampledS' = sampledS \ {h}
    /\ meta' = [x \in (DOMAIN meta) \ {h} |-> meta[x]]
    \* a removal wakes nobody: even if the head changes the queue is rebuilt only at the next insertion
    /\ UNCHANGED <<queue, headH>>
    /\ obs' = NoObs
    /\ UNCHANGED <<width, now, peers, phase, ongoing, timedOut, promised, hiPrunable, numPrunable, blk>>

(* ---- environment: time ---- *)
\* the clock moves: blocks leave the sampling window while they wait in the queue
Tick == /\ now' = now + 1 /\ obs' = NoObs
        /\ UNCHANGED <<stored, sampledS, meta, width, peers, phase, queue, ongoing, timedOut, promised, headH, hiPrunable, numPrunable, blk>>

(* ---- environment: peers ---- *)
Connect ==
    /\ peers = 0 /\ peers' = 1
    \* connecting_event_loop returns, connected_event_loop starts with update_queue
    /\ phase' = "connected" /\ UpdateQueueTo(stored, sampledS)
    /\ obs' = NoObs
    /\ UNCHANGED <<stored, sampledS, meta, width, now, ongoing, timedOut, promised, hiPrunable, numPrunable, blk>>

Disconnect ==
    /\ peers = 1 /\ peers' = 0 /\ phase' = "connecting"
    /\ queue' = {} /\ ongoing' = {} /\ timedOut' = {} /\ headH' = 0 /\ blk' = <<>>
    /\ obs' = NoObs
    /\ UNCHANGED <<stored, sampledS, meta, width, now, promised, hiPrunable, numPrunable>>

(* ---- pruner messages ---- *)
WantToPrune(h) ==
    /\ IF h \in ongoing
       THEN UNCHANGED <<queue, promised>> /\ obs' = [kind |-> "want", h |-> h, granted |-> FALSE]
       ELSE queue' = queue \ {h} /\ promised' = promised \cup {h} /\ obs' = [kind |-> "want", h |-> h, granted |-> TRUE]
    /\ UNCHANGED <<stored, sampledS, meta, width, now, peers, phase, ongoing, timedOut, headH, hiPrunable, numPrunable, blk>>
SetHiPrunable(v) == /\ hiPrunable' = v /\ obs' = NoObs
                    /\ UNCHANGED <<stored, sampledS, meta, width, now, peers, phase, queue, ongoing, timedOut, promised, headH, numPrunable, blk>>
SetNumPrunable(v) == /\ numPrunable' = v /\ obs' = NoObs
                     /\ UNCHANGED <<stored, sampledS, meta, width, now, peers, phase, queue, ongoing, timedOut, promised, headH, hiPrunable, blk>>

(* ---- the worker ---- *)
\* schedule_next_sample_block for the newest queued block, choosing `shares`
LimitFor(h) == IF h <= hiPrunable /\ numPrunable >= Threshold THEN 0
               ELSE IF h = headH THEN Lim + Extra ELSE Lim
Schedulable(h) == /\ phase = "connected" /\ queue # {} /\ h = MaxOf(queue)
                  /\ Cardinality(ongoing) < LimitFor(h)
                  /\ h \in stored /\ InWin(h)
Schedule(h, shares) ==
    /\ Schedulable(h)
    /\ shares \subseteq AllShares(width[h]) /\ Cardinality(shares) = NumSamples(width[h])
    /\ queue' = queue \ {h} /\ ongoing' = ongoing \cup {h}
    /\ meta' = [x \in (DOMAIN meta) \cup {h} |-> IF x = h THEN (IF h \in DOMAIN meta THEN meta[h] ELSE {}) \cup shares ELSE meta[x]]
    /\ blk' = [x \in (DOMAIN blk) \cup {h} |-> IF x = h THEN [shares |-> shares, ok |-> {}, to |-> {}] ELSE blk[x]]
    /\ obs' = [kind |-> "start", h |-> h, before |-> Cardinality(ongoing), limit |-> LimitFor(h),
               \* the known (as of the last queue update) stored heights that are not sampled, in
               \* progress, promised to the pruner or timed out, inside the window
               cands |-> {x \in queue : InWin(x)}, shares |-> shares]
    /\ UNCHANGED <<stored, sampledS, width, now, peers, phase, timedOut, promised, headH, hiPrunable, numPrunable>>

\* one sample of an ongoing block is answered / times out
ShareOk(h, s) ==
    /\ h \in ongoing /\ s \in blk[h].shares \ (blk[h].ok \cup blk[h].to)
    /\ blk' = [blk EXCEPT ![h].ok = @ \cup {s}] /\ obs' = NoObs
    /\ UNCHANGED <<stored, sampledS, meta, width, now, peers, phase, queue, ongoing, timedOut, promised, headH, hiPrunable, numPrunable>>
ShareTimeout(h, s) ==
    /\ h \in ongoing /\ s \in blk[h].shares \ (blk[h].ok \cup blk[h].to)
    /\ blk' = [blk EXCEPT ![h].to = @ \cup {s}] /\ obs' = NoObs
    /\ UNCHANGED <<stored, sampledS, meta, width, now, peers, phase, queue, ongoing, timedOut, promised, headH, hiPrunable, numPrunable>>

\* a malformed answer: the share counts as not retrieved (the worker stops with a fatal error; at the
\* very least the block can never be marked sampled)
ShareBad(h, s) ==
    /\ h \in ongoing /\ s \in blk[h].shares \ (blk[h].ok \cup blk[h].to)
    /\ blk' = [blk EXCEPT ![h].to = @ \cup {s}] /\ obs' = NoObs
    /\ UNCHANGED <<stored, sampledS, meta, width, now, peers, phase, queue, ongoing, timedOut, promised, headH, hiPrunable, numPrunable>>

\* the block's future completes: marked sampled unless a share timed out
Complete(h) ==
    /\ h \in ongoing /\ blk[h].ok \cup blk[h].to = blk[h].shares
    /\ IF blk[h].to = {}
       THEN sampledS' = sampledS \cup {h} /\ UNCHANGED timedOut
       ELSE timedOut' = timedOut \cup {h} /\ UNCHANGED sampledS
    /\ ongoing' = ongoing \ {h} /\ blk' = [x \in (DOMAIN blk) \ {h} |-> blk[x]]
    /\ obs' = [kind |-> "complete", h |-> h, marked |-> (blk[h].to = {}), ok |-> blk[h].ok, shares |-> blk[h].shares]
    /\ UNCHANGED <<stored, meta, width, now, peers, phase, queue, promised, headH, hiPrunable, numPrunable>>

(* ---- C33 / C34 as properties of a step ---- *)
\* C33: marked sampled only after every chosen share was retrieved
MarkedOnlyAfterAll == obs.kind = "complete" /\ obs.marked => obs.ok = obs.shares
\* C33: metadata holds every requested share before/while requesting (set by Schedule itself)
MetaCoversOngoing == \A h \in ongoing : h \in DOMAIN meta /\ blk[h].shares \subseteq meta[h]
\* C33: shares distinct (a set), inside the square, min(w^2, MaxSamples) many
SharesOk == \A h \in ongoing : /\ blk[h].shares \subseteq AllShares(width[h])
                               /\ Cardinality(blk[h].shares) = NumSamples(width[h])
\* C34: concurrency and recency at every start
StartOk == obs.kind = "start" =>
    /\ obs.before < obs.limit
    /\ obs.limit <= (IF obs.h = StoreHead \/ obs.h = headH THEN Lim + Extra ELSE Lim)
    /\ obs.h = MaxOf(obs.cands)                      \* the highest eligible known height
    /\ InWin(obs.h)
    /\ ~(obs.h <= hiPrunable /\ numPrunable >= Threshold)
ConcurrencyBound == Cardinality(ongoing) <= Lim + Extra
SampledWithinStored == sampledS \subseteq stored
=============================================================================
