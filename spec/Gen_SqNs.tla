------------------------------- MODULE Gen_SqNs ------------------------------
(* spec -> impl: every namespace-data construction with the demanded verdict, the design's prediction
   and the brute-force scan the square's own output must equal. *)
EXTENDS SqNs, Json
EntJ(e) == [shares |-> e.shares, kind |-> e.kind, prow |-> e.prow, lo |-> e.lo, hi |-> e.hi, dl |-> e.dl, dh |-> e.dh,
            n |-> Len(e.shares), alt |-> (Len(e.shares) > 0 /\ e.shares[1][1] = "alt")]
ScanJ(q, t) == [j \in 1..Len(RowsFor(q, t)) |->
                  LET cs == ColsOf(q, RowsFor(q, t)[j], t) IN IF cs = {} THEN <<0, 0>> ELSE <<MinOf(cs), MaxOf(cs) + 1>>]
OutS(k) == [k |-> K, cls |-> k.cls, mut |-> k.mut, q |-> k.q, t |-> k.t, row |-> k.row, e |-> EntJ(k.e),
            covered |-> Covers(k.q, k.row, k.t),
            demand |-> SingleDemand(k.q, k.e, k.row, k.t), predict |-> Verdict(RowVerify(k.q, k.e, k.row, k.t))]
Out(k) == IF k.cls = "single" THEN OutS(k) ELSE
          [k |-> K, cls |-> k.cls, mut |-> k.mut, q |-> k.q, t |-> k.t, rows |-> RowsFor(k.q, k.t),
           scan |-> ScanJ(k.q, k.t), es |-> [j \in 1..Len(k.es) |-> EntJ(k.es[j])],
           demand |-> NsDemand(k.q, k.t, k.es), predict |-> Verdict(NsCode(k.q, k.t, k.es))]
GenNext == Next /\ PrintT(ToJson(Out(kase')))
=============================================================================
