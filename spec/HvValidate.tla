------------------------------ MODULE HvValidate ------------------------------
(***************************************************************************)
(* C01 -- header validation binds signatures, validator set and DAH.       *)
(*                                                                         *)
(* A symbolic extended header is [hdr, commit, vals, dah]; the block hash  *)
(* is the header record itself, validators_hash is the validator sequence, *)
(* data_hash is the DAH record (perfect hashes).  An honest header is      *)
(* built from a configuration (validator powers, the role of each          *)
(* validator in the commit, app version, square width); Mut applies one    *)
(* single-field mutation of the families the property names.               *)
(*                                                                         *)
(* Property layer : IdealValidate -- every part is bound (every entry of   *)
(*                  the commit is checked, including its address).         *)
(*                  verdict = MustAccept for the honest header, MustReject *)
(*                  for every mutation the ideal validator rejects.        *)
(* Algorithm layer: AlgValidate -- ExtendedHeader::validate as written     *)
(*                  (light commit verification: stops at quorum, skips nil *)
(*                  votes, never compares addresses).                      *)
(***************************************************************************)
EXTENDS HeaderVerify, TLC

CONSTANTS MaxNStruct,      \* validator-set sizes 1..MaxNStruct for the structural mutation families
          MaxNSig,         \* validator-set sizes 1..MaxNSig for the commit-entry mutation families
          Palette,         \* voting powers
          VW               \* app version / square width pairs (encoded v * 10000 + w) for the structural families

VARIABLES phase, out
vars == <<phase, out>>

H0 == 5
CH == 1
RD == 0
TS(i) == 10 + i
Fresh == 90
BLOCK_PROTOCOL == 11
MaxWidth(v) == IF v >= 6 THEN 1024 ELSE 256
Versions == 1..7

HdrFields == {"version_block", "version_app", "chain_id", "height", "time", "last_block_hash",
              "last_block_parts", "last_commit_hash", "data_hash", "validators_hash",
              "next_validators_hash", "consensus_hash", "app_hash", "last_results_hash",
              "evidence_hash", "proposer_address"}

BlockId(hash, psh) == [nil |-> FALSE, hash |-> hash, psh |-> psh]
NilOf(bid) == [bid EXCEPT !.nil = TRUE]
Garbage(bid) == Sig(0, Msg(0, 0, 0, bid, 0))

---------------------------------------------------------------------------
(* honest header of a configuration *)

Vals(n, pw) == [i \in 1..n |-> Val(i, pw[i])]
Dah(w) == [rows |-> [i \in 1..w |-> 100 + i], cols |-> [i \in 1..w |-> 200 + i]]

Hdr(n, pw, v, w) ==
    [version_block |-> BLOCK_PROTOCOL, version_app |-> v, chain_id |-> CH, height |-> H0, time |-> 50,
     last_block_hash |-> 7, last_block_parts |-> 8, last_commit_hash |-> 9,
     data_hash |-> Dah(w), validators_hash |-> Vals(n, pw), next_validators_hash |-> Vals(n, pw),
     consensus_hash |-> 13, app_hash |-> 14, last_results_hash |-> 15, evidence_hash |-> 16,
     proposer_address |-> 1]

HonestEntry(i, role, bid) ==
    CASE role = "absent" -> [flag |-> "absent", addr |-> 0, ts |-> 0, sig |-> Sig(-1, Msg(0, 0, 0, bid, 0))]
      [] role = "nil"    -> [flag |-> "nil", addr |-> i, ts |-> TS(i), sig |-> Sig(i, Msg(CH, H0, RD, NilOf(bid), TS(i)))]
      [] role = "commit" -> [flag |-> "commit", addr |-> i, ts |-> TS(i), sig |-> Sig(i, Msg(CH, H0, RD, bid, TS(i)))]

Honest(n, pw, roles, v, w) ==
    LET hdr == Hdr(n, pw, v, w)
        bid == BlockId(hdr, 20)
    IN [hdr |-> hdr, vals |-> Vals(n, pw), dah |-> Dah(w),
        commit |-> [h |-> H0, round |-> RD, bid |-> bid,
                    sigs |-> [i \in 1..n |-> HonestEntry(i, roles[i], bid)]]]

CommitPower(n, pw, roles) == HvSum([i \in 1..n |-> IF roles[i] = "commit" THEN pw[i] ELSE 0])
\* "produced and signed by a validator set holding the voting power"
HasQuorum(n, pw, roles) == 3 * CommitPower(n, pw, roles) > 2 * HvSum([i \in 1..n |-> pw[i]])
\* canonical order of a tendermint validator set: power descending (then address ascending)
Sorted(n, pw) == \A i \in 1..(n - 1) : pw[i] >= pw[i + 1]

---------------------------------------------------------------------------
(* validation *)

EntryExpect(eh, i) ==
    LET e == eh.commit.sigs[i]
        c == eh.commit
    IN Msg(eh.hdr.chain_id, eh.hdr.height, c.round, IF e.flag = "nil" THEN NilOf(c.bid) ELSE c.bid, e.ts)

BasicOK(eh) ==
    /\ eh.hdr.version_block = BLOCK_PROTOCOL
    /\ eh.hdr.height >= 1
    /\ Len(eh.commit.sigs) >= 1
    /\ \A i \in 1..Len(eh.commit.sigs) : eh.commit.sigs[i].flag # "absent" => eh.commit.sigs[i].sig.key # -1
    /\ Len(eh.vals) >= 1

DahOK(eh) ==
    /\ eh.hdr.version_app \in Versions
    /\ Len(eh.dah.rows) = Len(eh.dah.cols)
    /\ Len(eh.dah.rows) >= 2
    /\ Len(eh.dah.rows) <= MaxWidth(eh.hdr.version_app)

\* property layer: everything the statement lists is bound
IdealValidate(eh) ==
    /\ BasicOK(eh)
    /\ eh.hdr.validators_hash = eh.vals
    /\ eh.hdr.data_hash = eh.dah
    /\ eh.commit.h = eh.hdr.height
    /\ eh.commit.bid.hash = eh.hdr
    /\ Len(eh.commit.sigs) = Len(eh.vals)
    /\ \A i \in 1..Len(eh.vals) :
          LET e == eh.commit.sigs[i] IN
          e.flag # "absent" => /\ e.addr = eh.vals[i].key
                               /\ SigValid(e.sig, eh.vals[i].key, EntryExpect(eh, i))
    /\ 3 * LightSignedPower(eh.vals, eh.hdr.chain_id, eh.hdr.height, eh.commit) > 2 * Total(eh.vals)
    /\ DahOK(eh)

\* algorithm layer: ExtendedHeader::validate, in the order of the code
AlgValidate(eh) ==
    IF ~BasicOK(eh) THEN "err_basic"
    ELSE IF eh.hdr.validators_hash # eh.vals THEN "err_valset_hash"
    ELSE IF eh.hdr.data_hash # eh.dah THEN "err_dah_hash"
    ELSE IF eh.commit.h # eh.hdr.height THEN "err_commit_height"
    ELSE IF eh.commit.bid.hash # eh.hdr THEN "err_block_hash"
    ELSE LET r == AlgLight(eh.vals, eh.hdr.chain_id, eh.hdr.height, eh.commit) IN
         IF r # "ok" THEN r
         ELSE IF ~DahOK(eh) THEN "err_dah_basic"
         ELSE "ok"

---------------------------------------------------------------------------
(* single-field mutations *)

BumpHdr(hdr, f) ==
    CASE f = "data_hash" -> [hdr EXCEPT !.data_hash = [rows |-> Append(@.rows, 999), cols |-> @.cols]]
      [] f = "validators_hash" -> [hdr EXCEPT !.validators_hash = Append(@, Val(Fresh, 1))]
      [] f = "next_validators_hash" -> [hdr EXCEPT !.next_validators_hash = Append(@, Val(Fresh, 1))]
      [] OTHER -> [hdr EXCEPT ![f] = @ + 1]

SigDetails == {"garbage", "otherkey"}
AddrDetails == {"stranger", "peer"}

\* m = [fam, idx, detail]
Mut(eh, m) ==
    LET n == Len(eh.vals) IN
    CASE m.fam = "none" -> eh
      [] m.fam = "hdr" -> [eh EXCEPT !.hdr = BumpHdr(@, m.detail)]
      \* the forger also re-computes the block hash in the commit (signatures stay)
      [] m.fam = "hdr_rebind" ->
            LET h2 == BumpHdr(eh.hdr, m.detail) IN [eh EXCEPT !.hdr = h2, !.commit.bid.hash = h2]
      [] m.fam = "dah.row" -> [eh EXCEPT !.dah.rows[m.idx] = @ + 1000]
      [] m.fam = "dah.col" -> [eh EXCEPT !.dah.cols[m.idx] = @ + 1000]
      [] m.fam = "vals.key" -> [eh EXCEPT !.vals[m.idx].key = Fresh]
      [] m.fam = "vals.power" -> [eh EXCEPT !.vals[m.idx].power = @ + 1]
      [] m.fam = "commit.block_id.hash" -> [eh EXCEPT !.commit.bid.hash = BumpHdr(@, "app_hash")]
      [] m.fam = "commit.block_id.parts" -> [eh EXCEPT !.commit.bid.psh = @ + 1]
      [] m.fam = "commit.height" -> [eh EXCEPT !.commit.h = @ + 1]
      [] m.fam = "commit.round" -> [eh EXCEPT !.commit.round = @ + 1]
      [] m.fam = "commit_sig.signature" ->
            [eh EXCEPT !.commit.sigs[m.idx].sig =
                IF m.detail = "garbage" THEN Garbage(eh.commit.bid) ELSE [@ EXCEPT !.key = Fresh]]
      [] m.fam = "commit_sig.timestamp" -> [eh EXCEPT !.commit.sigs[m.idx].ts = @ + 1]
      [] m.fam = "commit_sig.validator_address" ->
            [eh EXCEPT !.commit.sigs[m.idx].addr = IF m.detail = "stranger" THEN Fresh ELSE (m.idx % n) + 1]
      [] m.fam = "commit_sig.flag" ->
            [eh EXCEPT !.commit.sigs[m.idx].flag = m.detail]

\* where the mutated entry stands with respect to the light algorithm (finding classes)
Position(eh, m) ==
    IF m.idx = 0 \/ m.fam \notin {"commit_sig.signature", "commit_sig.timestamp",
                                 "commit_sig.validator_address", "commit_sig.flag"} THEN "n/a"
    ELSE LET q == LightQuorumAt(eh.vals, eh.hdr.chain_id, eh.commit)
             e == eh.commit.sigs[m.idx] IN
         IF e.flag = "nil" THEN "nil"
         ELSE IF m.idx <= q THEN "within_quorum" ELSE "after_quorum"

\* families the property statement lists: all of them must make validation fail
Listed == {"hdr", "hdr_rebind", "dah.row", "dah.col", "vals.key", "vals.power",
           "commit.block_id.hash", "commit.block_id.parts", "commit.height", "commit.round",
           "commit_sig.signature", "commit_sig.timestamp", "commit_sig.validator_address"}

Case(c, m) ==
    LET eh == Honest(c.n, c.pw, c.roles, c.v, c.w)
        meh == Mut(eh, m)
        ideal == IdealValidate(meh)
    IN [n |-> c.n, pw |-> c.pw, roles |-> c.roles, v |-> c.v, w |-> c.w, mut |-> m,
        changed |-> meh # eh,
        ideal |-> ideal,
        \* the flag of an entry is not in the statement's list: only the 2/3 rule is demanded there
        verdict |-> IF m.fam = "none" THEN (IF ideal THEN "MustAccept" ELSE "MustReject")
                    ELSE IF m.fam = "commit_sig.flag"
                         THEN (IF 3 * LightSignedPower(meh.vals, meh.hdr.chain_id, meh.hdr.height, meh.commit)
                                    <= 2 * Total(meh.vals) THEN "MustReject" ELSE "Either")
                    ELSE IF ~ideal THEN "MustReject" ELSE "Either",
        alg |-> AlgValidate(meh),
        pos |-> Position(eh, m),
        quorum_at |-> LightQuorumAt(eh.vals, eh.hdr.chain_id, eh.commit)]

M(fam, idx, detail) == [fam |-> fam, idx |-> idx, detail |-> detail]
IdxSample(w) == {1, (w \div 2) + 1, w}

---------------------------------------------------------------------------
(* state machine: the initial states are the honest configurations *)

Roles == {"commit", "nil", "absent"}
DefaultVW == CHOOSE p \in VW : \A q \in VW : p <= q
Vof(p) == p \div 10000
Wof(p) == p % 10000

Init ==
    /\ phase = "new"
    /\ \/ \E n \in 1..MaxNStruct : \E pw \in [1..n -> Palette] : \E roles \in [1..n -> Roles] : \E p \in VW :
             /\ Sorted(n, pw) /\ HasQuorum(n, pw, roles)
             /\ out = [grp |-> "struct", cfg |-> [n |-> n, pw |-> pw, roles |-> roles, v |-> Vof(p), w |-> Wof(p)]]
       \/ \E n \in 1..MaxNSig : \E pw \in [1..n -> Palette] : \E roles \in [1..n -> Roles] :
             /\ Sorted(n, pw) /\ HasQuorum(n, pw, roles)
             /\ out = [grp |-> "sig", cfg |-> [n |-> n, pw |-> pw, roles |-> roles, v |-> Vof(DefaultVW), w |-> Wof(DefaultVW)]]

Emit(m) == out' = Case(out.cfg, m) /\ phase' = "done"

DecideHonest == phase = "new" /\ Emit(M("none", 0, ""))
DecideHdr == phase = "new" /\ out.grp = "struct" /\ \E f \in HdrFields : Emit(M("hdr", 0, f))
DecideHdrRebind == phase = "new" /\ out.grp = "struct" /\ \E f \in HdrFields : Emit(M("hdr_rebind", 0, f))
DecideDah == phase = "new" /\ out.grp = "struct" /\
             \E fam \in {"dah.row", "dah.col"} : \E i \in IdxSample(out.cfg.w) : Emit(M(fam, i, ""))
DecideVals == phase = "new" /\ out.grp = "struct" /\
              \E fam \in {"vals.key", "vals.power"} : \E i \in 1..out.cfg.n : Emit(M(fam, i, ""))
DecideCommit == phase = "new" /\ out.grp = "struct" /\
                \E fam \in {"commit.block_id.hash", "commit.block_id.parts", "commit.height", "commit.round"} :
                    Emit(M(fam, 0, ""))
DecideSig ==
    /\ phase = "new" /\ out.grp = "sig"
    /\ \E i \in 1..out.cfg.n :
          /\ out.cfg.roles[i] # "absent"
          /\ \/ \E d \in SigDetails : Emit(M("commit_sig.signature", i, d))
             \/ Emit(M("commit_sig.timestamp", i, ""))
             \/ \E d \in AddrDetails : (d = "peer" => out.cfg.n > 1) /\ Emit(M("commit_sig.validator_address", i, d))
DecideFlag ==
    /\ phase = "new" /\ out.grp = "sig"
    /\ \E i \in 1..out.cfg.n : \E d \in {"commit", "nil", "absent"} :
          /\ out.cfg.roles[i] # "absent" /\ out.cfg.roles[i] # d
          /\ Emit(M("commit_sig.flag", i, d))

Next == DecideHonest \/ DecideHdr \/ DecideHdrRebind \/ DecideDah \/ DecideVals \/ DecideCommit
        \/ DecideSig \/ DecideFlag
Spec == Init /\ [][Next]_vars

---------------------------------------------------------------------------
Done == phase = "done"

\* C01 on the property layer: the honest header validates, every listed mutation is a real
\* change and makes validation fail
HonestAccepted == Done /\ out.mut.fam = "none" => out.ideal /\ out.verdict = "MustAccept"
ListedRejected == Done /\ out.mut.fam \in Listed => out.changed /\ ~out.ideal /\ out.verdict = "MustReject"
\* the algorithm layer never rejects the honest header and never accepts what light verification
\* must reject (C03): it may only be laxer than the ideal, never stricter
AlgNotStricter == Done /\ out.ideal => out.alg = "ok"
\* the places where it is laxer are exactly the ones outside the light algorithm's reach
AlgLaxOnlyOffQuorum ==
    Done /\ out.alg = "ok" /\ ~out.ideal =>
        \/ out.pos \in {"after_quorum", "nil"}
        \/ out.mut.fam \in {"commit_sig.validator_address", "commit_sig.flag"}
\* whatever the verdict demands to reject because of the 2/3 rule is rejected by the algorithm layer
AlgSoundOnFlag == Done /\ out.mut.fam = "commit_sig.flag" /\ out.verdict = "MustReject" => out.alg # "ok"
\* as-is deviation (expected to FAIL, see known findings): the algorithm binds everything
AlgBindsAll == Done => (out.alg = "ok" <=> out.ideal)
=============================================================================
