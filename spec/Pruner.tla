--------------------------------- MODULE Pruner -------------------------------
(***************************************************************************)
(* C35.  The pruner (node/src/pruner.rs get_next_prunable_batch and the    *)
(* removal loop) with the store, the blockstore and the daser's            *)
(* permission.                                                             *)
(*                                                                         *)
(* Heights 1..N, header h has time h, clock `now`; inside a window of      *)
(* width W iff now - h < W.                                                *)
(***************************************************************************)
EXTENDS Naturals, FiniteSets, Sequences, Ranges

CONSTANTS WSamp, WPrune, MaxBatch

VARIABLES stored, sampled, pruned, meta,    \* header store (meta: h -> set of CIDs)
          bstore,                            \* CIDs present in the blockstore
          now,
          ongoingD,                          \* blocks the daser is sampling (it refuses to let them go)
          asked,                             \* h -> last answer of the daser to want_to_prune (TRUE/FALSE)
          batch,                             \* heights the pruner decided to remove, in removal order
          obs
pvars == <<stored, sampled, pruned, meta, bstore, now, ongoingD, asked, batch, obs>>

InWin(h, W) == now - h < W
Synced == stored \cup pruned
NoObs == [kind |-> "none"]
MetaOf(h) == IF h \in DOMAIN meta THEN meta[h] ELSE {}

Init == /\ stored = {} /\ sampled = {} /\ pruned = {} /\ meta = <<>> /\ bstore = {} /\ now = 1
        /\ ongoingD = {} /\ asked = <<>> /\ batch = <<>> /\ obs = NoObs

\* the newest stored header that is outside a window (find_height_after_window, C36)
AfterWindow(W) == LET O == {h \in stored : ~InWin(h, W)} IN IF O = {} THEN 0 ELSE MaxOf(O)

\* get_next_prunable_batch; `grant` is the daser's answer for the heights it is asked about
Candidates    == {h \in stored : h <= AfterWindow(WPrune)}
AfterSampling == {h \in Candidates : h <= AfterWindow(WSamp)}
PrunableAndSampled == ((Candidates \ AfterSampling) \ Edges(Synced)) \cap sampled
SortedSeq(S) == SetToSortSeq(S, <)

ComputeBatch(grant) ==
    /\ batch = <<>>
    /\ grant \subseteq (AfterSampling \ sampled) \ ongoingD          \* the daser refuses ongoing blocks
    /\ LET first == HeadN(PrunableAndSampled, MaxBatch)
           room  == MaxBatch - Cardinality(first)
           more  == HeadN({h \in AfterSampling : h \in sampled \/ h \in grant}, room)
       IN batch' = SortedSeq(first \cup more)
    /\ asked' = [h \in (DOMAIN asked) \cup (AfterSampling \ sampled) |->
                    IF h \in AfterSampling \ sampled THEN h \in grant ELSE asked[h]]
    /\ obs' = NoObs
    /\ UNCHANGED <<stored, sampled, pruned, meta, bstore, now, ongoingD>>

\* removal of the next height of the batch: first its CIDs leave the blockstore, then the header
RemoveNext ==
    /\ batch # <<>>
    /\ LET h == Head(batch) IN
       /\ bstore' = bstore \ MetaOf(h)
       /\ stored' = stored \ {h} /\ sampled' = sampled \ {h} /\ pruned' = pruned \cup {h}
       /\ meta' = [x \in (DOMAIN meta) \ {h} |-> meta[x]]
       /\ obs' = [kind |-> "remove", h |-> h, inPrune |-> InWin(h, WPrune), inSamp |-> InWin(h, WSamp),
                  wasSampled |-> h \in sampled, wasEdge |-> h \in Edges(Synced),
                  ongoing |-> h \in ongoingD, left |-> MetaOf(h) \cap bstore']
    /\ batch' = Tail(batch)
    /\ UNCHANGED <<now, ongoingD, asked>>

(* ---- environment ---- *)
Tick == now' = now + 1 /\ obs' = NoObs /\ UNCHANGED <<stored, sampled, pruned, meta, bstore, ongoingD, asked, batch>>
InsertH(h, cids) ==   \* syncer inserts, daser records metadata and fetches the CIDs
    /\ h \notin stored /\ h <= now
    /\ stored' = stored \cup {h} /\ pruned' = pruned \ {h}
    /\ meta' = [x \in (DOMAIN meta) \cup {h} |-> IF x = h THEN cids ELSE meta[x]]
    /\ bstore' = bstore \cup cids /\ obs' = NoObs
    /\ UNCHANGED <<sampled, now, ongoingD, asked, batch>>
MarkH(h) == h \in stored /\ sampled' = sampled \cup {h} /\ ongoingD' = ongoingD \ {h} /\ obs' = NoObs
            /\ UNCHANGED <<stored, pruned, meta, bstore, now, asked, batch>>
\* the daser starts sampling a block it has not promised to the pruner
StartSampling(h) == /\ h \in stored \ sampled /\ ~(h \in DOMAIN asked /\ asked[h])
                    /\ \A i \in DOMAIN batch : batch[i] # h
                    /\ ongoingD' = ongoingD \cup {h} /\ obs' = NoObs
                    /\ UNCHANGED <<stored, sampled, pruned, meta, bstore, now, asked, batch>>

(* ---- C35 ---- *)
SafeRemoval == obs.kind = "remove" =>
    /\ ~obs.inPrune                                      \* never inside the pruning window
    /\ obs.inSamp => (obs.wasSampled /\ ~obs.wasEdge)    \* inside the sampling window: sampled and not an edge
    /\ ~obs.ongoing                                      \* never while its sampling is in progress
    /\ obs.left = {}                                     \* its CIDs were removed from the blockstore first
NoLeak == \A c \in bstore : \E h \in stored : c \in MetaOf(h)
=============================================================================
