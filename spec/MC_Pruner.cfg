CONSTANTS
  N = 4
  WSamp = 3
  WPrune = 1
  MaxBatch = 2
INIT Init
NEXT Next
VIEW View
INVARIANTS SafeRemoval NoLeak
CHECK_DEADLOCK FALSE
