CONSTANT M = 1048576
CONSTANT MaxLen = 3
CONSTANT Base = 5
CONSTANT Requests <- MCRequests
CONSTANT EntriesOf <- MCEntries
INIT GenInit
NEXT GenNext
CHECK_DEADLOCK FALSE
