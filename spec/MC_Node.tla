--------------------------------- MODULE MC_Node --------------------------------
EXTENDS Node, TLC
View == <<now, netHead, peers, stored, sampled, pruned, meta, bstore, sphase, subj, fetching, slowH,
          dphase, queue, ongoing, timedOut, promised, headH, batch>>
=============================================================================
